(* C15: lemmas about Engine.handle_jump and its traversal helpers (closed_downstream, all_dependents). *)
From Coq Require Import List Bool Arith ZArith Lia.
Import ListNotations.
From Stab.model Require Import Base StatusM Readiness StageStat Engine JumpM.
From Stab.gen Require Import Gen_Config Gen_Guards.
From Stab.proofs Require Import EngineP EngineLegal.
Local Open Scope nat_scope.

(* ------------------------------------------------------------------------------------------ *)
(* Part 1: an append-only closure iteration (both traversals are instances)                    *)
(* ------------------------------------------------------------------------------------------ *)
Lemma NoDup_snoc {A} (l : list A) x : NoDup l -> ~ In x l -> NoDup (l ++ [x]).
Proof.
  induction l as [|a l IH]; simpl; intros H Hx; [constructor; [intros []|constructor]|].
  inversion H; subst. constructor.
  - rewrite in_app_iff. simpl. intros [H1|[H1|[]]]; [contradiction|subst; apply Hx; left; reflexivity].
  - apply IH; [assumption|]. intros H1. apply Hx. right. exact H1.
Qed.

Section Closure.
  Variable n : nat.
  Variable cond : list nat -> nat -> bool.
  Hypothesis cond_mono : forall a a' j, incl a a' -> cond a j = true -> cond a' j = true.

  Definition cstep (a : list nat) (j : nat) : list nat :=
    if mem_nat j a then a else if cond a j then a ++ [j] else a.
  Definition cpass (a : list nat) : list nat := fold_left cstep (seqn n) a.
  Fixpoint cfix (fuel : nat) (a : list nat) : list nat :=
    match fuel with
    | O => a
    | S f => let a' := cpass a in if length a' =? length a then a else cfix f a'
    end.

  (* b is a obtained from a by justified appends *)
  Inductive grows (a : list nat) : list nat -> Prop :=
  | g_refl : grows a a
  | g_add b j : grows a b -> j < n -> mem_nat j b = false -> cond b j = true -> grows a (b ++ [j]).

  Lemma mem_nat_In x l : mem_nat x l = true <-> In x l.
  Proof.
    unfold mem_nat. rewrite existsb_exists. split.
    - intros [y [Hy E]]. apply Nat.eqb_eq in E. subst. exact Hy.
    - intros H. exists x. split; [exact H|apply Nat.eqb_refl].
  Qed.

  Lemma mem_nat_false x l : mem_nat x l = false <-> ~ In x l.
  Proof. rewrite <- mem_nat_In. destruct (mem_nat x l); split; congruence. Qed.

  Lemma grows_trans a b c : grows a b -> grows b c -> grows a c.
  Proof. intros H1 H2. induction H2; [exact H1|]. apply g_add; assumption. Qed.

  Lemma grows_step a b j : grows a b -> j < n -> grows a (cstep b j).
  Proof.
    intros H Hj. unfold cstep. destruct (mem_nat j b) eqn:E; [exact H|].
    destruct (cond b j) eqn:C; [|exact H]. apply g_add; assumption.
  Qed.

  Lemma grows_fold js : forall a b, Forall (fun j => j < n) js -> grows a b -> grows a (fold_left cstep js b).
  Proof.
    induction js as [|j js IH]; simpl; intros a b H G; [exact G|]. inversion H; subst.
    apply IH; [assumption|]. apply grows_step; assumption.
  Qed.

  Lemma seqn_lt : Forall (fun j => j < n) (seqn n).
  Proof. apply Forall_forall. intros j H. apply in_seq in H. lia. Qed.

  Lemma grows_pass a : grows a (cpass a).
  Proof. apply grows_fold; [apply seqn_lt|constructor]. Qed.

  Lemma grows_fix fuel : forall a, grows a (cfix fuel a).
  Proof.
    induction fuel as [|f IH]; intros a; simpl; [constructor|].
    destruct (length (cpass a) =? length a); [constructor|].
    eapply grows_trans; [apply grows_pass|apply IH].
  Qed.

  (* consequences of grows *)
  Lemma grows_app a b : grows a b -> exists d, b = a ++ d.
  Proof.
    induction 1 as [|b j _ [d ->] _ _ _]; [exists []; rewrite app_nil_r; reflexivity|].
    exists (d ++ [j]). rewrite app_assoc. reflexivity.
  Qed.

  Lemma grows_incl a b : grows a b -> incl a b.
  Proof. intros H. destruct (grows_app _ _ H) as [d ->]. apply incl_appl, incl_refl. Qed.

  Lemma grows_length a b : grows a b -> length a <= length b.
  Proof. intros H. destruct (grows_app _ _ H) as [d ->]. rewrite app_length. lia. Qed.

  Lemma grows_same_length a b : grows a b -> length b = length a -> b = a.
  Proof.
    intros H E. destruct (grows_app _ _ H) as [d ->]. rewrite app_length in E.
    destruct d; [apply app_nil_r|simpl in E; lia].
  Qed.

  Lemma grows_nodup a b : grows a b -> NoDup a -> NoDup b.
  Proof.
    induction 1 as [|b j _ IH _ Hm _]; intros Ha; [exact Ha|].
    apply NoDup_snoc; [apply IH; exact Ha|]. apply mem_nat_false. exact Hm.
  Qed.

  (* every element is an initial one or a stage whose condition holds in the final list *)
  Lemma grows_sound a b : grows a b -> forall x, In x b -> In x a \/ (x < n /\ cond b x = true).
  Proof.
    induction 1 as [|b j G IH Hj Hm Hc]; intros x Hx; [left; exact Hx|].
    apply in_app_or in Hx. destruct Hx as [Hx|[Hx|[]]].
    - destruct (IH x Hx) as [H|[H1 H2]]; [left; exact H|]. right. split; [exact H1|].
      apply (cond_mono b); [apply incl_appl, incl_refl|exact H2].
    - subst x. right. split; [exact Hj|]. apply (cond_mono b); [apply incl_appl, incl_refl|exact Hc].
  Qed.

  (* the result is below every set closed under the rule *)
  Lemma grows_least a b (X : nat -> Prop) :
    grows a b -> (forall x, In x a -> X x) ->
    (forall acc j, j < n -> (forall x, In x acc -> X x) -> cond acc j = true -> X j) ->
    forall x, In x b -> X x.
  Proof.
    intros G Ha Hcl. induction G as [|b j G IH Hj Hm Hc]; [exact Ha|].
    intros x Hx. apply in_app_or in Hx. destruct Hx as [Hx|[Hx|[]]]; [apply IH; exact Hx|].
    subst x. apply (Hcl b j Hj IH Hc).
  Qed.

  (* a pass that adds nothing changed nothing at any step *)
  Lemma cstep_length a j : length a <= length (cstep a j).
  Proof. unfold cstep. destruct (mem_nat j a); [lia|]. destruct (cond a j); [rewrite app_length; simpl|]; lia. Qed.

  Lemma fold_length js : forall a, length a <= length (fold_left cstep js a).
  Proof. induction js as [|j js IH]; simpl; intros a; [lia|]. specialize (IH (cstep a j)). pose proof (cstep_length a j). lia. Qed.

  Lemma fold_stable js : forall a,
    length (fold_left cstep js a) = length a -> forall j, In j js -> mem_nat j a = true \/ cond a j = false.
  Proof.
    induction js as [|j0 js IH]; simpl; intros a E j Hj; [contradiction|].
    pose proof (fold_length js (cstep a j0)) as H1. pose proof (cstep_length a j0) as H2.
    assert (cstep a j0 = a) as Hs.
    { unfold cstep in *. destruct (mem_nat j0 a); [reflexivity|]. destruct (cond a j0); [|reflexivity].
      rewrite app_length in *. simpl in *. lia. }
    destruct Hj as [<-|Hj].
    - unfold cstep in Hs. destruct (mem_nat j0 a); [left; reflexivity|]. destruct (cond a j0) eqn:C; [|right; reflexivity].
      exfalso. assert (length (a ++ [j0]) = length a) by congruence. rewrite app_length in H. simpl in H. lia.
    - rewrite Hs in E. apply (IH a E j Hj).
  Qed.

  Definition stable (a : list nat) : Prop := length (cpass a) = length a.

  Lemma stable_complete a : stable a -> forall j, j < n -> mem_nat j a = false -> cond a j = false.
  Proof.
    intros H j Hj Hm. destruct (fold_stable (seqn n) a H j) as [H1|H1]; [apply in_seq; lia|congruence|exact H1].
  Qed.

  (* the fuel suffices: every productive pass adds a new element of a finite universe *)
  Lemma fix_stable U : (forall j, j < n -> In j U) -> forall fuel a,
    NoDup a -> incl a U -> length U < length a + fuel -> stable (cfix fuel a).
  Proof.
    intros HU. induction fuel as [|f IH]; intros a Hn Hi Hl.
    - exfalso. pose proof (NoDup_incl_length Hn Hi). lia.
    - simpl. destruct (length (cpass a) =? length a) eqn:E.
      + apply Nat.eqb_eq in E. exact E.
      + apply Nat.eqb_neq in E. pose proof (grows_pass a) as G. pose proof (grows_length _ _ G) as Hlen.
        apply IH.
        * apply (grows_nodup _ _ G Hn).
        * intros x Hx. destruct (grows_sound _ _ G x Hx) as [H|[H _]]; [apply Hi; exact H|apply HU; exact H].
        * lia.
  Qed.
End Closure.

(* ------------------------------------------------------------------------------------------ *)
(* Part 2: closed_downstream (get_resettable_downstream_stages / get_skippable_downstream_stages) *)
(* ------------------------------------------------------------------------------------------ *)
Definition nstages (s : state) : nat := length (w_stages s).

Definition scope_cond (s : state) (sc : list nat) (j : nat) : bool :=
  let rq := reqs_of s j in negb (is_nil rq) && forallb (fun r => mem_nat r sc) rq.

Lemma scope_pass_is s sc : scope_pass s sc = cpass (nstages s) (scope_cond s) sc.
Proof. reflexivity. Qed.

Lemma scope_fix_is fuel s : forall sc, scope_fix fuel s sc = cfix (nstages s) (scope_cond s) fuel sc.
Proof.
  induction fuel as [|f IH]; intros sc; simpl; [reflexivity|].
  rewrite scope_pass_is. destruct (length (cpass (nstages s) (scope_cond s) sc) =? length sc); [reflexivity|apply IH].
Qed.

Lemma scope_cond_mono s a a' j : incl a a' -> scope_cond s a j = true -> scope_cond s a' j = true.
Proof.
  unfold scope_cond. cbn zeta. intros Hi H. apply andb_true_iff in H. destruct H as [H1 H2].
  rewrite H1. simpl. rewrite forallb_forall in *. intros r Hr. specialize (H2 r Hr).
  apply mem_nat_In. apply Hi. apply mem_nat_In. exact H2.
Qed.

Lemma scope_cond_spec s a j :
  scope_cond s a j = true <-> reqs_of s j <> [] /\ forall r, In r (reqs_of s j) -> In r a.
Proof.
  unfold scope_cond. cbn zeta. rewrite andb_true_iff, forallb_forall. split.
  - intros [H1 H2]. split.
    + intros E. rewrite E in H1. discriminate.
    + intros r Hr. apply mem_nat_In. apply H2. exact Hr.
  - intros [H1 H2]. split.
    + destruct (reqs_of s j); [congruence|reflexivity].
    + intros r Hr. apply mem_nat_In. apply H2. exact Hr.
Qed.

(* the whole scope: seed first, then the closure *)
Definition scope_of (s : state) (seed : nat) : list nat := scope_fix (S (nstages s)) s [seed].

Lemma scope_of_grows s seed : grows (nstages s) (scope_cond s) [seed] (scope_of s seed).
Proof. unfold scope_of. rewrite scope_fix_is. apply grows_fix. Qed.

Lemma scope_of_shape s seed : scope_of s seed = seed :: closed_downstream s seed.
Proof.
  destruct (grows_app _ _ _ _ (scope_of_grows s seed)) as [d E].
  unfold closed_downstream. fold (nstages s). fold (scope_of s seed). rewrite E. reflexivity.
Qed.

Lemma scope_of_nodup s seed : NoDup (scope_of s seed).
Proof. apply (grows_nodup _ _ _ _ (scope_of_grows s seed)). constructor; [intros []|constructor]. Qed.

Lemma scope_of_stable s seed : stable (nstages s) (scope_cond s) (scope_of s seed).
Proof.
  unfold scope_of. rewrite scope_fix_is.
  apply (fix_stable (nstages s) (scope_cond s) (scope_cond_mono s) (seed :: seqn (nstages s))).
  - intros j Hj. right. apply in_seq. lia.
  - constructor; [intros []|constructor].
  - intros x [<-|[]]. left. reflexivity.
  - simpl. unfold seqn. rewrite seq_length. lia.
Qed.

(* D3 / D2 *)
Lemma closed_nodup s seed : NoDup (closed_downstream s seed).
Proof. pose proof (scope_of_nodup s seed) as H. rewrite scope_of_shape in H. inversion H; assumption. Qed.

Lemma seed_not_closed s seed : ~ In seed (closed_downstream s seed).
Proof. pose proof (scope_of_nodup s seed) as H. rewrite scope_of_shape in H. inversion H; assumption. Qed.

(* soundness: a member is a stage other than the seed, has requisites, and all of them are in scope *)
Theorem closed_sound s seed j :
  In j (closed_downstream s seed) ->
  j < nstages s /\ j <> seed /\ reqs_of s j <> [] /\
  forall r, In r (reqs_of s j) -> r = seed \/ In r (closed_downstream s seed).
Proof.
  intros Hj.
  assert (In j (scope_of s seed)) as Hin by (rewrite scope_of_shape; right; exact Hj).
  assert (j <> seed) as Hne by (intros ->; exact (seed_not_closed s seed Hj)).
  destruct (grows_sound _ _ (scope_cond_mono s) _ _ (scope_of_grows s seed) j Hin) as [[H|[]]|[H1 H2]]; [congruence|].
  apply scope_cond_spec in H2. destruct H2 as [H2 H3].
  split; [exact H1|]. split; [exact Hne|]. split; [exact H2|].
  intros r Hr. specialize (H3 r Hr). rewrite scope_of_shape in H3. destruct H3 as [H3|H3]; [left; congruence|right; exact H3].
Qed.

(* completeness: a stage all of whose (non-empty) requisites are in the final scope is in it; in particular the fuel
   S (number of stages) suffices -- the iteration ended because a whole scan added nothing *)
Theorem closed_complete s seed j :
  j < nstages s -> j <> seed -> reqs_of s j <> [] ->
  (forall r, In r (reqs_of s j) -> r = seed \/ In r (closed_downstream s seed)) ->
  In j (closed_downstream s seed).
Proof.
  intros Hj Hne Hr Hall.
  destruct (mem_nat j (scope_of s seed)) eqn:E.
  - apply mem_nat_In in E. rewrite scope_of_shape in E. destruct E as [E|E]; [congruence|exact E].
  - exfalso. pose proof (stable_complete _ _ _ (scope_of_stable s seed) j Hj E) as Hc.
    assert (scope_cond s (scope_of s seed) j = true) as Ht.
    { apply scope_cond_spec. split; [exact Hr|]. intros r Hin. rewrite scope_of_shape.
      destruct (Hall r Hin) as [->|H]; [left; reflexivity|right; exact H]. }
    congruence.
Qed.

(* least: any set that contains the seed and is closed under the rule contains the closure *)
Theorem closed_least s seed (X : nat -> Prop) :
  X seed ->
  (forall j, j < nstages s -> reqs_of s j <> [] -> (forall r, In r (reqs_of s j) -> X r) -> X j) ->
  forall j, In j (closed_downstream s seed) -> X j.
Proof.
  intros Hs Hcl j Hj.
  apply (grows_least _ _ _ _ X (scope_of_grows s seed)).
  - intros x [<-|[]]. exact Hs.
  - intros acc k Hk Hacc Hc. apply scope_cond_spec in Hc. destruct Hc as [H1 H2].
    apply Hcl; [exact Hk|exact H1|]. intros r Hr. apply Hacc, H2, Hr.
  - rewrite scope_of_shape. right. exact Hj.
Qed.

(* ------------------------------------------------------------------------------------------ *)
(* Part 3: all_dependents (get_downstream_stages) = transitive dependents                       *)
(* ------------------------------------------------------------------------------------------ *)
Definition dep_cond (s : state) (seed : nat) (a : list nat) (j : nat) : bool :=
  existsb (fun r => (r =? seed) || mem_nat r a) (reqs_of s j).

Lemma dependents_fix_is fuel s seed : forall a, dependents_fix fuel s a seed = cfix (nstages s) (dep_cond s seed) fuel a.
Proof.
  induction fuel as [|f IH]; intros a; simpl; [reflexivity|].
  change (fold_left _ (seqn (length (w_stages s))) a) with (cpass (nstages s) (dep_cond s seed) a).
  destruct (length (cpass (nstages s) (dep_cond s seed) a) =? length a); [reflexivity|apply IH].
Qed.

Lemma dep_cond_spec s seed a j :
  dep_cond s seed a j = true <-> exists r, In r (reqs_of s j) /\ (r = seed \/ In r a).
Proof.
  unfold dep_cond. rewrite existsb_exists. split; intros [r [Hr H]]; exists r; (split; [exact Hr|]).
  - apply orb_true_iff in H. destruct H as [H|H]; [left; apply Nat.eqb_eq; exact H|right; apply mem_nat_In; exact H].
  - apply orb_true_iff. destruct H as [H|H]; [left; apply Nat.eqb_eq; exact H|right; apply mem_nat_In; exact H].
Qed.

Lemma dep_cond_mono s seed a a' j : incl a a' -> dep_cond s seed a j = true -> dep_cond s seed a' j = true.
Proof.
  intros Hi H. apply dep_cond_spec in H. apply dep_cond_spec. destruct H as [r [Hr H]]. exists r. split; [exact Hr|].
  destruct H as [H|H]; [left; exact H|right; apply Hi; exact H].
Qed.

(* j depends (transitively, through at least one edge) on seed; every stage on the way is a real stage *)
Inductive depends_on (s : state) (seed : nat) : nat -> Prop :=
| dep_direct j : j < nstages s -> In seed (reqs_of s j) -> depends_on s seed j
| dep_trans j r : j < nstages s -> In r (reqs_of s j) -> depends_on s seed r -> depends_on s seed j.

Lemma deps_grows s seed : grows (nstages s) (dep_cond s seed) [] (all_dependents s seed).
Proof. unfold all_dependents. fold (nstages s). rewrite dependents_fix_is. apply grows_fix. Qed.

Lemma deps_stable s seed : stable (nstages s) (dep_cond s seed) (all_dependents s seed).
Proof.
  unfold all_dependents. fold (nstages s). rewrite dependents_fix_is.
  apply (fix_stable (nstages s) (dep_cond s seed) (dep_cond_mono s seed) (seqn (nstages s))).
  - intros j Hj. apply in_seq. lia.
  - constructor.
  - intros x [].
  - unfold seqn. rewrite seq_length. simpl. lia.
Qed.

Lemma deps_nodup s seed : NoDup (all_dependents s seed).
Proof. apply (grows_nodup _ _ _ _ (deps_grows s seed)). constructor. Qed.

Theorem deps_sound s seed j : In j (all_dependents s seed) -> depends_on s seed j.
Proof.
  apply (grows_least _ _ _ _ (depends_on s seed) (deps_grows s seed)).
  - intros x [].
  - intros acc k Hk Hacc Hc. apply dep_cond_spec in Hc. destruct Hc as [r [Hr [->|H]]].
    + apply dep_direct; assumption.
    + apply dep_trans with r; [assumption|assumption|apply Hacc; exact H].
Qed.

Theorem deps_complete s seed j : depends_on s seed j -> In j (all_dependents s seed).
Proof.
  induction 1 as [j Hj Hr|j r Hj Hr _ IH].
  - destruct (mem_nat j (all_dependents s seed)) eqn:E; [apply mem_nat_In; exact E|]. exfalso.
    pose proof (stable_complete _ _ _ (deps_stable s seed) j Hj E) as Hc.
    assert (dep_cond s seed (all_dependents s seed) j = true) as Ht by (apply dep_cond_spec; exists seed; auto).
    congruence.
  - destruct (mem_nat j (all_dependents s seed)) eqn:E; [apply mem_nat_In; exact E|]. exfalso.
    pose proof (stable_complete _ _ _ (deps_stable s seed) j Hj E) as Hc.
    assert (dep_cond s seed (all_dependents s seed) j = true) as Ht by (apply dep_cond_spec; exists r; auto).
    congruence.
Qed.

(* D1: the fan-in-respecting closure is inside the naive one *)
Lemma closed_in_deps s seed j : In j (closed_downstream s seed) -> In j (all_dependents s seed).
Proof.
  intros Hj. assert (j <> seed) as Hne by (intros ->; exact (seed_not_closed s seed Hj)).
  assert (j = seed \/ In j (all_dependents s seed)) as [H|H]; [|congruence|exact H].
  apply (closed_least s seed (fun x => x = seed \/ In x (all_dependents s seed))); [left; reflexivity| |exact Hj].
  intros k Hk Hne' Hall. right. apply deps_complete.
  destruct (reqs_of s k) as [|r rs] eqn:E; [congruence|].
  destruct (Hall r (or_introl eq_refl)) as [->|H].
  - apply dep_direct; [exact Hk|rewrite E; left; reflexivity].
  - apply dep_trans with r; [exact Hk|rewrite E; left; reflexivity|apply deps_sound; exact H].
Qed.


(* ------------------------------------------------------------------------------------------ *)
(* Part 4: the op list of handle_jump                                                          *)
(* ------------------------------------------------------------------------------------------ *)
Definition muts := list (nat * (stage -> stage)).
Definition mut_ops (ms : muts) : commit := map (fun m => OMut (fst m) (snd m)) ms.
Definition apply_muts (ms : muts) (k : nat) (st : stage) : stage :=
  fold_left (fun x m => if fst m =? k then snd m x else x) ms st.

Lemma nth_op_mut l i f k :
  nth_error (op_stages l (OMut i f)) k =
  option_map (fun st => if i =? k then f st else st) (nth_error l k).
Proof.
  simpl. destruct (nth_error l i) as [st|] eqn:E.
  - destruct (i =? k) eqn:Ek.
    + apply Nat.eqb_eq in Ek. subst k. rewrite (nth_list_set_same _ _ _ _ E), E. reflexivity.
    + apply Nat.eqb_neq in Ek. rewrite nth_list_set_other by exact Ek. destruct (nth_error l k); reflexivity.
  - destruct (i =? k) eqn:Ek.
    + apply Nat.eqb_eq in Ek. subst k. rewrite E. reflexivity.
    + destruct (nth_error l k); reflexivity.
Qed.

Lemma stages_after_muts ms : forall l k,
  nth_error (stages_after l (mut_ops ms)) k = option_map (apply_muts ms k) (nth_error l k).
Proof.
  unfold stages_after, mut_ops, apply_muts. induction ms as [|[i f] ms IH]; intros l k; simpl.
  - destruct (nth_error l k); reflexivity.
  - rewrite IH. change (match nth_error l i with Some st => list_set l i (f st) | None => l end) with (op_stages l (OMut i f)).
    rewrite nth_op_mut. destruct (nth_error l k); reflexivity.
Qed.

Lemma apply_muts_app a b k st : apply_muts (a ++ b) k st = apply_muts b k (apply_muts a k st).
Proof. unfold apply_muts. apply fold_left_app. Qed.

Lemma apply_muts_skip ms k st : (forall m, In m ms -> fst m <> k) -> apply_muts ms k st = st.
Proof.
  unfold apply_muts. revert st. induction ms as [|m ms IH]; simpl; intros st H; [reflexivity|].
  destruct (fst m =? k) eqn:E; [apply Nat.eqb_eq in E; exfalso; apply (H m); auto|]. apply IH. intros m' Hm. apply H. right. exact Hm.
Qed.

(* one function applied at a duplicate-free list of indices *)
Lemma apply_muts_same f js k st :
  NoDup js -> apply_muts (map (fun j => (j, f)) js) k st = if mem_nat k js then f st else st.
Proof.
  unfold apply_muts. revert st. induction js as [|j js IH]; simpl; intros st Hn; [reflexivity|].
  inversion Hn; subst. rewrite IH by assumption. unfold mem_nat. simpl.
  destruct (j =? k) eqn:E.
  - apply Nat.eqb_eq in E. subst k. rewrite Nat.eqb_refl. simpl.
    assert (existsb (Nat.eqb j) js = false) as Hf. { apply (mem_nat_false j js). assumption. }
    fold (mem_nat j js). unfold mem_nat. rewrite Hf. reflexivity.
  - rewrite Nat.eqb_sym, E. simpl. reflexivity.
Qed.

Lemma concat_map_single {A B} (g : A -> B) l : concat (map (fun j => [g j]) l) = map g l.
Proof. induction l; simpl; congruence. Qed.

Lemma iter_shift {A} (f : A -> A) n : forall x, Nat.iter n f (f x) = f (Nat.iter n f x).
Proof. induction n as [|n IH]; intros x; simpl; [reflexivity|]. rewrite IH. reflexivity. Qed.

(* one function applied along any list of indices: as often as the index occurs *)
Lemma apply_muts_iter f js k : forall st,
  apply_muts (map (fun j => (j, f)) js) k st = Nat.iter (count_nat k js) f st.
Proof.
  unfold apply_muts, count_nat. induction js as [|j js IH]; intros st; simpl; [reflexivity|].
  rewrite IH. rewrite (Nat.eqb_sym k j). destruct (j =? k); simpl; [|reflexivity].
  apply iter_shift.
Qed.

(* the mutations of an accepted jump, in commit order *)
Definition kid_muts (s : state) (j : nat) : muts := map (fun c => (c, reset_for_retry)) (children s j).

Definition jump_muts (s : state) (src : stage) (i tg : nat) (jctx : kv) : muts :=
  let nj := (s_jump_count src + 1)%Z in
  map (fun j => (j, reset_for_retry)) (jump_reset_list s i tg) ++
  map (fun j => (j, to_skipped)) (jump_skipped s i tg) ++
  (if i =? tg then []
   else if jump_backward s i tg then (i, jump_src_fn true nj) :: kid_muts s i
   else [(i, jump_src_fn false nj)]) ++
  (tg, jump_tgt_fn nj jctx) :: kid_muts s tg.

Lemma filter_and {A} (f g : A -> bool) l : filter (fun x => f x && g x) l = filter g (filter f l).
Proof.
  induction l as [|a l IH]; simpl; [reflexivity|]. destruct (f a); simpl; [destruct (g a)|]; rewrite IH; reflexivity.
Qed.

Lemma concat_reset_with_kids s f js :
  concat (flat_map (fun j => c_mutate j f :: map (fun c => c_mutate c f) (children s j)) js) =
  map (fun j => OMut j f) (flat_map (reset_with_kids s) js).
Proof.
  induction js as [|j js IH]; simpl; [reflexivity|].
  rewrite concat_app, map_app, IH. f_equal. unfold c_mutate. rewrite (concat_map_single (fun c => OMut c f)). reflexivity.
Qed.

Lemma handle_jump_accepted s id i tg jctx src tgt :
  get_stage s i = Some src -> w_canceled s = false -> get_stage s tg = Some tgt ->
  jump_exhausted (s_jump_count src) (effective_max_jumps s src) = false ->
  handle_jump s id i tg jctx = ok [mut_ops (jump_muts s src i tg jctx) ++ [OMark id; OPush (MStartStage tg 0)]].
Proof.
  intros Hs Hc Ht Hx. unfold handle_jump. rewrite Hs, Hc, Ht, Hx. cbn zeta.
  f_equal. f_equal. unfold txn, jump_muts, mut_ops, kid_muts. cbn zeta.
  fold (jump_resets s i tg). fold (jump_backward s i tg).
  rewrite !concat_app, concat_reset_with_kids. fold (jump_reset_list s i tg).
  rewrite !map_app, !map_map. cbn [fst snd].
  unfold c_mutate at 1. rewrite (concat_map_single (fun j => OMut j to_skipped)).
  rewrite <- !app_assoc. f_equal. f_equal.
  - unfold jump_skipped, skip_candidates, not_started_at. destruct (jump_backward s i tg); [reflexivity|].
    rewrite (filter_and (fun j => negb (mem_nat j (tg :: all_dependents s tg)))). reflexivity.
  - f_equal.
    + destruct (i =? tg); [reflexivity|]. destruct (jump_backward s i tg); [|reflexivity].
      cbn [concat map fst snd c_mutate app]. f_equal. rewrite map_map. cbn [fst snd].
      unfold c_mutate. rewrite (concat_map_single (fun c => OMut c reset_for_retry)). reflexivity.
    + cbn [concat map fst snd c_mutate app]. f_equal. rewrite concat_app, map_map. cbn [fst snd concat app].
      unfold c_mutate. rewrite (concat_map_single (fun c => OMut c reset_for_retry)). rewrite app_nil_r. reflexivity.
Qed.

Lemma mem_filter f k l : mem_nat k (filter f l) = mem_nat k l && f k.
Proof.
  unfold mem_nat. induction l as [|a l IH]; simpl; [reflexivity|].
  destruct (f a) eqn:E; simpl; rewrite IH.
  - destruct (k =? a) eqn:Ek; simpl; [apply Nat.eqb_eq in Ek; subst; rewrite E; reflexivity|reflexivity].
  - destruct (k =? a) eqn:Ek; simpl; [apply Nat.eqb_eq in Ek; subst; rewrite E; destruct (existsb (Nat.eqb a) l); reflexivity|reflexivity].
Qed.

Lemma NoDup_filter {A} (f : A -> bool) l : NoDup l -> NoDup (filter f l).
Proof.
  induction 1 as [|a l Ha Hn IH]; simpl; [constructor|]. destruct (f a); [|exact IH].
  constructor; [|exact IH]. intros H. apply filter_In in H. apply Ha, H.
Qed.

Lemma resets_nodup s i tg : NoDup (jump_resets s i tg).
Proof. apply NoDup_filter, closed_nodup. Qed.

Lemma skipped_nodup s i tg : NoDup (jump_skipped s i tg).
Proof.
  unfold jump_skipped, skip_candidates. destruct (jump_backward s i tg); [constructor|].
  repeat apply NoDup_filter. apply seq_NoDup.
Qed.

Lemma mem_resets s i tg k : mem_nat k (jump_resets s i tg) = mem_nat k (closed_downstream s tg) && (negb (k =? i) && negb (k =? tg)).
Proof. apply mem_filter. Qed.

(* members of the skipped set: in the source's closure, outside the target's chain *)
Lemma skipped_facts s i tg k :
  mem_nat k (jump_skipped s i tg) = true ->
  jump_backward s i tg = false /\ In k (closed_downstream s i) /\ k <> tg /\ ~ In k (all_dependents s tg) /\ not_started_at s k = true.
Proof.
  unfold jump_skipped, skip_candidates. destruct (jump_backward s i tg); [discriminate|].
  rewrite !mem_filter. intros H. repeat (apply andb_true_iff in H; destruct H as [H ?]).
  split; [reflexivity|]. split; [apply mem_nat_In; assumption|].
  match goal with H1 : negb (mem_nat k (tg :: _)) = true |- _ => apply negb_true_iff, mem_nat_false in H1; simpl in H1 end.
  split; [intros ->; tauto|]. split; [tauto|assumption].
Qed.

Lemma children_nodup s j : NoDup (children s j).
Proof. unfold children. apply NoDup_filter. apply seq_NoDup. Qed.

Lemma apply_muts_cons j f ms k st : apply_muts ((j, f) :: ms) k st = apply_muts ms k (if j =? k then f st else st).
Proof. reflexivity. Qed.

Lemma jump_muts_effect s src i tg jctx k st :
  apply_muts (jump_muts s src i tg jctx) k st = jump_effect s src i tg jctx k st.
Proof.
  unfold jump_muts, jump_effect, kid_muts. cbn zeta. rewrite !apply_muts_app.
  rewrite (apply_muts_iter reset_for_retry). fold (iter_reset (count_nat k (jump_reset_list s i tg)) st).
  set (x1 := iter_reset _ st).
  rewrite (apply_muts_same to_skipped) by apply skipped_nodup.
  set (x2 := if mem_nat k (jump_skipped s i tg) then to_skipped x1 else x1).
  assert (forall j x, apply_muts (map (fun c => (c, reset_for_retry)) (children s j)) k x =
                      if mem_nat k (children s j) then reset_for_retry x else x) as Hk.
  { intros j x. apply (apply_muts_same reset_for_retry). apply children_nodup. }
  assert (apply_muts (if i =? tg then []
                      else if jump_backward s i tg
                           then (i, jump_src_fn true (s_jump_count src + 1)) :: map (fun c => (c, reset_for_retry)) (children s i)
                           else [(i, jump_src_fn false (s_jump_count src + 1))]) k x2 =
          (if i =? tg then x2
           else let y := if k =? i then jump_src_fn (jump_backward s i tg) (s_jump_count src + 1) x2 else x2 in
                if jump_backward s i tg && mem_nat k (children s i) then reset_for_retry y else y)) as H3.
  { destruct (i =? tg); [reflexivity|]. cbn zeta. destruct (jump_backward s i tg).
    - rewrite apply_muts_cons, Hk. rewrite (Nat.eqb_sym i k). reflexivity.
    - rewrite apply_muts_cons. rewrite (Nat.eqb_sym i k). reflexivity. }
  match goal with |- apply_muts ?a k ?inner = _ => replace inner with
          (if i =? tg then x2
           else let y := if k =? i then jump_src_fn (jump_backward s i tg) (s_jump_count src + 1) x2 else x2 in
                if jump_backward s i tg && mem_nat k (children s i) then reset_for_retry y else y) by (symmetry; exact H3) end.
  cbn zeta. rewrite apply_muts_cons, Hk. rewrite (Nat.eqb_sym tg k). reflexivity.
Qed.

(* ---- C15_rearm_exact: the accepted jump is ONE commit and does exactly jump_effect to every stage ---- *)
Theorem jump_exact s id i tg jctx src tgt :
  get_stage s i = Some src -> w_canceled s = false -> get_stage s tg = Some tgt ->
  jump_exhausted (s_jump_count src) (effective_max_jumps s src) = false ->
  exists c, h_commits (handle_jump s id i tg jctx) = [c] /\ h_raised (handle_jump s id i tg jctx) = false /\
    In (OMark id) c /\ In (OPush (MStartStage tg 0)) c /\
    (forall m, In (OPush m) c -> m = MStartStage tg 0) /\
    wf_after (w_status s) c = w_status s /\
    forall k, nth_error (stages_after (w_stages s) c) k =
              option_map (jump_effect s src i tg jctx k) (nth_error (w_stages s) k).
Proof.
  intros Hs Hc Ht Hx. rewrite (handle_jump_accepted s id i tg jctx src tgt Hs Hc Ht Hx).
  eexists. split; [reflexivity|]. split; [reflexivity|].
  split; [apply in_or_app; right; left; reflexivity|].
  split; [apply in_or_app; right; right; left; reflexivity|].
  split.
  { intros m Hm. apply in_app_or in Hm. destruct Hm as [Hm|[Hm|[Hm|[]]]]; try discriminate; [|inversion Hm; reflexivity].
    unfold mut_ops in Hm. apply in_map_iff in Hm. destruct Hm as [x [Hx' _]]. discriminate. }
  split.
  { rewrite wf_after_app. assert (forall ms w, wf_after w (mut_ops ms) = w) as Hq.
    { intros ms. unfold wf_after, mut_ops. induction ms as [|m ms IH]; simpl; auto. }
    rewrite Hq. reflexivity. }
  intros k. rewrite stages_after_app.
  rewrite (stages_after_quiet [OMark id; OPush (MStartStage tg 0)]) by reflexivity.
  rewrite stages_after_muts. destruct (nth_error (w_stages s) k) as [st|]; [|reflexivity].
  simpl. rewrite jump_muts_effect. reflexivity.
Qed.

(* ---- what the four stage functions do to status / tasks / budget fields ---- *)
Definition all_tasks (x : status) (st : stage) : Prop := Forall (fun tk => t_status tk = x) (s_tasks st).

Lemma reset_facts st :
  s_status (reset_for_retry st) = NOT_STARTED /\ all_tasks NOT_STARTED (reset_for_retry st) /\
  s_started (reset_for_retry st) = false /\ s_ended (reset_for_retry st) = false /\ s_outs (reset_for_retry st) = [] /\
  s_ctx (reset_for_retry st) = s_ctx st /\ s_jump_count (reset_for_retry st) = s_jump_count st /\
  s_fired (reset_for_retry st) = false /\ s_branches (reset_for_retry st) = [].
Proof.
  repeat split. unfold all_tasks. simpl. apply Forall_map. apply Forall_forall. intros; reflexivity.
Qed.

Lemma skipped_fn_facts st : s_status (to_skipped st) = SKIPPED /\ all_tasks SKIPPED (to_skipped st) /\ s_ended (to_skipped st) = true.
Proof. repeat split. unfold all_tasks. simpl. apply Forall_map. apply Forall_forall. intros; reflexivity. Qed.

Lemma tgt_fn_facts nj jctx st :
  let st' := jump_tgt_fn nj jctx st in
  s_status st' = NOT_STARTED /\ all_tasks NOT_STARTED st' /\ s_bypass st' = true /\ s_jump_count st' = nj /\
  s_ctx st' = kv_update (s_ctx st) jctx /\ s_outs st' = [].
Proof. repeat split. unfold all_tasks. simpl. apply Forall_map. apply Forall_forall. intros; reflexivity. Qed.

Lemma src_fn_facts b nj st :
  let st' := jump_src_fn b nj st in
  s_jump_count st' = nj /\ s_status st' = (if b then NOT_STARTED else SUCCEEDED) /\
  (b = true -> all_tasks NOT_STARTED st') /\ s_ctx st' = s_ctx st.
Proof.
  destruct b; cbn zeta; (split; [reflexivity|]); (split; [reflexivity|]); (split; [|reflexivity]).
  - intros _. unfold all_tasks. simpl. apply Forall_map. apply Forall_forall. intros; reflexivity.
  - discriminate.
Qed.

Lemma terminal_fn_facts st : s_status (to_terminal st) = TERMINAL /\ s_ended (to_terminal st) = true /\ s_jump_count (to_terminal st) = s_jump_count st.
Proof. repeat split. Qed.

(* ---- C15_budget: the exhausted / target-missing request is ONE commit that fails the source ---- *)
Definition fail_source_commit (id i : nat) : commit := [OMut i to_terminal; OMark id; OPush (MCompleteStage i)].

Lemma jump_exhausted_commit s id i tg jctx src tgt :
  get_stage s i = Some src -> w_canceled s = false -> get_stage s tg = Some tgt ->
  jump_exhausted (s_jump_count src) (effective_max_jumps s src) = true ->
  handle_jump s id i tg jctx = ok [fail_source_commit id i].
Proof. intros Hs Hc Ht Hx. unfold handle_jump. rewrite Hs, Hc, Ht, Hx. reflexivity. Qed.

Lemma jump_no_target_commit s id i tg jctx src :
  get_stage s i = Some src -> w_canceled s = false -> get_stage s tg = None ->
  handle_jump s id i tg jctx = ok [fail_source_commit id i].
Proof. intros Hs Hc Ht. unfold handle_jump. rewrite Hs, Hc, Ht. reflexivity. Qed.

Lemma fail_source_effect l id i k :
  nth_error (stages_after l (fail_source_commit id i)) k =
  option_map (fun st => if i =? k then to_terminal st else st) (nth_error l k).
Proof.
  unfold fail_source_commit. change [OMut i to_terminal; OMark id; OPush (MCompleteStage i)] with ([OMut i to_terminal] ++ [OMark id; OPush (MCompleteStage i)]).
  rewrite stages_after_app, (stages_after_quiet [OMark id; OPush (MCompleteStage i)]) by reflexivity.
  unfold stages_after. simpl fold_left. apply nth_op_mut.
Qed.

(* F4: once the cancel flag is durable the handler only marks the message *)
Lemma jump_canceled_noop s id i tg jctx src :
  get_stage s i = Some src -> w_canceled s = true -> handle_jump s id i tg jctx = ok [[OMark id]].
Proof. intros Hs Hc. unfold handle_jump. rewrite Hs, Hc. reflexivity. Qed.

Lemma jump_unknown_source s id i tg jctx : get_stage s i = None -> handle_jump s id i tg jctx = ok [].
Proof. intros Hs. unfold handle_jump. rewrite Hs. reflexivity. Qed.

(* an accepted jump needs budget: count < max *)
Lemma not_exhausted_lt c m : jump_exhausted c m = false <-> (c < m)%Z.
Proof. unfold jump_exhausted. apply Z.leb_gt. Qed.

Lemma iter_reset_fields n st :
  s_jump_count (iter_reset n st) = s_jump_count st /\ s_max_jumps (iter_reset n st) = s_max_jumps st.
Proof. unfold iter_reset. induction n as [|n [IH1 IH2]]; simpl; [split; reflexivity|]. split; assumption. Qed.

Ltac split_ifs := repeat match goal with |- context [if ?c then _ else _] => destruct c end.

(* after an accepted jump the carried count is old + 1 on source AND target (the child resets keep the count) *)
Lemma jump_counts_after s src i tg jctx st :
  s_jump_count (jump_effect s src i tg jctx i st) = (s_jump_count src + 1)%Z /\
  s_jump_count (jump_effect s src i tg jctx tg st) = (s_jump_count src + 1)%Z.
Proof.
  unfold jump_effect. cbn zeta. rewrite !Nat.eqb_refl. split.
  - destruct (i =? tg).
    + split_ifs; reflexivity.
    + unfold jump_src_fn. split_ifs; reflexivity.
  - split_ifs; reflexivity.
Qed.

(* ---- the budget as a counter machine ---- *)
Lemma budget_run_bound m : forall n c,
  fst (budget_run m c n) <= Z.to_nat (m - c) /\ (c <= snd (budget_run m c n))%Z /\
  (snd (budget_run m c n) <= Z.max c m)%Z.
Proof.
  induction n as [|n IH]; intros c; simpl; [lia|].
  unfold budget_step. destruct (jump_exhausted c m) eqn:E.
  - specialize (IH c). destruct (budget_run m c n) as [a cf]. simpl in *. lia.
  - apply not_exhausted_lt in E. specialize (IH (c + 1)%Z). destruct (budget_run m (c + 1) n) as [a cf]. simpl in *. lia.
Qed.

Lemma budget_run_exhausted m c n : jump_exhausted c m = true -> budget_run m c n = (0, c).
Proof.
  intros E. induction n as [|n IH]; simpl; [reflexivity|]. unfold budget_step. rewrite E, IH. reflexivity.
Qed.

(* exactly max - count accepts when enough requests arrive, then every request is refused *)
Lemma budget_run_exact m : forall n c, (c <= m)%Z -> Z.to_nat (m - c) <= n -> budget_run m c n = (Z.to_nat (m - c), m).
Proof.
  induction n as [|n IH]; intros c Hc Hn.
  - simpl. assert (c = m) by lia. subst. replace (m - m)%Z with 0%Z by lia. reflexivity.
  - simpl. unfold budget_step. destruct (jump_exhausted c m) eqn:E.
    + assert (~ (c < m)%Z) by (intros H; apply not_exhausted_lt in H; congruence).
      assert (c = m) by lia. subst. rewrite budget_run_exhausted by exact E. replace (m - m)%Z with 0%Z by lia. reflexivity.
    + apply not_exhausted_lt in E. rewrite IH by lia. f_equal. lia.
Qed.


(* ------------------------------------------------------------------------------------------ *)
(* Part 5: the budget fields (_jump_count, _max_jumps) are written by JumpToStage only          *)
(* ------------------------------------------------------------------------------------------ *)
Definition keeps (st st' : stage) : Prop := s_jump_count st' = s_jump_count st /\ s_max_jumps st' = s_max_jumps st.

(* OAdd (a NEW synthetic row appended by a plan / completion commit) touches no existing row *)
Definition op_keeps (l : list stage) (o : op) : Prop :=
  match o with
  | OPut i st' => forall st, nth_error l i = Some st -> keeps st st'
  | OMut i f => forall st, keeps st (f st)
  | OAdd _ => True
  | _ => True
  end.

Definition budget_fields (l : list stage) : list (Z * option Z) := map (fun st => (s_jump_count st, s_max_jumps st)) l.

(* every row of l is still a row of l' (same index) with the same budget fields; l' may have MORE rows (OAdd) *)
Definition same_rows (l l' : list stage) : Prop :=
  forall i st, nth_error l i = Some st -> exists st', nth_error l' i = Some st' /\ keeps st st'.

Lemma same_rows_refl l : same_rows l l.
Proof. intros i st H. exists st. split; [exact H|split; reflexivity]. Qed.

(* the same thing said with lists: the budget fields of l are a prefix of those of l' *)
Lemma same_rows_prefix l : forall l', same_rows l l' <-> firstn (length l) (budget_fields l') = budget_fields l.
Proof.
  induction l as [|a l IH]; intros l'.
  - split; [reflexivity|]. intros _ [|i] st H; discriminate H.
  - split.
    + intros H. destruct (H 0 a eq_refl) as [a' [Ha [K1 K2]]]. destruct l' as [|b l']; [discriminate Ha|].
      simpl in Ha. inversion Ha; subst b. unfold budget_fields. simpl. rewrite K1, K2. f_equal.
      apply IH. intros i st Hi. apply (H (S i) st Hi).
    + intros H. destruct l' as [|b l']; [discriminate H|]. unfold budget_fields in H. simpl in H. inversion H.
      intros [|i] st Hi; simpl in Hi.
      * inversion Hi; subst st. exists b. split; [reflexivity|split; assumption].
      * simpl. apply (proj2 (IH l')); assumption.
Qed.

Lemma same_rows_app l l' : same_rows l l' <-> exists extra, budget_fields l' = budget_fields l ++ extra.
Proof.
  rewrite same_rows_prefix. split.
  - intros H. exists (skipn (length l) (budget_fields l')). rewrite <- H at 1. symmetry. apply firstn_skipn.
  - intros [extra E]. rewrite E. replace (length l) with (length (budget_fields l) + 0) by (unfold budget_fields; rewrite map_length; lia).
    rewrite firstn_app_2. simpl. apply app_nil_r.
Qed.

Lemma same_rows_length l l' : same_rows l l' -> length l <= length l'.
Proof.
  intros H. destruct l as [|a l]; [simpl; lia|].
  destruct (nth_error (a :: l) (length l)) as [st|] eqn:E.
  - destruct (H _ _ E) as [st' [E' _]]. assert (length l < length l') by (apply nth_error_Some; congruence). simpl. lia.
  - apply nth_error_None in E. simpl in E. lia.
Qed.

Lemma op_keeps_step l l' o : same_rows l l' -> op_keeps l o -> same_rows l (op_stages l' o).
Proof.
  intros E K k st Hk. destruct (E k st Hk) as [st' [Hk' Kk]].
  destruct o as [i p|i f|m|id|x| |c|i jc|id|id|a]; simpl in *; try (exists st'; split; assumption).
  - destruct (Nat.eq_dec i k) as [->|Hne].
    + exists p. split; [apply nth_list_set_same with st'; exact Hk'|apply K; exact Hk].
    + exists st'. split; [rewrite nth_list_set_other by exact Hne; exact Hk'|exact Kk].
  - destruct (nth_error l' i) as [y|] eqn:Hi; [|exists st'; split; assumption].
    destruct (Nat.eq_dec i k) as [->|Hne].
    + rewrite Hk' in Hi. inversion Hi; subst y. exists (f st'). split; [apply nth_list_set_same with st'; exact Hk'|].
      destruct (K st') as [K1 K2]. destruct Kk as [K3 K4]. split; congruence.
    + exists st'. split; [rewrite nth_list_set_other by exact Hne; exact Hk'|exact Kk].
  - exists st'. split; [|exact Kk]. rewrite nth_error_app1; [exact Hk'|]. apply nth_error_Some. congruence.
Qed.

Lemma commit_keeps l c : forall l', same_rows l l' -> Forall (op_keeps l) c -> same_rows l (stages_after l' c).
Proof.
  unfold stages_after. induction c as [|o c IH]; simpl; intros l' E H; [exact E|]. inversion H; subst.
  apply IH; [|assumption]. apply op_keeps_step; assumption.
Qed.

Lemma commits_keep l cs : forall s, same_rows l (w_stages s) -> Forall (fun c => Forall (op_keeps l) c) cs ->
  same_rows l (w_stages (apply_commits cs s)).
Proof.
  induction cs as [|c cs IH]; simpl; intros s E H; [exact E|]. inversion H; subst.
  apply IH; [|assumption]. rewrite stages_apply_commit. apply commit_keeps; assumption.
Qed.

(* tactic: a commit list built from c_put / c_mark / c_push / c_pushes / OPut with a known row / map OAdd *)
Lemma keeps_pushes l ms : Forall (op_keeps l) (c_pushes ms).
Proof. unfold c_pushes. apply Forall_map. apply Forall_forall. intros; exact I. Qed.

Lemma keeps_adds l adds : Forall (op_keeps l) (map OAdd adds).
Proof. apply Forall_map. apply Forall_forall. intros; exact I. Qed.

Lemma keeps_map_push {A} l (f : A -> msg) xs : Forall (fun c => Forall (op_keeps l) c) (map (fun j => c_push (f j)) xs).
Proof. apply Forall_map. apply Forall_forall. intros x _. constructor; [exact I|constructor]. Qed.

Ltac keeps_put Hs :=
  let st0 := fresh "st0" in let H0 := fresh "H0" in
  intros st0 H0; unfold get_stage in Hs; rewrite Hs in H0; inversion H0; subst; split; reflexivity.

Ltac keeps_commit Hs :=
  cbn [txn concat app c_put c_mark c_push c_wf c_cancel c_mutate];
  repeat (first [ apply Forall_nil
                | apply keeps_pushes
                | apply keeps_adds
                | apply Forall_cons; [first [exact I | keeps_put Hs | idtac]|]
                | apply Forall_app; split ]).

Ltac keeps_list Hs :=
  cbn [h_commits ok raised];
  repeat (first [ apply Forall_nil | apply Forall_cons; [keeps_commit Hs|] ]).

Lemma keeps_start_workflow s id : Forall (fun c => Forall (op_keeps (w_stages s)) c) (h_commits (handle_start_workflow s id)).
Proof.
  unfold handle_start_workflow. destruct (negb _); [constructor|]. destruct (w_canceled s); [constructor|].
  destruct (initial_stages s); keeps_list tt.
Qed.

Lemma keeps_start_task s id i t : Forall (fun c => Forall (op_keeps (w_stages s)) c) (h_commits (handle_start_task s id i t)).
Proof.
  unfold handle_start_task. destruct (get_stage s i) as [st|] eqn:Hs; [|constructor].
  destruct (nth_error (s_tasks st) t) as [tk|]; [|constructor].
  destruct (status_eqb (s_status st) NOT_STARTED); [keeps_list Hs|].
  destruct (before_incomplete s i); [keeps_list Hs|].
  destruct (negb _); [keeps_list Hs|]. destruct (t_disabled tk); keeps_list Hs.
Qed.

Notation KEEPS s h := (Forall (fun c => Forall (op_keeps (w_stages s)) c) (h_commits h)).

Lemma keeps_complete_workflow s id k : KEEPS s (handle_complete_workflow s id k).
Proof.
  unfold handle_complete_workflow. destruct (is_complete (w_status s)); [constructor|].
  destruct (determine_final_status _ _ _ _); [|keeps_list tt].
  destruct (negb _); [constructor|keeps_list tt].
Qed.

Lemma keeps_cancel_workflow s id : KEEPS s (handle_cancel_workflow s id).
Proof. unfold handle_cancel_workflow. destruct (is_complete (w_status s)); keeps_list tt. Qed.

Lemma keeps_skip_stage s id i : KEEPS s (handle_skip_stage s id i).
Proof.
  unfold handle_skip_stage. destruct (get_stage s i) as [st|] eqn:Hs; [|constructor].
  destruct (negb _); [constructor|keeps_list Hs].
Qed.

Lemma keeps_cancel_stage s id i : KEEPS s (handle_cancel_stage s id i).
Proof.
  unfold handle_cancel_stage. destruct (get_stage s i) as [st|] eqn:Hs; [|constructor].
  destruct (negb _); [constructor|]. destruct (negb _); [constructor|keeps_list Hs].
Qed.

Lemma keeps_complete_task s id i t x : KEEPS s (handle_complete_task s id i t x).
Proof.
  unfold handle_complete_task. destruct (get_stage s i) as [st|] eqn:Hs; [|constructor].
  destruct (nth_error (s_tasks st) t) as [tk|]; [|constructor].
  destruct (negb _); [keeps_list Hs|]. destruct (negb _); [constructor|].
  destruct (status_eqb x REDIRECT); [keeps_list Hs|]. destruct (S t <? length (s_tasks st)); keeps_list Hs.
Qed.

Lemma keeps_signal_stage s id i n p : KEEPS s (handle_signal_stage s id i n p).
Proof.
  unfold handle_signal_stage. destruct (get_stage s i) as [st|] eqn:Hs; [|constructor].
  destruct (status_eqb (s_status st) SUSPENDED).
  - destruct (find _ _) as [[ti tk]|]; keeps_list Hs.
  - destruct p; keeps_list Hs.
Qed.

Lemma keeps_run_task orc s id i t a : KEEPS s (handle_run_task orc s id i t a).
Proof.
  unfold handle_run_task. destruct (get_stage s i) as [st|] eqn:Hs; [|constructor].
  destruct (nth_error (s_tasks st) t) as [tk|]; [|constructor].
  destruct (negb _); [keeps_list Hs|]. destruct (w_canceled s); [keeps_list Hs|].
  destruct (is_complete (w_status s)); [keeps_list Hs|].
  destruct (status_eqb (w_status s) PAUSED); [keeps_list Hs|].
  cbn [h_commits]. destruct (orc i t (count_execs s i t)) as [o| | | |c|c| |tg| | | |]; cbn zeta iota;
    unfold process_result, handle_exception, mark_terminal; try (keeps_list Hs; fail).
  - destruct (retry_guard a default_max_attempts); [|keeps_list Hs]. destruct c; keeps_list Hs.
  - destruct (s_buffered st); keeps_list Hs.
Qed.

Lemma keeps_join_tracking s i ds : Forall (fun c => Forall (op_keeps (w_stages s)) c) (join_tracking s i ds).
Proof.
  unfold join_tracking. induction ds as [|d ds IH]; simpl; [constructor|]. apply Forall_app. split; [|exact IH].
  destruct (get_stage s d) as [dst|]; [|constructor].
  assert (forall f : stage -> stage, (forall st, keeps st (f st)) ->
            Forall (fun c => Forall (op_keeps (w_stages s)) c) (if mem_nat i (s_branches dst) then [] else [c_mutate d f])) as H.
  { intros f Hf. destruct (mem_nat i (s_branches dst)); [constructor|]. constructor; [|constructor].
    unfold c_mutate. constructor; [exact Hf|constructor]. }
  destruct (s_join dst); try apply Forall_nil; apply H; intros st; split; reflexivity.
Qed.

Lemma keeps_complete_stage s id i : KEEPS s (handle_complete_stage s id i).
Proof.
  unfold handle_complete_stage. destruct (get_stage s i) as [st|] eqn:Hs; [|constructor].
  destruct (status_eqb (s_status st) NOT_STARTED); [keeps_list Hs|].
  destruct (negb _). { destruct (is_halt (s_status st)); [keeps_list Hs|constructor]. }
  cbn zeta.
  match goal with |- context [if ?c then ok [txn [c_put i (st_touch st); _; _; _]] else _] => destruct c end; [keeps_list Hs|].
  match goal with |- context [if ?c then ok [c_mark id] else _] => destruct c end; [keeps_list Hs|].
  match goal with |- context [if ?c then ok [txn [c_put i (st_touch (with_onfail st true)); _; _; _]] else _] => destruct c end;
    [keeps_list Hs|].
  match goal with |- context [status_eqb ?x RUNNING] => destruct (status_eqb x RUNNING) end; [keeps_list Hs|].
  match goal with |- context [if ?c then with_onfail st true else st] => destruct c end;
    (destruct (negb _); [constructor|]);
    (destruct (_ || _ || _); [|keeps_list Hs]);
    cbn [h_commits ok]; (apply Forall_app; split; [apply keeps_join_tracking|]); keeps_list Hs.
Qed.

Lemma keeps_continue_parent s id i o k : KEEPS s (handle_continue_parent s id i o k).
Proof.
  unfold handle_continue_parent. destruct (get_stage s i) as [st|] eqn:Hs; [|constructor].
  cbn zeta. destruct (existsb _ _). { destruct (negb _); [constructor|keeps_list Hs]. }
  destruct (negb _).
  { destruct (_ <=? _)%Z; [destruct (negb _); [constructor|keeps_list Hs]|keeps_list tt]. }
  destruct o; [|keeps_list tt].
  destruct (s_tasks st); [|keeps_list tt].
  destruct (filter (initial_at s) _); [keeps_list tt|].
  destruct (filter _ (_ :: _)); keeps_list tt.
Qed.

Lemma keeps_start_if_ready s id i k st0 bypass :
  get_stage s i = Some st0 -> KEEPS s (start_if_ready s id i k st0 bypass).
Proof.
  intros Hs. unfold start_if_ready.
  set (st := if bypass then st_ctl st0 false (s_jump_count st0) (s_buffered st0) (s_signal st0) else st0).
  assert (keeps st0 st) as [K1 K2] by (unfold st; destruct bypass; split; reflexivity).
  set (zombie := status_eqb (s_status st) RUNNING && (s_plan_pending st || (is_nil (s_tasks st) && is_nil (children s i)))).
  destruct (negb (start_stage_fresh (s_status st)) && negb zombie); [constructor|].
  destruct (should_skip st); [keeps_list tt|].
  destruct (milestone_expired s st); [keeps_list tt|].
  destruct (mutex_blocked s i st); [keeps_list tt|].
  destruct (status_eqb (s_status st) NOT_STARTED && choice_claimed s i st); [keeps_list tt|].
  destruct (y_expired (s_syn st)); [keeps_list tt|].
  set (m := match s_mutex st with Some k0 => acquire_claim s true k0 i true | None => (true, w_claims s) end).
  destruct (fst m); cbn [negb]; [|keeps_list tt].
  set (c := match s_choice st with Some g => acquire_claim (with_claims (snd m) s) false g i false | None => (true, snd m) end).
  destruct (fst c); cbn [negb]; [|keeps_list tt].
  cbn [h_commits ok]. apply Forall_app. split; [|apply Forall_app; split].
  - constructor; [|constructor]. apply Forall_app. split.
    + constructor; [exact I|]. constructor; [|constructor].
      intros x Hx. unfold get_stage in Hs. rewrite Hs in Hx. inversion Hx; subst x.
      destruct zombie; split; simpl; congruence.
    + destruct zombie; [constructor|constructor; [exact I|constructor]].
  - destruct (s_choice st); [apply keeps_map_push|constructor].
  - constructor; [|constructor]. cbn [txn concat app c_put c_mark].
    constructor; [|apply Forall_app; split; [apply keeps_adds|constructor; [exact I|apply Forall_app; split; [apply keeps_pushes|constructor]]]].
    intros x Hx. unfold get_stage in Hs. rewrite Hs in Hx. inversion Hx; subst x.
    destruct zombie; split; simpl; congruence.
Qed.

Lemma keeps_start_stage s id i k : KEEPS s (handle_start_stage s id i k).
Proof.
  unfold handle_start_stage. destruct (get_stage s i) as [st|] eqn:Hs; [|constructor].
  destruct (parent_not_started s st); [keeps_list tt|].
  set (r := evaluate_readiness _ _ _).
  assert (KEEPS s (if start_stage_late (s_status st) then ok []
                   else if start_stage_waits r (upstream s st) then ok []
                   else if wait_exhausted k max_stage_wait_retries
                        then if can_transition (s_status st) TERMINAL
                             then ok [txn [c_put i (st_set st TERMINAL (s_started st) true (s_fired st) (s_branches st) true (s_ctx st) (s_outs st) (s_tasks st)); c_push (MCompleteStage i)]]
                             else ok [txn [c_put i (st_exc st); c_push (MCompleteStage i)]]
                        else ok [c_push (MStartStage i (k + 1))])) as Hw.
  { destruct (start_stage_late (s_status st)); [constructor|].
    destruct (start_stage_waits r (upstream s st)); [constructor|].
    destruct (wait_exhausted k max_stage_wait_retries); [|keeps_list tt].
    destruct (can_transition (s_status st) TERMINAL); keeps_list Hs. }
  destruct (rr_phase r).
  - apply keeps_start_if_ready. exact Hs.
  - exact Hw.
  - keeps_list tt.
  - exact Hw.
Qed.

Lemma keeps_pause_task s id i t : KEEPS s (handle_pause_task s id i t).
Proof.
  unfold handle_pause_task. destruct (get_stage s i) as [st|] eqn:Hs; [|constructor].
  destruct (nth_error (s_tasks st) t) as [tk|]; [|constructor].
  destruct (is_complete (t_status tk)); [keeps_list Hs|]. destruct (_ || _); [constructor|keeps_list Hs].
Qed.

Lemma keeps_resume_stage s id i : KEEPS s (handle_resume_stage s id i).
Proof.
  unfold handle_resume_stage. destruct (get_stage s i) as [st|] eqn:Hs; [|constructor].
  destruct (negb _); [keeps_list Hs|]. cbn zeta.
  destruct (find _ _) as [[ti tk]|]; destruct (status_eqb (w_status s) PAUSED); keeps_list Hs.
Qed.

Lemma keeps_restart_stage s id i : KEEPS s (handle_restart_stage s id i).
Proof.
  unfold handle_restart_stage. destruct (get_stage s i) as [st|] eqn:Hs; [|constructor].
  destruct (w_canceled s); [keeps_list Hs|]. destruct (negb _); [keeps_list Hs|].
  destruct (is_complete (w_status s)); keeps_list Hs.
Qed.

Definition jump_msg (m : msg) : bool := match m with MJumpToStage _ _ _ _ => true | _ => false end.

Lemma keeps_handle orc s r : jump_msg (q_msg r) = false -> KEEPS s (handle orc s r).
Proof.
  intros Hj. unfold handle. destruct (q_msg r); try discriminate;
    first [ apply keeps_start_workflow | apply keeps_complete_workflow | apply keeps_cancel_workflow
          | apply keeps_start_stage | apply keeps_complete_stage | apply keeps_skip_stage | apply keeps_cancel_stage
          | apply keeps_start_task | apply keeps_run_task | apply keeps_complete_task | apply keeps_signal_stage
          | apply keeps_pause_task | apply keeps_resume_stage | apply keeps_restart_stage | apply keeps_continue_parent ].
Qed.

(* ------------------------------------------------------------------------------------------ *)
(* Part 6: the budget along runs                                                               *)
(* ------------------------------------------------------------------------------------------ *)
Definition cnt (s : state) (i : nat) : Z := match get_stage s i with Some st => s_jump_count st | None => 0%Z end.
Definition emax (s : state) (i : nat) : Z := match get_stage s i with Some st => effective_max_jumps s st | None => 0%Z end.

Lemma maxj_op s o : w_max_jumps (apply_op s o) = w_max_jumps s.
Proof. destruct o; simpl; try reflexivity. unfold mutate_stage. destruct (get_stage s i); reflexivity. Qed.
Lemma maxj_commit c : forall s, w_max_jumps (apply_commit s c) = w_max_jumps s.
Proof. unfold apply_commit. induction c as [|o c IH]; simpl; intros s; [reflexivity|]. rewrite IH. apply maxj_op. Qed.
Lemma maxj_commits cs : forall s, w_max_jumps (apply_commits cs s) = w_max_jumps s.
Proof. induction cs as [|c cs IH]; simpl; intros s; [reflexivity|]. rewrite IH. apply maxj_commit. Qed.
Lemma maxj_pre p s : w_max_jumps (apply_pre p s) = w_max_jumps s.
Proof. destruct p as [[? ?]|]; reflexivity. Qed.

Lemma stages_apply_commits cs : forall s, w_stages (apply_commits cs s) = fold_left stages_after cs (w_stages s).
Proof. induction cs as [|c cs IH]; simpl; intros s; [reflexivity|]. rewrite IH, stages_apply_commit. reflexivity. Qed.

(* the rows of s are rows of s' with the same budget fields => same count and same effective maximum, for every stage of s *)
Lemma same_budget s s' :
  same_rows (w_stages s) (w_stages s') -> w_max_jumps s' = w_max_jumps s ->
  forall i, i < length (w_stages s) -> cnt s' i = cnt s i /\ emax s' i = emax s i.
Proof.
  intros E Em i Hi. unfold cnt, emax, get_stage, effective_max_jumps. rewrite Em.
  destruct (nth_error (w_stages s) i) as [st|] eqn:H; [|apply nth_error_None in H; lia].
  destruct (E i st H) as [st' [H' [K1 K2]]]. rewrite H'. rewrite K1, K2. split; reflexivity.
Qed.

(* same rows (no row added, none changed) => same count and maximum, for every index *)
Lemma same_stages_budget s s' :
  w_stages s' = w_stages s -> w_max_jumps s' = w_max_jumps s -> forall i, cnt s' i = cnt s i /\ emax s' i = emax s i.
Proof. intros E Em i. unfold cnt, emax, get_stage, effective_max_jumps. rewrite E, Em. split; reflexivity. Qed.

(* no op removes a row *)
Lemma op_stages_length l o : length l <= length (op_stages l o).
Proof.
  destruct o; simpl; try lia.
  - rewrite list_set_length. lia.
  - destruct (nth_error l i); [rewrite list_set_length|]; lia.
  - rewrite app_length. simpl. lia.
Qed.

Lemma stages_after_length c : forall l, length l <= length (stages_after l c).
Proof.
  unfold stages_after. induction c as [|o c IH]; simpl; intros l; [lia|].
  specialize (IH (op_stages l o)). pose proof (op_stages_length l o). lia.
Qed.

Lemma commits_length cs : forall s, length (w_stages s) <= length (w_stages (apply_commits cs s)).
Proof.
  induction cs as [|c cs IH]; simpl; intros s; [lia|]. specialize (IH (apply_commit s c)).
  rewrite stages_apply_commit in IH. pose proof (stages_after_length c (w_stages s)). lia.
Qed.

Definition quiet_keeps l (c : commit) : forallb quiet c = true -> Forall (op_keeps l) c.
Proof.
  induction c as [|o c IH]; simpl; intros H; [constructor|]. apply andb_true_iff in H. destruct H as [Ho Hc].
  constructor; [destruct o; simpl in *; try exact I; discriminate|apply IH; exact Hc].
Qed.

Lemma jump_effect_keeps_max s src i tg jctx k st : s_max_jumps (jump_effect s src i tg jctx k st) = s_max_jumps st.
Proof.
  unfold jump_effect, jump_src_fn. cbn zeta.
  destruct (iter_reset_fields (count_nat k (jump_reset_list s i tg)) st) as [_ H]. revert H.
  generalize (iter_reset (count_nat k (jump_reset_list s i tg)) st). intros x H.
  split_ifs; simpl; exact H.
Qed.

Lemma jump_effect_other_count s src i tg jctx k st : k <> tg -> k <> i -> s_jump_count (jump_effect s src i tg jctx k st) = s_jump_count st.
Proof.
  intros H1 H2. unfold jump_effect. cbn zeta.
  destruct (k =? tg) eqn:E1; [apply Nat.eqb_eq in E1; congruence|].
  destruct (k =? i) eqn:E2; [apply Nat.eqb_eq in E2; congruence|].
  destruct (iter_reset_fields (count_nat k (jump_reset_list s i tg)) st) as [H _]. revert H.
  generalize (iter_reset (count_nat k (jump_reset_list s i tg)) st). intros x H.
  split_ifs; simpl; exact H.
Qed.

(* what the commits of a JumpToStage handler (source j, target tg) do to the budget of stage i, when the message is not a
   jump INTO i from another stage: nothing, or (j = i, accepted) count + 1 with count < max before *)
Definition budget_move (s s' : state) (i : nat) : Prop :=
  w_max_jumps s' = w_max_jumps s /\ emax s' i = emax s i /\
  (cnt s' i = cnt s i \/ (cnt s' i = cnt s i + 1 /\ cnt s i < emax s i))%Z.

Lemma budget_move_refl s i : budget_move s s i.
Proof. split; [reflexivity|]. split; [reflexivity|left; reflexivity]. Qed.

Lemma budget_move_same s s' i :
  same_rows (w_stages s) (w_stages s') -> w_max_jumps s' = w_max_jumps s -> i < length (w_stages s) -> budget_move s s' i.
Proof. intros E Em Hi. destruct (same_budget s s' E Em i Hi) as [H1 H2]. split; [exact Em|]. split; [exact H2|left; exact H1]. Qed.

Lemma budget_move_eq s s' i : w_stages s' = w_stages s -> w_max_jumps s' = w_max_jumps s -> budget_move s s' i.
Proof. intros E Em. destruct (same_stages_budget s s' E Em i) as [H1 H2]. split; [exact Em|]. split; [exact H2|left; exact H1]. Qed.

Lemma emax_of s i st : get_stage s i = Some st -> emax s i = effective_max_jumps s st.
Proof. unfold emax. intros ->. reflexivity. Qed.

Lemma Forall_firstn' {A} (P : A -> Prop) l k : Forall P l -> Forall P (firstn k l).
Proof. revert k. induction l as [|a l IH]; intros [|k] H; simpl; try constructor; inversion H; subst; auto. Qed.

Lemma jump_commits_budget s0 s id j tg jctx i k :
  w_stages s0 = w_stages s -> w_max_jumps s0 = w_max_jumps s ->
  ~ (tg = i /\ j <> i) -> i < length (w_stages s) ->
  budget_move s (apply_commits (firstn k (h_commits (handle_jump s id j tg jctx))) s0) i.
Proof.
  intros Est Em Hnf Hlen.
  assert (forall c, Forall (op_keeps (w_stages s)) c -> budget_move s (apply_commits (firstn k [c]) s0) i) as Hkeep.
  { intros c Hc. apply budget_move_same; [|rewrite maxj_commits; exact Em|exact Hlen].
    apply commits_keep; [rewrite Est; apply same_rows_refl|]. apply Forall_firstn'. constructor; [exact Hc|constructor]. }
  destruct (get_stage s j) as [src|] eqn:Hs.
  2:{ rewrite jump_unknown_source by exact Hs. cbn [h_commits ok]. rewrite firstn_nil. cbn [apply_commits].
      apply budget_move_eq; [exact Est|exact Em]. }
  destruct (w_canceled s) eqn:Hc.
  { rewrite (jump_canceled_noop s id j tg jctx src Hs Hc). cbn [h_commits ok]. apply Hkeep. constructor; [exact I|constructor]. }
  assert (Forall (op_keeps (w_stages s)) (fail_source_commit id j)) as Hfail.
  { unfold fail_source_commit. constructor; [intros st; split; reflexivity|]. constructor; [exact I|]. constructor; [exact I|constructor]. }
  destruct (get_stage s tg) as [tgt|] eqn:Ht.
  2:{ rewrite (jump_no_target_commit s id j tg jctx src Hs Hc Ht). cbn [h_commits ok]. apply Hkeep, Hfail. }
  destruct (jump_exhausted (s_jump_count src) (effective_max_jumps s src)) eqn:Hx.
  { rewrite (jump_exhausted_commit s id j tg jctx src tgt Hs Hc Ht Hx). cbn [h_commits ok]. apply Hkeep, Hfail. }
  destruct (jump_exact s id j tg jctx src tgt Hs Hc Ht Hx) as [c [E [_ [_ [_ [_ [_ Heff]]]]]]].
  rewrite E. destruct k as [|k].
  { cbn [firstn apply_commits]. apply budget_move_eq; [exact Est|exact Em]. }
  cbn [firstn]. rewrite firstn_nil. cbn [apply_commits].
  split; [rewrite maxj_commit; exact Em|].
  assert (forall x, get_stage (apply_commit s0 c) x = option_map (jump_effect s src j tg jctx x) (get_stage s x)) as Hg.
  { intros x. unfold get_stage. rewrite stages_apply_commit, Est. apply Heff. }
  unfold emax, cnt, effective_max_jumps. rewrite !Hg, maxj_commit, Em.
  destruct (get_stage s i) as [st|] eqn:Hi; cbn [option_map]; [|split; [reflexivity|left; reflexivity]].
  rewrite jump_effect_keeps_max. split; [reflexivity|].
  destruct (Nat.eq_dec i j) as [->|Hij].
  - right. rewrite Hs in Hi. inversion Hi; subst st.
    destruct (jump_counts_after s src j tg jctx src) as [H1 _]. rewrite H1. split; [reflexivity|].
    apply not_exhausted_lt in Hx. unfold effective_max_jumps in Hx. exact Hx.
  - left. apply jump_effect_other_count; [|exact Hij]. intros ->. apply Hnf. split; [reflexivity|auto].
Qed.

Definition foreign_jump_into (s : state) (i : nat) (a : action) : Prop :=
  match a with
  | Deliver id _ | DeliverCut id _ =>
      exists r j c o, find_row s id = Some r /\ q_msg r = MJumpToStage j i c o /\ j <> i
  | _ => False
  end.

Lemma budget_move_then_same s s2 s3 i :
  budget_move s s2 i -> w_stages s3 = w_stages s2 -> w_max_jumps s3 = w_max_jumps s2 ->
  budget_move s s3 i.
Proof.
  intros [M1 [M2 M3]] E Em. destruct (same_stages_budget s2 s3 E Em i) as [H1 H2].
  split; [congruence|]. split; [congruence|]. rewrite H1. exact M3.
Qed.

Lemma quiet_commits_same cs : Forall (fun c => forallb quiet c = true) cs -> forall s,
  w_stages (apply_commits cs s) = w_stages s.
Proof. intros H s. rewrite stages_apply_commits. apply fold_stages_quiet. exact H. Qed.

Lemma apply_commits_app a b s : apply_commits (a ++ b) s = apply_commits b (apply_commits a s).
Proof. revert s. induction a as [|c a IH]; simpl; intros s; [reflexivity|apply IH]. Qed.

Lemma delivery_budget orc s id do_ack d i k :
  delivery_commits orc s id do_ack = Some d ->
  ~ (exists r j c o, find_row s id = Some r /\ q_msg r = MJumpToStage j i c o /\ j <> i) ->
  i < length (w_stages s) ->
  budget_move s (apply_commits (firstn k (d_rest d)) (apply_pre (d_pre d) (apply_commit s (d_poll d)))) i.
Proof.
  unfold delivery_commits. destruct (find_row s id) as [r0|] eqn:Hr; [|discriminate].
  destruct (queue_max_attempts <=? q_attempts r0)%Z; [discriminate|].
  set (s1 := bump_attempts id s).
  destruct (mem_nat id (w_processed s1)).
  - intros H Hnf Hlen. inversion H. cbn [d_rest d_pre d_poll].
    apply budget_move_eq; [|rewrite maxj_commits; reflexivity].
    rewrite quiet_commits_same; [reflexivity|]. apply Forall_firstn'. destruct do_ack; repeat constructor.
  - intros H Hnf Hlen. inversion H. cbn [d_rest d_pre d_poll]. clear H.
    set (r := {| q_id := id; q_msg := q_msg r0; q_attempts := q_attempts r0 + 1 |}).
    set (tail := if h_raised (handle orc s1 r) then [] else [OMark id] :: (if do_ack then [[OAck id]] else [])).
    assert (Forall (fun c => forallb quiet c = true) tail) as Htail.
    { unfold tail. destruct (h_raised _); [constructor|]. destruct do_ack; repeat constructor. }
    rewrite firstn_app, apply_commits_app.
    destruct (jump_msg (q_msg r0)) eqn:Hj.
    + (* a JumpToStage message *)
      unfold handle. cbn [q_msg q_id r]. destruct (q_msg r0) as [| | | | | | | | | |j tg c o| | | | |] eqn:Hm; simpl in Hj; try discriminate Hj.
      rewrite pre_jump. cbn [apply_pre].
      apply budget_move_then_same with (apply_commits (firstn k (h_commits (handle_jump s1 id j tg c))) s1).
      * change (budget_move s1 (apply_commits (firstn k (h_commits (handle_jump s1 id j tg c))) s1) i).
        apply jump_commits_budget; [reflexivity|reflexivity| |exact Hlen].
        intros [-> Hne]. apply Hnf. exists r0, j, c, o. auto.
      * apply quiet_commits_same. apply Forall_firstn'. exact Htail.
      * apply maxj_commits.
    + apply budget_move_same; [|rewrite !maxj_commits, maxj_pre; reflexivity|exact Hlen].
      rewrite quiet_commits_same by (apply Forall_firstn'; exact Htail).
      apply (commits_keep (w_stages s1)).
      * destruct (h_pre (handle orc s1 r)) as [[? ?]|]; apply same_rows_refl.
      * apply Forall_firstn'. apply (keeps_handle orc s1 r). exact Hj.
Qed.

Theorem step_budget orc s a i :
  i < length (w_stages s) -> ~ foreign_jump_into s i a -> budget_move s (step orc s a) i.
Proof.
  intros Hlen Hnf. destruct a; cbn [step];
    try (apply budget_move_eq; reflexivity);
    try (unfold recover; apply budget_move_eq; [|apply maxj_commit];
         rewrite stages_apply_commit, stages_after_quiet by apply quiet_pushes; reflexivity).
  - destruct (delivery_commits orc s id do_ack) as [d|] eqn:Hd; [|apply budget_move_refl].
    rewrite <- (firstn_all (d_rest d)). apply (delivery_budget orc s id do_ack d i _ Hd Hnf Hlen).
  - destruct k as [|k']; [apply budget_move_refl|].
    destruct (delivery_commits orc s id true) as [d|] eqn:Hd; [|apply budget_move_refl].
    apply (delivery_budget orc s id true d i _ Hd Hnf Hlen).
Qed.

(* no step removes a stage row *)
Lemma step_length orc s a : length (w_stages s) <= length (w_stages (step orc s a)).
Proof.
  assert (forall d, length (w_stages s) <= length (w_stages (apply_pre (d_pre d) (apply_commit s (d_poll d))))) as Hp.
  { intros d. replace (w_stages (apply_pre (d_pre d) (apply_commit s (d_poll d)))) with (w_stages (apply_commit s (d_poll d)))
      by (destruct (d_pre d) as [[? ?]|]; reflexivity).
    rewrite stages_apply_commit. apply stages_after_length. }
  destruct a; cbn [step]; try (simpl; lia);
    try (unfold recover; rewrite stages_apply_commit; apply stages_after_length).
  - destruct (delivery_commits orc s id do_ack) as [d|]; [|lia].
    eapply Nat.le_trans; [apply (Hp d)|apply commits_length].
  - destruct k as [|k']; [lia|]. destruct (delivery_commits orc s id true) as [d|]; [|lia].
    eapply Nat.le_trans; [apply (Hp d)|apply commits_length].
Qed.

(* along a run without foreign jumps into i: the number of steps that raise i's count, and the final count *)
Fixpoint no_foreign (orc : oracle) (s : state) (i : nat) (acts : list action) : Prop :=
  match acts with
  | [] => True
  | a :: r => ~ foreign_jump_into s i a /\ no_foreign orc (step orc s a) i r
  end.

Fixpoint raises (orc : oracle) (s : state) (i : nat) (acts : list action) : nat :=
  match acts with
  | [] => 0
  | a :: r => (if (cnt s i <? cnt (step orc s a) i)%Z then 1 else 0) + raises orc (step orc s a) i r
  end.

Theorem run_budget orc i acts : forall s,
  i < length (w_stages s) -> no_foreign orc s i acts ->
  raises orc s i acts <= Z.to_nat (emax s i - cnt s i) /\
  (cnt s i <= cnt (run orc s acts) i)%Z /\ (cnt (run orc s acts) i <= Z.max (cnt s i) (emax s i))%Z /\
  emax (run orc s acts) i = emax s i.
Proof.
  unfold run. induction acts as [|a acts IH]; intros s Hlen H; simpl.
  - repeat split; lia.
  - destruct H as [H1 H2]. destruct (step_budget orc s a i Hlen H1) as [_ [Me Mc]].
    assert (i < length (w_stages (step orc s a))) as Hlen' by (pose proof (step_length orc s a); lia).
    destruct (IH _ Hlen' H2) as [I1 [I2 [I3 I4]]]. rewrite Me in *.
    destruct Mc as [Mc|[Mc Hlt]]; rewrite Mc in *.
    + rewrite Z.ltb_irrefl. repeat split; try lia; try exact I4.
    + replace (cnt s i <? cnt s i + 1)%Z with true by (symmetry; apply Z.ltb_lt; lia). repeat split; try lia; try exact I4.
Qed.

(* the stages after a full delivery of an unprocessed JumpToStage row: the handler ran on the state the poll left *)
Lemma jump_delivery_stages orc s id do_ack r i tg c o :
  find_row s id = Some r -> q_msg r = MJumpToStage i tg c o -> (q_attempts r < queue_max_attempts)%Z ->
  mem_nat id (w_processed s) = false ->
  w_stages (step orc s (Deliver id do_ack)) =
  fold_left stages_after (h_commits (handle_jump (bump_attempts id s) id i tg c)) (w_stages s).
Proof.
  intros Hr Hm Ha Hun. cbn [step]. unfold delivery_commits. rewrite Hr.
  destruct (queue_max_attempts <=? q_attempts r)%Z eqn:E; [apply Z.leb_le in E; lia|].
  change (w_processed (bump_attempts id s)) with (w_processed s). rewrite Hun.
  cbn [d_rest d_pre d_poll]. unfold handle. cbn [q_msg q_id]. rewrite Hm. rewrite pre_jump. cbn [apply_pre].
  rewrite stages_apply_commits, fold_left_app.
  assert (forall l, fold_left stages_after (if h_raised (handle_jump (bump_attempts id s) id i tg c) then []
                     else [OMark id] :: (if do_ack then [[OAck id]] else [])) l = l) as Hq.
  { intros l. apply fold_stages_quiet. destruct (h_raised _); [constructor|]. destruct do_ack; repeat constructor. }
  rewrite Hq. reflexivity.
Qed.

Theorem accepted_jump_raises orc s id do_ack r i tg c o src tgt :
  find_row s id = Some r -> q_msg r = MJumpToStage i tg c o -> (q_attempts r < queue_max_attempts)%Z ->
  mem_nat id (w_processed s) = false ->
  get_stage s i = Some src -> w_canceled s = false -> get_stage s tg = Some tgt ->
  jump_exhausted (s_jump_count src) (effective_max_jumps s src) = false ->
  let s' := step orc s (Deliver id do_ack) in
  cnt s' i = (cnt s i + 1)%Z /\ cnt s' tg = (cnt s i + 1)%Z /\ (cnt s i < emax s i)%Z /\
  option_map s_status (get_stage s' tg) = Some NOT_STARTED /\ option_map s_bypass (get_stage s' tg) = Some true.
Proof.
  intros Hr Hm Ha Hun Hs Hc Ht Hx s'.
  set (s1 := bump_attempts id s).
  destruct (jump_exact s1 id i tg c src tgt Hs Hc Ht Hx) as [cm [E [_ [_ [_ [_ [_ Heff]]]]]]].
  assert (forall k, get_stage s' k = option_map (jump_effect s1 src i tg c k) (get_stage s k)) as Hg.
  { intros k. unfold get_stage, s'. rewrite (jump_delivery_stages orc s id do_ack r i tg c o Hr Hm Ha Hun).
    fold s1. rewrite E. simpl fold_left. apply Heff. }
  unfold cnt, emax. rewrite !Hg, Hs, Ht. cbn [option_map].
  destruct (jump_counts_after s1 src i tg c src) as [H1 _]. destruct (jump_counts_after s1 src i tg c tgt) as [_ H2].
  rewrite H1, H2. split; [reflexivity|]. split; [reflexivity|]. split; [apply not_exhausted_lt; exact Hx|].
  unfold jump_effect. cbn zeta. rewrite Nat.eqb_refl. split; split_ifs; reflexivity.
Qed.

(* the request after the budget is spent: ONE commit, the source stage TERMINAL, nothing else touched, count unchanged *)
Theorem exhausted_jump_fails_source orc s id do_ack r i tg c o src tgt :
  find_row s id = Some r -> q_msg r = MJumpToStage i tg c o -> (q_attempts r < queue_max_attempts)%Z ->
  mem_nat id (w_processed s) = false ->
  get_stage s i = Some src -> w_canceled s = false -> get_stage s tg = Some tgt ->
  jump_exhausted (s_jump_count src) (effective_max_jumps s src) = true ->
  let s' := step orc s (Deliver id do_ack) in
  h_commits (handle_jump (bump_attempts id s) id i tg c) = [fail_source_commit id i] /\
  (forall k, get_stage s' k = option_map (fun st => if i =? k then to_terminal st else st) (get_stage s k)) /\
  option_map s_status (get_stage s' i) = Some TERMINAL /\ cnt s' i = cnt s i.
Proof.
  intros Hr Hm Ha Hun Hs Hc Ht Hx s'.
  set (s1 := bump_attempts id s).
  pose proof (jump_exhausted_commit s1 id i tg c src tgt Hs Hc Ht Hx) as E.
  assert (forall k, get_stage s' k = option_map (fun st => if i =? k then to_terminal st else st) (get_stage s k)) as Hg.
  { intros k. unfold get_stage, s'. rewrite (jump_delivery_stages orc s id do_ack r i tg c o Hr Hm Ha Hun).
    fold s1. rewrite E. simpl fold_left. apply (fail_source_effect (w_stages s) id i k). }
  split; [rewrite E; reflexivity|]. split; [exact Hg|].
  unfold cnt. rewrite !Hg, Hs. cbn [option_map]. rewrite Nat.eqb_refl. split; reflexivity.
Qed.

(* ---- executable premise checker and FIFO schedules, for the non-vacuity witnesses ---- *)
Definition foreign_jump_intob (s : state) (i : nat) (a : action) : bool :=
  match a with
  | Deliver id _ | DeliverCut id _ =>
      match find_row s id with
      | Some r => match q_msg r with MJumpToStage j t _ _ => (t =? i) && negb (j =? i) | _ => false end
      | None => false
      end
  | _ => false
  end.

Fixpoint no_foreignb (orc : oracle) (s : state) (i : nat) (acts : list action) : bool :=
  match acts with
  | [] => true
  | a :: r => negb (foreign_jump_intob s i a) && no_foreignb orc (step orc s a) i r
  end.

Lemma foreign_jump_intob_sound s i a : foreign_jump_intob s i a = false -> ~ foreign_jump_into s i a.
Proof.
  destruct a; simpl; try (intros _ H0; exact H0);
    (intros Hb [r [j [c [o [Hr [Hm Hne]]]]]]; rewrite Hr, Hm in Hb; rewrite Nat.eqb_refl in Hb; simpl in Hb;
     apply negb_false_iff, Nat.eqb_eq in Hb; congruence).
Qed.

Lemma no_foreignb_sound orc i acts : forall s, no_foreignb orc s i acts = true -> no_foreign orc s i acts.
Proof.
  induction acts as [|a acts IH]; simpl; intros s H; [exact I|].
  apply andb_true_iff in H. destruct H as [H1 H2]. split; [|apply IH; exact H2].
  apply foreign_jump_intob_sound. apply negb_true_iff. exact H1.
Qed.

(* the FIFO schedule as an action list: always deliver the oldest row *)
Fixpoint fifo_acts (orc : oracle) (fuel : nat) (s : state) : list action :=
  match fuel with
  | O => []
  | S f => match w_queue s with
           | [] => []
           | r :: _ => Deliver (q_id r) true :: fifo_acts orc f (step orc s (Deliver (q_id r) true))
           end
  end.

Lemma jump_effect_top_classes s src i tg jctx k st :
  let st' := jump_effect_top s src i tg jctx k st in
  (k = tg -> s_status st' = NOT_STARTED /\ all_tasks NOT_STARTED st' /\ s_bypass st' = true /\
             s_ctx st' = kv_update (s_ctx st) jctx) /\
  (k = i -> k <> tg -> s_status st' = (if jump_backward s i tg then NOT_STARTED else SUCCEEDED) /\
                       (jump_backward s i tg = true -> all_tasks NOT_STARTED st')) /\
  (k <> tg -> k <> i -> In k (closed_downstream s tg) -> st' = reset_for_retry st /\ s_status st' = NOT_STARTED /\
                        all_tasks NOT_STARTED st') /\
  (k <> tg -> k <> i -> ~ In k (closed_downstream s tg) -> mem_nat k (jump_skipped s i tg) = true ->
     st' = to_skipped st /\ s_status st' = SKIPPED /\ all_tasks SKIPPED st') /\
  (k <> tg -> k <> i -> ~ In k (closed_downstream s tg) -> mem_nat k (jump_skipped s i tg) = false -> st' = st).
Proof.
  cbn zeta. unfold jump_effect_top. cbn zeta.
  destruct (k =? tg) eqn:Et; [apply Nat.eqb_eq in Et|apply Nat.eqb_neq in Et].
  { subst k. split.
    - intros _. destruct (tgt_fn_facts (s_jump_count src + 1) jctx st) as [A1 [A2 [A3 [_ [A5 _]]]]]. auto.
    - repeat split; intros; congruence. }
  split; [intros; congruence|].
  destruct (k =? i) eqn:Ei; [apply Nat.eqb_eq in Ei|apply Nat.eqb_neq in Ei].
  { subst k. split.
    - intros _ _. destruct (src_fn_facts (jump_backward s i tg) (s_jump_count src + 1) st) as [_ [A2 [A3 _]]]. auto.
    - repeat split; intros; congruence. }
  split; [intros; congruence|].
  destruct (mem_nat k (closed_downstream s tg)) eqn:Ec.
  { apply mem_nat_In in Ec. split.
    - intros _ _ _. destruct (reset_facts st) as [A1 [A2 _]]. auto.
    - split; intros; contradiction. }
  apply mem_nat_false in Ec. split; [intros; contradiction|].
  destruct (mem_nat k (jump_skipped s i tg)); split; intros; try discriminate; try reflexivity.
  destruct (skipped_fn_facts st) as [A1 [A2 _]]. auto.
Qed.

(* ---- counting how often the first segment resets a stage ---- *)
Lemma count_nat_app k a b : count_nat k (a ++ b) = count_nat k a + count_nat k b.
Proof. unfold count_nat. rewrite filter_app, app_length. reflexivity. Qed.

Lemma count_nat_notin k l : ~ In k l -> count_nat k l = 0.
Proof.
  unfold count_nat. induction l as [|a l IH]; simpl; intros H; [reflexivity|].
  destruct (k =? a) eqn:E; [apply Nat.eqb_eq in E; subst; exfalso; apply H; left; reflexivity|]. apply IH. intros H1. apply H. right. exact H1.
Qed.

Lemma count_nat_nodup k l : NoDup l -> count_nat k l = if mem_nat k l then 1 else 0.
Proof.
  unfold count_nat, mem_nat. induction 1 as [|a l Ha Hn IH]; simpl; [reflexivity|].
  destruct (k =? a) eqn:E; simpl.
  - apply Nat.eqb_eq in E. subst a. f_equal. apply (count_nat_notin k l Ha).
  - exact IH.
Qed.

Lemma count_nat_in k l : In k l -> exists n, count_nat k l = S n.
Proof.
  unfold count_nat. induction l as [|a l IH]; simpl; intros H; [contradiction|].
  destruct (k =? a) eqn:E; simpl; [eexists; reflexivity|]. destruct H as [H|H]; [subst; rewrite Nat.eqb_refl in E; discriminate|auto].
Qed.

Lemma children_spec s p k :
  In k (children s p) <-> exists c, get_stage s k = Some c /\ parent_is p c = true.
Proof.
  unfold children. rewrite filter_In. split.
  - intros [_ H]. destruct (get_stage s k) as [c|]; [exists c; auto|discriminate].
  - intros [c [Hc Hp]]. split; [|rewrite Hc; exact Hp]. apply in_seq. split; [lia|]. simpl.
    apply nth_error_Some. unfold get_stage in Hc. rewrite Hc. discriminate.
Qed.

Lemma one_parent s p q k : In k (children s p) -> In k (children s q) -> p = q.
Proof.
  rewrite !children_spec. intros [c [Hc Hp]] [c' [Hc' Hq]]. rewrite Hc in Hc'. inversion Hc'; subst c'.
  unfold parent_is in *. destruct (y_parent (s_syn c)); [|discriminate]. apply Nat.eqb_eq in Hp, Hq. congruence.
Qed.

Lemma count_reset_list_nokid s k js :
  (forall j, In j js -> ~ In k (children s j)) -> count_nat k (flat_map (reset_with_kids s) js) = count_nat k js.
Proof.
  induction js as [|j js IH]; intros H; [reflexivity|]. cbn [flat_map].
  change (j :: js) with ([j] ++ js). rewrite !count_nat_app, IH by (intros j' Hj'; apply H; right; exact Hj').
  unfold reset_with_kids. change (j :: children s j) with ([j] ++ children s j).
  rewrite count_nat_app, (count_nat_notin k (children s j)) by (apply H; left; reflexivity). lia.
Qed.

Lemma count_reset_list_kid s k p js :
  In k (children s p) -> count_nat k (flat_map (reset_with_kids s) js) = count_nat k js + count_nat p js.
Proof.
  intros Hk. induction js as [|j js IH]; [reflexivity|]. cbn [flat_map].
  change (j :: js) with ([j] ++ js). rewrite !count_nat_app, IH.
  unfold reset_with_kids. change (j :: children s j) with ([j] ++ children s j). rewrite count_nat_app.
  assert (count_nat k (children s j) = count_nat p [j]) as E.
  { unfold count_nat at 2. simpl. destruct (p =? j) eqn:Ep.
    - apply Nat.eqb_eq in Ep. subst j. rewrite (count_nat_nodup k _ (children_nodup s p)).
      replace (mem_nat k (children s p)) with true by (symmetry; apply mem_nat_In; exact Hk). reflexivity.
    - apply count_nat_notin. intros H. apply Nat.eqb_neq in Ep. apply Ep. apply (one_parent s p j k Hk H). }
  rewrite E. lia.
Qed.

Lemma mem_flat_map_false (f : nat -> list nat) k l : mem_nat k (flat_map f l) = false -> forall j, In j l -> ~ In k (f j).
Proof.
  intros H j Hj Hin. apply mem_nat_false in H. apply H. apply in_flat_map. exists j. auto.
Qed.

Lemma rearm_parents_spec s i tg p :
  In p (rearm_parents s i tg) <->
  In p (jump_resets s i tg) \/ (p = i /\ i <> tg /\ jump_backward s i tg = true) \/ p = tg.
Proof.
  unfold rearm_parents. rewrite !in_app_iff. simpl. split.
  - intros [H|[H|[H|[]]]]; [left; exact H| |right; right; congruence].
    destruct (i =? tg) eqn:E; simpl in H; [contradiction|]. destruct (jump_backward s i tg) eqn:B; simpl in H; [|contradiction].
    destruct H as [H|[]]. right. left. apply Nat.eqb_neq in E. auto.
  - intros [H|[[H1 [H2 H3]]|H]]; [left; exact H| |right; right; left; congruence].
    right. left. apply Nat.eqb_neq in H2. rewrite H2, H3. simpl. left. congruence.
Qed.

(* a stage that is not a synthetic child of a re-armed stage is treated exactly as before: jump_effect_top *)
Lemma jump_effect_no_kid s src i tg jctx k st :
  mem_nat k (rearm_kids s i tg) = false -> jump_effect s src i tg jctx k st = jump_effect_top s src i tg jctx k st.
Proof.
  intros Hnk. pose proof (mem_flat_map_false (children s) k _ Hnk) as Hno.
  assert (mem_nat k (children s tg) = false) as Htg.
  { apply mem_nat_false. apply Hno. apply rearm_parents_spec. right. right. reflexivity. }
  assert (i =? tg = false -> jump_backward s i tg = true -> mem_nat k (children s i) = false) as Hi.
  { intros E B. apply mem_nat_false. apply Hno. apply rearm_parents_spec. right. left. apply Nat.eqb_neq in E. auto. }
  assert (count_nat k (jump_reset_list s i tg) = if mem_nat k (jump_resets s i tg) then 1 else 0) as Hcnt.
  { unfold jump_reset_list. rewrite count_reset_list_nokid.
    - apply count_nat_nodup, resets_nodup.
    - intros j Hj. apply Hno. apply rearm_parents_spec. left. exact Hj. }
  unfold jump_effect, jump_effect_top. cbn zeta. rewrite Hcnt, Htg, mem_resets.
  assert (mem_nat k (jump_skipped s i tg) = true -> mem_nat k (closed_downstream s tg) = true -> False) as Hdisj.
  { intros H1 H2. apply skipped_facts in H1. destruct H1 as [_ [_ [_ [H1 _]]]]. apply H1.
    apply closed_in_deps. apply mem_nat_In. exact H2. }
  destruct (k =? tg) eqn:Et.
  - apply Nat.eqb_eq in Et. subst k. rewrite !andb_false_r. cbn [iter_reset Nat.iter nat_rect].
    assert (mem_nat tg (jump_skipped s i tg) = false) as Hs.
    { destruct (mem_nat tg (jump_skipped s i tg)) eqn:E; [|reflexivity]. apply skipped_facts in E. tauto. }
    rewrite Hs. destruct (i =? tg) eqn:Ei; [reflexivity|]. rewrite (Nat.eqb_sym tg i), Ei.
    destruct (jump_backward s i tg) eqn:B; [rewrite (Hi eq_refl eq_refl)|]; reflexivity.
  - destruct (k =? i) eqn:Ei.
    + apply Nat.eqb_eq in Ei. subst k. rewrite andb_false_r. cbn [iter_reset Nat.iter nat_rect].
      assert (mem_nat i (jump_skipped s i tg) = false) as Hs.
      { destruct (mem_nat i (jump_skipped s i tg)) eqn:E; [|reflexivity]. apply skipped_facts in E.
        destruct E as [_ [E _]]. exfalso. exact (seed_not_closed s i E). }
      rewrite Hs, Et. destruct (jump_backward s i tg) eqn:B; [rewrite (Hi Et eq_refl)|]; reflexivity.
    + cbn [negb andb]. rewrite andb_true_r.
      assert ((if i =? tg then (if mem_nat k (jump_skipped s i tg) then to_skipped (iter_reset (if mem_nat k (closed_downstream s tg) then 1 else 0) st) else iter_reset (if mem_nat k (closed_downstream s tg) then 1 else 0) st)
               else if jump_backward s i tg && mem_nat k (children s i)
                    then reset_for_retry (if mem_nat k (jump_skipped s i tg) then to_skipped (iter_reset (if mem_nat k (closed_downstream s tg) then 1 else 0) st) else iter_reset (if mem_nat k (closed_downstream s tg) then 1 else 0) st)
                    else (if mem_nat k (jump_skipped s i tg) then to_skipped (iter_reset (if mem_nat k (closed_downstream s tg) then 1 else 0) st) else iter_reset (if mem_nat k (closed_downstream s tg) then 1 else 0) st))
              = (if mem_nat k (jump_skipped s i tg) then to_skipped (iter_reset (if mem_nat k (closed_downstream s tg) then 1 else 0) st) else iter_reset (if mem_nat k (closed_downstream s tg) then 1 else 0) st)) as E3.
      { destruct (i =? tg) eqn:E; [reflexivity|]. destruct (jump_backward s i tg) eqn:B; [rewrite (Hi eq_refl eq_refl)|]; reflexivity. }
      rewrite E3.
      destruct (mem_nat k (closed_downstream s tg)) eqn:E1.
      * destruct (mem_nat k (jump_skipped s i tg)) eqn:E2; [exfalso; apply Hdisj; reflexivity|reflexivity].
      * reflexivity.
Qed.

Lemma jump_effect_classes s src i tg jctx k st :
  mem_nat k (rearm_kids s i tg) = false ->
  let st' := jump_effect s src i tg jctx k st in
  (k = tg -> s_status st' = NOT_STARTED /\ all_tasks NOT_STARTED st' /\ s_bypass st' = true /\
             s_ctx st' = kv_update (s_ctx st) jctx) /\
  (k = i -> k <> tg -> s_status st' = (if jump_backward s i tg then NOT_STARTED else SUCCEEDED) /\
                       (jump_backward s i tg = true -> all_tasks NOT_STARTED st')) /\
  (k <> tg -> k <> i -> In k (closed_downstream s tg) -> st' = reset_for_retry st /\ s_status st' = NOT_STARTED /\
                        all_tasks NOT_STARTED st') /\
  (k <> tg -> k <> i -> ~ In k (closed_downstream s tg) -> mem_nat k (jump_skipped s i tg) = true ->
     st' = to_skipped st /\ s_status st' = SKIPPED /\ all_tasks SKIPPED st') /\
  (k <> tg -> k <> i -> ~ In k (closed_downstream s tg) -> mem_nat k (jump_skipped s i tg) = false -> st' = st).
Proof. intros Hnk. cbn zeta. rewrite (jump_effect_no_kid _ _ _ _ _ _ _ Hnk). apply jump_effect_top_classes. Qed.

(* ---- the children of a re-armed stage are re-armed with it ---- *)
Definition rearmed (st : stage) : Prop := s_status st = NOT_STARTED /\ all_tasks NOT_STARTED st.

Lemma rearmed_reset st : rearmed (reset_for_retry st).
Proof. destruct (reset_facts st) as [H1 [H2 _]]. split; assumption. Qed.
Lemma rearmed_tgt nj jctx st : rearmed (jump_tgt_fn nj jctx st).
Proof. destruct (tgt_fn_facts nj jctx st) as [H1 [H2 _]]. split; assumption. Qed.
Lemma rearmed_src nj st : rearmed (jump_src_fn true nj st).
Proof. destruct (src_fn_facts true nj st) as [_ [H1 [H2 _]]]. split; [exact H1|apply H2; reflexivity]. Qed.

Theorem rearmed_children s src i tg jctx k p st :
  In k (children s p) -> In p (rearm_parents s i tg) ->
  (p = tg \/ (p = i /\ i <> tg) \/
   (mem_nat k (jump_skipped s i tg) = false /\ (k <> i \/ jump_backward s i tg = true))) ->
  rearmed (jump_effect s src i tg jctx k st).
Proof.
  intros Hk Hp Hside. unfold jump_effect. cbn zeta.
  set (x1 := iter_reset _ st).
  set (x2 := if mem_nat k (jump_skipped s i tg) then to_skipped x1 else x1).
  set (x3 := if i =? tg then x2 else _).
  set (x4 := if k =? tg then _ else x3).
  (* the tail of the pipeline keeps "rearmed" *)
  assert (rearmed x3 -> rearmed (if mem_nat k (children s tg) then reset_for_retry x4 else x4)) as Tail.
  { intros H. destruct (mem_nat k (children s tg)); [apply rearmed_reset|]. unfold x4. destruct (k =? tg); [apply rearmed_tgt|exact H]. }
  apply rearm_parents_spec in Hp. destruct Hp as [Hp|[[-> [Hne Hb]]| ->]].
  - (* parent among the re-armed downstream stages *)
    assert (rearmed x1) as R1.
    { unfold x1. destruct (count_nat_in k (jump_reset_list s i tg)) as [n En].
      - unfold jump_reset_list. apply in_flat_map. exists p. split; [exact Hp|right; exact Hk].
      - rewrite En. unfold iter_reset. simpl. apply rearmed_reset. }
    destruct Hside as [->|[[-> _]|[Hsk Hki]]].
    + destruct (mem_nat k (children s tg)) eqn:E; [apply rearmed_reset|]. apply mem_nat_false in E. contradiction.
    + exfalso. unfold jump_resets in Hp. apply filter_In in Hp. destruct Hp as [_ Hp]. rewrite Nat.eqb_refl in Hp. discriminate.
    + apply Tail. unfold x3. destruct (i =? tg); [unfold x2; rewrite Hsk; exact R1|]. cbn zeta.
      assert (rearmed (if k =? i then jump_src_fn (jump_backward s i tg) (s_jump_count src + 1) x2 else x2)) as Ry.
      { destruct (k =? i) eqn:E.
        - apply Nat.eqb_eq in E. destruct Hki as [Hki|Hki]; [congruence|]. rewrite Hki. apply rearmed_src.
        - unfold x2. rewrite Hsk. exact R1. }
      destruct (jump_backward s i tg && mem_nat k (children s i)); [apply rearmed_reset|exact Ry].
  - (* parent = source of a backward jump *)
    apply Tail. unfold x3. apply Nat.eqb_neq in Hne. rewrite Hne. cbn zeta. rewrite Hb.
    replace (mem_nat k (children s i)) with true by (symmetry; apply mem_nat_In; exact Hk). apply rearmed_reset.
  - (* parent = target *)
    replace (mem_nat k (children s tg)) with true by (symmetry; apply mem_nat_In; exact Hk). apply rearmed_reset.
Qed.

(* an ordinary child (not itself source, target, re-armed downstream stage or skipped stage) is reset exactly once *)
Theorem child_reset_once s src i tg jctx k p st :
  In k (children s p) -> In p (rearm_parents s i tg) ->
  k <> i -> k <> tg -> ~ In k (closed_downstream s tg) -> mem_nat k (jump_skipped s i tg) = false ->
  jump_effect s src i tg jctx k st = reset_for_retry st.
Proof.
  intros Hk Hp Hi Ht Hc Hsk.
  assert (mem_nat k (jump_resets s i tg) = false) as Hr.
  { rewrite mem_resets. replace (mem_nat k (closed_downstream s tg)) with false by (symmetry; apply mem_nat_false; exact Hc). reflexivity. }
  assert (count_nat k (jump_reset_list s i tg) = count_nat p (jump_resets s i tg)) as Hcnt.
  { unfold jump_reset_list. rewrite (count_reset_list_kid s k p _ Hk), (count_nat_nodup k _ (resets_nodup s i tg)), Hr. reflexivity. }
  unfold jump_effect. cbn zeta. rewrite Hcnt, Hsk.
  apply Nat.eqb_neq in Hi, Ht. rewrite Hi, Ht.
  rewrite (count_nat_nodup p _ (resets_nodup s i tg)).
  apply rearm_parents_spec in Hp. destruct Hp as [Hp|[[-> [Hne Hb]]| ->]].
  - replace (mem_nat p (jump_resets s i tg)) with true by (symmetry; apply mem_nat_In; exact Hp).
    assert (p <> i /\ p <> tg) as [Hpi Hpt].
    { unfold jump_resets in Hp. apply filter_In in Hp. destruct Hp as [_ Hp]. apply andb_true_iff in Hp. destruct Hp as [H1 H2].
      apply negb_true_iff, Nat.eqb_neq in H1, H2. auto. }
    assert (mem_nat k (children s i) = false) as E1 by (apply mem_nat_false; intros H; apply Hpi; apply (one_parent s p i k Hk H)).
    assert (mem_nat k (children s tg) = false) as E2 by (apply mem_nat_false; intros H; apply Hpt; apply (one_parent s p tg k Hk H)).
    rewrite E1, E2, andb_false_r. destruct (i =? tg); reflexivity.
  - assert (mem_nat i (jump_resets s i tg) = false) as E0.
    { rewrite mem_resets, Nat.eqb_refl. simpl. rewrite andb_false_r. reflexivity. }
    assert (mem_nat k (children s tg) = false) as E2 by (apply mem_nat_false; intros H; apply Hne; apply (one_parent s i tg k Hk H)).
    rewrite E0, E2, Hb. apply Nat.eqb_neq in Hne. rewrite Hne.
    replace (mem_nat k (children s i)) with true by (symmetry; apply mem_nat_In; exact Hk). reflexivity.
  - assert (mem_nat tg (jump_resets s i tg) = false) as E0.
    { rewrite mem_resets, Nat.eqb_refl. simpl. rewrite !andb_false_r. reflexivity. }
    rewrite E0. replace (mem_nat k (children s tg)) with true by (symmetry; apply mem_nat_In; exact Hk).
    destruct (i =? tg) eqn:E; [reflexivity|].
    assert (mem_nat k (children s i) = false) as E1.
    { apply mem_nat_false. intros H. apply Nat.eqb_neq in E. apply E. symmetry. apply (one_parent s tg i k Hk H). }
    rewrite E1, andb_false_r. reflexivity.
Qed.
