(* MsgCodecP: soundness of msg_codec_ok (model/MsgCodec.v).

   msg_roundtrip_sound  msg_codec_ok B (static, on the generated lists) + wf_msg m imply
                        deserialize (type_name m) (serialize B m) = Some m' with the same class, the same
                        field names, and every field outside the popped metadata keys equal
   registry_sound       registry_ok: MESSAGE_TYPES is a bijection name <-> class, keys are the class names,
                        every class that is not the base of another one is registered
   Hypothesis (Section variable): dec_enc — json.loads (json.dumps v) = v for JSON-representable v.     *)
From Coq Require Import List ZArith String Bool.
Import ListNotations.
From Stab.model Require Import CodecT Codec MsgCodec.
From Stab.proofs Require Import CodecP.
Open Scope string_scope.

Lemma pkey_eqb_refl k : pkey_eqb k k = true.
Proof. destruct k; simpl; [apply String.eqb_refl|apply Z.eqb_refl]. Qed.

Lemma pkey_eqb_eq a b : pkey_eqb a b = true -> a = b.
Proof.
  destruct a, b; simpl; try discriminate; intros H.
  - apply String.eqb_eq in H. congruence.
  - apply Z.eqb_eq in H. congruence.
Qed.

Lemma pkey_eqb_str a b : pkey_eqb (KStr a) (KStr b) = String.eqb a b.
Proof. reflexivity. Qed.

Lemma kget_kset k k' v l : kget k (kset k' v l) = if pkey_eqb k k' then Some v else kget k l.
Proof.
  induction l as [|[k2 v2] r IH]; simpl.
  - destruct (pkey_eqb k k'); reflexivity.
  - destruct (pkey_eqb k' k2) eqn:E2; simpl.
    + apply pkey_eqb_eq in E2. subst k2. destruct (pkey_eqb k k'); reflexivity.
    + destruct (pkey_eqb k k2) eqn:E.
      * apply pkey_eqb_eq in E. subst k2. destruct (pkey_eqb k k') eqn:E3; [|reflexivity].
        apply pkey_eqb_eq in E3. subst k'. rewrite pkey_eqb_refl in E2. discriminate.
      * exact IH.
Qed.

Lemma keys_kset k v l x : kget k l = Some x -> map fst (kset k v l) = map fst l.
Proof.
  induction l as [|[k2 v2] r IH]; simpl; [discriminate|].
  destruct (pkey_eqb k k2) eqn:E.
  - intros _. apply pkey_eqb_eq in E. subst. reflexivity.
  - intros H. simpl. f_equal. apply IH. exact H.
Qed.

Lemma kget_filter (p : pkey -> bool) k l :
  p k = true -> kget k (filter (fun kv : pkey * pyval => p (fst kv)) l) = kget k l.
Proof.
  intros Hp. induction l as [|[k2 v2] r IH]; simpl; [reflexivity|].
  destruct (p k2) eqn:E2; simpl.
  - destruct (pkey_eqb k k2); [reflexivity|exact IH].
  - destruct (pkey_eqb k k2) eqn:E; [|exact IH]. apply pkey_eqb_eq in E. subst. congruence.
Qed.

Lemma sget_map_names {A B} (g : string -> B) (l : list (string * A)) f :
  sget f (map (fun ft => (fst ft, g (fst ft))) l) = if smem f (map fst l) then Some (g f) else None.
Proof.
  induction l as [|[f0 t0] r IH]; simpl; [reflexivity|].
  unfold smem. simpl. destruct (String.eqb f f0) eqn:E; simpl.
  - apply String.eqb_eq in E. subst. reflexivity.
  - exact IH.
Qed.

Lemma sget_none_of_not_mem {A} k (l : list (string * A)) : smem k (map fst l) = false -> sget k l = None.
Proof.
  induction l as [|[k' v'] r IH]; simpl; [reflexivity|].
  unfold smem in *. simpl. destruct (String.eqb k k'); simpl; [discriminate|exact IH].
Qed.

Definition plain (v : pyval) : bool := match v with VEnum _ _ | VDatetime _ => false | _ => true end.

Lemma jrep_plain v : jrep v = true -> plain v = true.
Proof. destruct v; simpl; try discriminate; reflexivity. Qed.

Section MsgProofs.
Variable jtext : Type.
Variable enc : pyval -> jtext.
Variable dec : jtext -> option pyval.
Variable iso : Z -> string.
Variable ET : list (string * list (string * string)).
Variable CL : list (string * list (string * mtype)).
Variable REG : list (string * string).
Variable RS : list restore.
Variable POP : list string.

Hypothesis dec_enc : forall v, jrep v = true -> dec (enc v) = Some v.

Notation ser_value := (ser_value iso ET).
Notation ser_entry := (ser_entry iso ET).
Notation restore_one := (restore_one ET).
Notation restore_all := (restore_all ET).
Notation field_ok := (field_ok iso ET RS POP).
Notation wf_mvalue := (wf_mvalue ET).
Notation wf_mfields := (wf_mfields ET).

(* ---------- the per-value chain ---------- *)
Lemma ser_plain B v : existsb is_identity B = true -> plain v = true -> ser_value B v = Some v.
Proof.
  induction B as [|b B' IH]; simpl; [discriminate|]. intros Hid Hp.
  destruct b; simpl in Hid.
  - apply IH; assumption.
  - destruct v; simpl in Hp; try discriminate; apply IH; assumption.
  - destruct v; simpl in Hp; try discriminate; apply IH; assumption.
  - destruct v; simpl in Hp; try discriminate; apply IH; assumption.
  - reflexivity.
Qed.

Lemma ser_datetime B d : datetime_ser_ok iso ET B = true -> ser_value B (VDatetime d) = Some (VStr (iso d)).
Proof.
  unfold datetime_ser_ok. induction B as [|b B' IH]; simpl; [discriminate|].
  destruct b; simpl; auto. discriminate.
Qed.

Lemma ser_enum B cls m :
  enum_ser_ok iso ET B cls = true -> enum_has ET cls m = true ->
  ser_value B (VEnum cls m) = Some (VStr m) /\ String.eqb m "" = false.
Proof.
  unfold enum_ser_ok, enum_has. intros Hall Hm. rewrite forallb_forall in Hall.
  apply smem_In in Hm. apply in_map_iff in Hm. destruct Hm as [[n v] [Hn Hin]]. simpl in Hn. subst n.
  specialize (Hall _ Hin). simpl in Hall. apply andb_true_iff in Hall. destruct Hall as [Hne Hs].
  apply negb_true_iff in Hne. split; [|exact Hne].
  destruct (ser_value B (VEnum cls m)) as [[]|]; try discriminate. apply String.eqb_eq in Hs. subst. reflexivity.
Qed.

(* what a declared field serialises to *)
Definition ser_shape (f : string) (t : mtype) (v sv : pyval) : Prop :=
  (sv = v /\ plain v = true /\ jrep v = true /\ find_restore f RS = None)
  \/ (v = VNone /\ sv = VNone)
  \/ (exists d, v = VDatetime d /\ sv = VStr (iso d) /\ smem f POP = true /\ find_restore f RS = None)
  \/ (exists cls m, v = VEnum cls m /\ sv = VStr m /\ enum_has ET cls m = true /\ String.eqb m "" = false
                    /\ match find_restore f RS with Some rs => rs_cls rs = cls | None => smem f POP = true end).

Lemma ser_typed B f t v :
  existsb is_identity B = true -> field_ok B f t = true -> wf_mvalue t v = true ->
  exists sv, ser_value B v = Some sv /\ jrep sv = true /\ ser_shape f t v sv.
Proof.
  intros Hid Hok Hwf. unfold MsgCodec.field_ok in Hok. apply andb_true_iff in Hok. destruct Hok as [Hok _].
  destruct t; destruct v; simpl in Hwf; try discriminate.
  - (* MStr *) exists (VStr s). split; [apply ser_plain; auto|]. split; [reflexivity|].
    left. repeat split; auto. destruct (find_restore f RS); [discriminate|reflexivity].
  - exists (VInt z). split; [apply ser_plain; auto|]. split; [reflexivity|].
    left. repeat split; auto. destruct (find_restore f RS); [discriminate|reflexivity].
  - exists (VBool b). split; [apply ser_plain; auto|]. split; [reflexivity|].
    left. repeat split; auto. destruct (find_restore f RS); [discriminate|reflexivity].
  - (* MJson list *) exists (VList l). split; [apply ser_plain; auto|]. split; [exact Hwf|].
    left. repeat split; auto. destruct (find_restore f RS); [discriminate|reflexivity].
  - exists (VDict kvs). split; [apply ser_plain; auto|]. split; [exact Hwf|].
    left. repeat split; auto. destruct (find_restore f RS); [discriminate|reflexivity].
  - (* MDatetime *)
    apply andb_true_iff in Hok. destruct Hok as [Hok Hnr]. apply andb_true_iff in Hok. destruct Hok as [Hd Hp].
    exists (VStr (iso id)). split; [apply ser_datetime; exact Hd|]. split; [reflexivity|].
    right; right; left. exists id. repeat split; auto. destruct (find_restore f RS); [discriminate|reflexivity].
  - (* MOptStr *) exists VNone. split; [apply ser_plain; auto|]. split; [reflexivity|]. right; left; auto.
  - exists (VStr s). split; [apply ser_plain; auto|]. split; [reflexivity|].
    left. repeat split; auto. destruct (find_restore f RS); [discriminate|reflexivity].
  - (* MEnum *)
    apply andb_true_iff in Hwf. destruct Hwf as [Hc Hhas]. apply String.eqb_eq in Hc. subst cls0.
    apply andb_true_iff in Hok. destruct Hok as [Hser Hrs].
    destruct (ser_enum B cls member Hser Hhas) as [Hs Hne].
    exists (VStr member). split; [exact Hs|]. split; [reflexivity|].
    right; right; right. exists cls, member. repeat split; auto.
    destruct (find_restore f RS); [apply String.eqb_eq; exact Hrs|exact Hrs].
  - (* MOptEnum, None *) exists VNone. split; [apply ser_plain; auto|]. split; [reflexivity|]. right; left; auto.
  - apply andb_true_iff in Hwf. destruct Hwf as [Hc Hhas]. apply String.eqb_eq in Hc. subst cls0.
    apply andb_true_iff in Hok. destruct Hok as [Hser Hrs].
    destruct (ser_enum B cls member Hser Hhas) as [Hs Hne].
    exists (VStr member). split; [exact Hs|]. split; [reflexivity|].
    right; right; right. exists cls, member. repeat split; auto.
    destruct (find_restore f RS); [apply String.eqb_eq; exact Hrs|exact Hrs].
Qed.

(* ---------- the serialised dict ---------- *)
Definition skipped (B : list ser_branch) (f : string) : bool := existsb is_skip B && is_private f.

Lemma typed_get fts fs f v :
  wf_mfields fts fs = true -> sget f fs = Some v -> exists t, sget f fts = Some t /\ wf_mvalue t v = true.
Proof.
  revert fs. induction fts as [|[f0 t0] r IH]; destruct fs as [|[f' v'] r']; simpl; try discriminate.
  intros H. apply andb_true_iff in H. destruct H as [H H3]. apply andb_true_iff in H. destruct H as [H1 H2].
  apply String.eqb_eq in H1. subst f'. destruct (String.eqb f f0).
  - intros Hg. inversion Hg. subst. eauto.
  - apply IH. exact H3.
Qed.

Lemma mfields_names fts fs : wf_mfields fts fs = true -> map fst fs = map fst fts.
Proof.
  revert fs. induction fts as [|[f t] r IH]; destruct fs as [|[f' v] r']; simpl; try discriminate; auto.
  intros H. apply andb_true_iff in H. destruct H as [H H3]. apply andb_true_iff in H. destruct H as [H1 H2].
  apply String.eqb_eq in H1. subst. f_equal. apply IH. exact H3.
Qed.

Lemma ser_dict_facts B fts fs :
  existsb is_identity B = true -> wf_mfields fts fs = true ->
  forallb (fun ft => field_ok B (fst ft) (snd ft)) fts = true ->
  let S := flat_map (ser_entry B) fs in
  jrep (VDict S) = true
  /\ (forall kv, In kv S -> exists f, fst kv = KStr f /\ In f (map fst fts))
  /\ (forall f, kget (KStr f) S = match sget f fs with
                                  | Some v => if skipped B f then None else ser_value B v
                                  | None => None
                                  end).
Proof.
  intros Hid. revert fs. induction fts as [|[f0 t0] r IH]; destruct fs as [|[f' v0] r']; simpl; try discriminate.
  - intros _ _. repeat split; auto. intros kv [].
  - intros H Hall. apply andb_true_iff in H. destruct H as [H H3]. apply andb_true_iff in H. destruct H as [H1 H2].
    apply String.eqb_eq in H1. subst f'. apply andb_true_iff in Hall. destruct Hall as [Hok Hall].
    destruct (IH r' H3 Hall) as [Hj [Hk Hg]]. simpl in Hok.
    destruct (ser_typed B f0 t0 v0 Hid Hok H2) as [sv [Hsv [Hjsv _]]].
    assert (Hse : ser_entry B (f0, v0) = if skipped B f0 then [] else [(KStr f0, sv)]).
    { unfold MsgCodec.ser_entry, skipped. simpl. rewrite Hsv. reflexivity. }
    cbv zeta. simpl flat_map. rewrite Hse. destruct (skipped B f0) eqn:Esk; simpl.
    + split; [exact Hj|]. split.
      * intros kv Hin. destruct (Hk kv Hin) as [f [Hf1 Hf2]]. exists f. auto.
      * intros f. rewrite Hg. destruct (String.eqb f f0) eqn:E; [|reflexivity].
        apply String.eqb_eq in E. subst f. rewrite Esk. destruct (sget f0 r'); reflexivity.
    + split; [simpl in Hj; rewrite Hjsv; exact Hj|]. split.
      * intros kv [Hin|Hin].
        -- subst kv. exists f0. simpl. auto.
        -- destruct (Hk kv Hin) as [f [Hf1 Hf2]]. exists f. auto.
      * intros f. destruct (String.eqb f f0) eqn:E.
        -- apply String.eqb_eq in E. subst f. rewrite Esk. symmetry. exact Hsv.
        -- apply Hg.
Qed.

(* ---------- restoring enums ---------- *)
Definition restored_val (rs : restore) (v : pyval) : pyval :=
  if guard_fires (rs_guard rs) v then match v with VStr s => VEnum (rs_cls rs) s | _ => v end else v.

(* at the time the restore runs, the value under its key is None-like or the name of a member *)
Definition step_ok (rs : restore) (kvs : list (pkey * pyval)) : Prop :=
  match kget (KStr (rs_key rs)) kvs with
  | Some v => guard_fires (rs_guard rs) v = false \/ exists s, v = VStr s /\ enum_has ET (rs_cls rs) s = true
  | None => True
  end.

Lemma restore_one_spec rs kvs :
  step_ok rs kvs ->
  exists kvs', restore_one rs kvs = Some kvs' /\ map fst kvs' = map fst kvs
    /\ forall k, kget k kvs' = if pkey_eqb k (KStr (rs_key rs)) then option_map (restored_val rs) (kget k kvs) else kget k kvs.
Proof.
  unfold step_ok, MsgCodec.restore_one, restored_val.
  destruct (kget (KStr (rs_key rs)) kvs) as [v|] eqn:Eg.
  - intros [Hno | [s [-> Hhas]]].
    + rewrite Hno. exists kvs. split; [reflexivity|]. split; [reflexivity|]. intros k.
      destruct (pkey_eqb k (KStr (rs_key rs))) eqn:E; [|reflexivity]. apply pkey_eqb_eq in E. subst k.
      rewrite Eg. simpl. rewrite Hno. reflexivity.
    + destruct (guard_fires (rs_guard rs) (VStr s)) eqn:Egf.
      * rewrite (enum_by_name_has ET _ _ Hhas). eexists. split; [reflexivity|]. split; [eapply keys_kset; exact Eg|].
        intros k. rewrite kget_kset. destruct (pkey_eqb k (KStr (rs_key rs))) eqn:E; [|reflexivity].
        apply pkey_eqb_eq in E. subst k. rewrite Eg. simpl. rewrite Egf. reflexivity.
      * exists kvs. split; [reflexivity|]. split; [reflexivity|]. intros k.
        destruct (pkey_eqb k (KStr (rs_key rs))) eqn:E; [|reflexivity]. apply pkey_eqb_eq in E. subst k.
        rewrite Eg. simpl. rewrite Egf. reflexivity.
  - intros _. exists kvs. split; [reflexivity|]. split; [reflexivity|]. intros k.
    destruct (pkey_eqb k (KStr (rs_key rs))) eqn:E; [|reflexivity]. apply pkey_eqb_eq in E. subst k.
    rewrite Eg. reflexivity.
Qed.

Lemma find_restore_none k l : ~ In k (map rs_key l) -> find_restore k l = None.
Proof.
  induction l as [|rs r IH]; simpl; [reflexivity|]. intros H.
  destruct (String.eqb k (rs_key rs)) eqn:E.
  - apply String.eqb_eq in E. subst. tauto.
  - apply IH. tauto.
Qed.

Lemma restore_all_spec l kvs :
  NoDup (map rs_key l) -> (forall rs, In rs l -> step_ok rs kvs) ->
  exists kvs', restore_all l kvs = Some kvs' /\ map fst kvs' = map fst kvs
    /\ forall f, kget (KStr f) kvs' = match find_restore f l with
                                      | Some rs => option_map (restored_val rs) (kget (KStr f) kvs)
                                      | None => kget (KStr f) kvs
                                      end.
Proof.
  revert kvs. induction l as [|rs r IH]; simpl; intros kvs Hnd Hst.
  - exists kvs. auto.
  - inversion Hnd as [|? ? Hn Hnd']. subst.
    destruct (restore_one_spec rs kvs (Hst rs (or_introl eq_refl))) as [kvs1 [H1 [Hk1 Hg1]]].
    rewrite H1.
    destruct (IH kvs1 Hnd') as [kvs' [H2 [Hk2 Hg2]]].
    { intros rs' Hin. unfold step_ok. rewrite Hg1.
      destruct (pkey_eqb (KStr (rs_key rs')) (KStr (rs_key rs))) eqn:E.
      - simpl in E. apply String.eqb_eq in E. exfalso. apply Hn. rewrite <- E. apply in_map. exact Hin.
      - apply (Hst rs'). now right. }
    exists kvs'. split; [exact H2|]. split; [congruence|]. intros f. rewrite Hg2.
    destruct (String.eqb f (rs_key rs)) eqn:E.
    + apply String.eqb_eq in E. subst f. rewrite (find_restore_none _ _ Hn). rewrite Hg1. rewrite pkey_eqb_refl. reflexivity.
    + rewrite Hg1. simpl. rewrite E. reflexivity.
Qed.

Lemma find_restore_in rs l : NoDup (map rs_key l) -> In rs l -> find_restore (rs_key rs) l = Some rs.
Proof.
  induction l as [|r0 r IH]; simpl; intros Hnd Hin; [contradiction|].
  inversion Hnd as [|? ? Hn Hnd']. subst. destruct Hin as [->|Hin].
  - rewrite String.eqb_refl. reflexivity.
  - destruct (String.eqb (rs_key rs) (rs_key r0)) eqn:E.
    + apply String.eqb_eq in E. exfalso. apply Hn. rewrite <- E. apply in_map. exact Hin.
    + apply IH; assumption.
Qed.

(* ---------- the theorem ---------- *)
Theorem msg_roundtrip_sound B (m : msg) :
  msg_codec_ok iso ET CL REG RS POP B = true ->
  wf_msg ET CL REG m = true ->
  exists m', deserialize jtext dec ET CL REG RS POP (type_name m) (serialize jtext enc iso ET B m) = Some m'
    /\ m_cls m' = m_cls m
    /\ map fst (m_fields m') = map fst (m_fields m)
    /\ forall f, smem f POP = false -> sget f (m_fields m') = sget f (m_fields m).
Proof.
  unfold msg_codec_ok, wf_msg. intros Hok Hwf.
  repeat (apply andb_true_iff in Hok; let H := fresh "Hc" in destruct Hok as [Hok H]).
  rename Hok into Hid. rename Hc1 into Hndrs. rename Hc0 into Hndreg. rename Hc into Hreg.
  destruct (sget (m_cls m) REG) as [cls|] eqn:Ereg; [|discriminate].
  apply andb_true_iff in Hwf. destruct Hwf as [Hcls Hwf]. apply String.eqb_eq in Hcls. subst cls.
  destruct (sget (m_cls m) CL) as [fts|] eqn:Ecl; [|discriminate].
  rewrite forallb_forall in Hreg. specialize (Hreg _ (sget_In _ _ _ Ereg)). simpl in Hreg.
  apply andb_true_iff in Hreg. destruct Hreg as [_ Hclass]. rewrite Ecl in Hclass.
  unfold class_ok in Hclass. apply andb_true_iff in Hclass. destruct Hclass as [Hndf Hfok].
  destruct (ser_dict_facts B fts (m_fields m) Hid Hwf Hfok) as [Hj [Hkeys Hget]].
  set (S := flat_map (ser_entry B) (m_fields m)) in *.
  apply snodup_NoDup in Hndrs.
  (* every restore finds a None-like value or a member name *)
  assert (Hsteps : forall rs, In rs RS -> step_ok rs S).
  { intros rs Hin. unfold step_ok. rewrite Hget.
    destruct (sget (rs_key rs) (m_fields m)) as [v|] eqn:Ev; [|exact I].
    destruct (skipped B (rs_key rs)); [exact I|].
    destruct (typed_get fts _ _ _ Hwf Ev) as [t [Ht Htv]].
    rewrite forallb_forall in Hfok. specialize (Hfok _ (sget_In _ _ _ Ht)). simpl in Hfok.
    destruct (ser_typed B (rs_key rs) t v Hid Hfok Htv) as [sv [Hsv [_ Hshape]]]. rewrite Hsv.
    pose proof (find_restore_in rs RS Hndrs Hin) as Hfr.
    destruct Hshape as [[_ [_ [_ Hnone]]] | [[-> ->] | [[d [_ [_ [_ Hnone]]]] | [cls [mm [-> [-> [Hhas [Hne Hrs]]]]]]]]].
    - congruence.
    - left. destruct (rs_guard rs); reflexivity.
    - congruence.
    - rewrite Hfr in Hrs. right. exists mm. split; [reflexivity|]. rewrite Hrs. exact Hhas. }
  destruct (restore_all_spec RS S Hndrs Hsteps) as [S1 [HS1 [Hk1 Hg1]]].
  unfold deserialize, serialize, ser_dict, type_name. fold S. rewrite (dec_enc _ Hj). rewrite HS1. rewrite Ereg.
  unfold construct. rewrite Ecl.
  assert (Hkeyck : forallb (fun kv : pkey * pyval => match fst kv with KStr k => smem k (map fst fts) | KInt _ => false end)
                           (pop_keys POP S1) = true).
  { rewrite forallb_forall. intros kv Hin. unfold pop_keys in Hin. apply filter_In in Hin. destruct Hin as [Hin _].
    assert (Hk : In (fst kv) (map fst S)). { rewrite <- Hk1. apply in_map. exact Hin. }
    apply in_map_iff in Hk. destruct Hk as [kv0 [Hf0 Hin0]]. destruct (Hkeys kv0 Hin0) as [f [Hf Hfn]].
    rewrite <- Hf0, Hf. apply smem_In. exact Hfn. }
  rewrite Hkeyck. eexists. split; [reflexivity|]. simpl. split; [reflexivity|]. split.
  - rewrite map_map. simpl. symmetry. apply mfields_names. exact Hwf.
  - intros f Hnp. rewrite (sget_map_names (fun f0 => match kget (KStr f0) (pop_keys POP S1) with Some v => v | None => VDefault end) fts f).
    destruct (smem f (map fst fts)) eqn:Emem.
    + rewrite <- (mfields_names _ _ Hwf) in Emem. destruct (sget_some_of_mem f _ Emem) as [v Hv]. rewrite Hv. f_equal.
      unfold pop_keys. rewrite (kget_filter (fun k => negb (key_popped POP k)) (KStr f) S1); [|simpl; rewrite Hnp; reflexivity].
      rewrite Hg1, Hget, Hv.
      destruct (typed_get fts _ _ _ Hwf Hv) as [t [Ht Htv]].
      rewrite forallb_forall in Hfok. specialize (Hfok _ (sget_In _ _ _ Ht)). simpl in Hfok.
      assert (Hsk : skipped B f = false).
      { unfold MsgCodec.field_ok in Hfok. apply andb_true_iff in Hfok. destruct Hfok as [_ Hs]. rewrite Hnp in Hs.
        simpl in Hs. apply negb_true_iff in Hs. exact Hs. }
      rewrite Hsk.
      destruct (ser_typed B f t v Hid Hfok Htv) as [sv [Hsv [_ Hshape]]]. rewrite Hsv.
      destruct Hshape as [[-> [_ [_ Hnone]]] | [[-> ->] | [[d [_ [_ [Hpop _]]]] | [cls [mm [-> [-> [Hhas [Hne Hrs]]]]]]]]].
      * rewrite Hnone. reflexivity.
      * destruct (find_restore f RS) as [rs|]; [|reflexivity]. simpl. unfold restored_val.
        destruct (rs_guard rs); reflexivity.
      * congruence.
      * destruct (find_restore f RS) as [rs|]; [|congruence]. simpl. unfold restored_val. subst cls.
        assert (Hgf : guard_fires (rs_guard rs) (VStr mm) = true).
        { destruct (rs_guard rs); simpl; [reflexivity|]. rewrite Hne. reflexivity. }
        rewrite Hgf. reflexivity.
    + rewrite <- (mfields_names _ _ Hwf) in Emem. rewrite (sget_none_of_not_mem _ _ Emem). reflexivity.
Qed.

End MsgProofs.

(* ---------- registry ---------- *)
Theorem registry_sound (CL : list (string * list (string * mtype))) (REG bases : list (string * string)) :
  registry_ok CL REG bases = true ->
  NoDup (map fst REG) /\ NoDup (map snd REG)
  /\ (forall k c, In (k, c) REG -> k = c /\ In c (map fst CL))
  /\ (forall c, In c (map fst CL) -> In c (map snd REG) \/ In c (map snd bases)).
Proof.
  unfold registry_ok. intros H.
  repeat (apply andb_true_iff in H; let H' := fresh "Hr" in destruct H as [H H']).
  split; [apply snodup_NoDup; exact H|]. split; [apply snodup_NoDup; exact Hr1|]. split.
  - intros k c Hin. rewrite forallb_forall in Hr0. specialize (Hr0 _ Hin). simpl in Hr0.
    apply andb_true_iff in Hr0. destruct Hr0 as [H1 H2]. apply String.eqb_eq in H1. apply smem_In in H2. auto.
  - intros c Hin. rewrite forallb_forall in Hr. specialize (Hr c Hin). apply orb_true_iff in Hr.
    destruct Hr as [Hr|Hr]; apply smem_In in Hr; auto.
Qed.
