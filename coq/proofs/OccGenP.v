(* OccGenP: facts about the statement shapes regenerated from the source (coq/gen/Gen_Occ.v), by computation,
   and the concrete witnesses used by coq/props/C07.v. *)
From Coq Require Import List Bool ZArith Lia.
Import ListNotations.
From Stab.model Require Import Occ.
From Stab.proofs Require Import OccP OccRunP.
Local Open Scope Z_scope.

(* every conjunct / SET item / rowcount test / conversion / commit / rollback the C07 theorems rely on is present *)
Lemma gen_good : good gen_shapes = true.
Proof. vm_compute. reflexivity. Qed.

Definition store_variant (v : variant) : store_shape := store_shape_of gen_shapes v.

Lemma gen_good_store v : good_store (store_variant v) = true.
Proof. exact (good_store_of gen_shapes v gen_good). Qed.

(* ---- witnesses *)
Definition ex_d0 : db :=
  mk_db [mk_srow 1 0 1 []; mk_srow 2 0 0 []] [mk_trow 10 1 0 0; mk_trow 11 1 0 1; mk_trow 900 2 0 0].
Definition ex_progs : list prog :=
  [mk_prog Plain NoPhase (mk_mod (Some 2) (Some 100) [(10, 3)] [(12, 0)]) 2 false;
   mk_prog Txn PhaseSnap (mk_mod None (Some 200) [(11, 4)] []) 2 false;
   mk_prog Plain (PhaseFixed 1) (mk_mod None (Some 300) [] []) 2 false].
(* both read version 0; worker 0 commits; worker 1 conflicts, re-reads, commits; worker 2 expects phase 1 but the
   stage is in phase 2 by then: both its attempts fail and it gives up; its failed PLAIN saves leave its implicit
   transaction open (empty), so its E step has to come before any other DML *)
Definition ex_sched : list (nat * pc) :=
  [(0%nat, AtS); (1%nat, AtS); (0%nat, AtT); (0%nat, AtU); (1%nat, AtT); (0%nat, AtC); (1%nat, AtU);
   (1%nat, AtS); (1%nat, AtT); (1%nat, AtU); (1%nat, AtC);
   (2%nat, AtS); (2%nat, AtT); (2%nat, AtU); (2%nat, AtS); (2%nat, AtT); (2%nat, AtU);
   (2%nat, AtE); (0%nat, AtE); (1%nat, AtE)].
Definition ex_final : gstate := run gen_shapes 1 ex_progs (g_init ex_d0 3) ex_sched.

Lemma ex_good_start : good_start 1 ex_progs ex_d0.
Proof.
  split; [|split; [|split]].
  - split; simpl; repeat constructor; simpl; intuition discriminate.
  - eexists. reflexivity.
  - intros p Hp i Hi. simpl in Hp. destruct Hp as [<-|[<-|[<-|[]]]]; simpl in Hi; try contradiction.
    destruct Hi as [<-|[]]. simpl. intuition discriminate.
  - intros p Hp. simpl in Hp. destruct Hp as [<-|[<-|[<-|[]]]]; reflexivity.
Qed.

Lemma ex_run :
  good_start 1 ex_progs ex_d0 /\ reachable gen_shapes 1 ex_progs ex_d0 ex_final
  /\ g_bad ex_final = false
  /\ map w_results (g_ws ex_final) = [[Ok]; [ConcErr; Ok]; [ConcErr; ConcErr]]
  /\ map w_bases (g_ws ex_final) = [[0]; [0; 1]; [2; 2]]
  /\ g_log ex_final = [(0%nat, 0); (1%nat, 1)]
  /\ view_of_db 1 (g_db ex_final) = Some (mk_view 2 [100; 200] [(10, 3); (11, 4); (12, 0)])
  /\ ver_of_db 1 (g_db ex_final) = Some 2
  /\ g_lock ex_final = None.
Proof.
  split; [exact ex_good_start|]. split; [exists ex_sched; reflexivity|]. vm_compute. repeat split; reflexivity.
Qed.

Lemma ex_cas :
  let n1 := apply_mod (mk_mod None (Some 100) [] []) (snap_of (mk_srow 1 0 1 []) (read_tasks 1 ex_d0)) in
  let n2 := apply_mod (mk_mod None (Some 200) [] []) (snap_of (mk_srow 1 0 1 []) (read_tasks 1 ex_d0)) in
  exists d1 n1', store_stmts (store_variant Plain) (x_task gen_shapes) ex_d0 n1 None = (d1, n1', Ok)
    /\ store_stmts (store_variant Txn) (x_task gen_shapes) d1 n2 (Some 1) = (d1, n2, ConcErr)
    /\ ver_of_db 1 d1 = Some 1.
Proof. vm_compute. eexists. eexists. repeat split; reflexivity. Qed.

Lemma ex_plain_not_atomic :
  exists d n d' n', store_stmts (store_variant Plain) (x_task gen_shapes) d n None = (d', n', ConcErr)
    /\ ver_of_db 1 d' <> ver_of_db 1 d /\ x_plain_rollback gen_shapes = false.
Proof.
  exists ex_d0, (mk_snap 1 0 1 [7] [mk_tsnap 10 5 0]). vm_compute. eexists. eexists.
  split; [reflexivity|]. split; [discriminate|reflexivity].
Qed.

Definition ex_starve_progs : list prog :=
  [mk_prog Txn NoPhase (mk_mod None (Some 100) [] []) 2 false; mk_prog Txn NoPhase (mk_mod None (Some 200) [] []) 1 false;
   mk_prog Txn NoPhase (mk_mod None (Some 300) [] []) 1 false].
Definition ex_starve_sched : list (nat * pc) :=
  [(0%nat, AtS); (0%nat, AtT); (1%nat, AtS); (1%nat, AtT); (1%nat, AtU); (1%nat, AtC); (0%nat, AtU);
   (0%nat, AtS); (0%nat, AtT); (2%nat, AtS); (2%nat, AtT); (2%nat, AtU); (2%nat, AtC); (0%nat, AtU)].
Lemma ex_starve :
  let g := run gen_shapes 1 ex_starve_progs (g_init ex_d0 3) ex_starve_sched in
  g_bad g = false /\ option_map w_results (nth_error (g_ws g) 0) = Some [ConcErr; ConcErr]
  /\ option_map w_pc (nth_error (g_ws g) 0) = Some AtE.
Proof. vm_compute. repeat split; reflexivity. Qed.

Lemma ex_budgets : handler_tries = 4%nat /\ join_tracking_tries = 5%nat.
Proof. vm_compute. split; reflexivity. Qed.
