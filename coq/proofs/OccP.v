(* OccP: lemmas about the optimistic-lock statements of Occ.v (function level).
   Everything is proved for an arbitrary [shapes] value that satisfies [good]; coq/props/C07.v instantiates it
   with [gen_shapes] (regenerated from the source) and discharges [good gen_shapes = true] by computation. *)
From Coq Require Import List Bool ZArith Lia.
Import ListNotations.
From Stab.model Require Import Occ.
Local Open Scope Z_scope.

(* ------------------------------------------------------------------ small list facts *)
Lemma map_id_on {A} (f : A -> A) (l : list A) : (forall a, In a l -> f a = a) -> map f l = l.
Proof.
  induction l as [|a l IH]; simpl; intros H; [reflexivity|].
  rewrite H by auto. rewrite IH; auto.
Qed.

Lemma existsb_false_forall {A} (p : A -> bool) (l : list A) :
  existsb p l = false <-> forall a, In a l -> p a = false.
Proof.
  induction l as [|a l IH]; simpl.
  - split; [intros _ a []|reflexivity].
  - rewrite orb_false_iff, IH. split.
    + intros [Ha Hl] b [<-|Hb]; auto.
    + intros H. split; auto.
Qed.

Lemma find_map_pres {A} (key : A -> Z) (f : A -> A) (k : Z) (l : list A) :
  (forall a, key (f a) = key a) ->
  find (fun a => key a =? k) (map f l) = option_map f (find (fun a => key a =? k) l).
Proof.
  intros Hk. induction l as [|a l IH]; simpl; [reflexivity|].
  rewrite Hk. destruct (key a =? k); simpl; auto.
Qed.

Lemma find_some_in {A} (p : A -> bool) (l : list A) (a : A) : find p l = Some a -> In a l /\ p a = true.
Proof. apply find_some. Qed.

Lemma nodup_key_unique {A} (key : A -> Z) (l : list A) (a b : A) :
  NoDup (map key l) -> In a l -> In b l -> key a = key b -> a = b.
Proof.
  induction l as [|c l IH]; simpl; intros Hnd Ha Hb Hk; [contradiction|].
  inversion Hnd as [|? ? Hnin Hnd']; subst.
  destruct Ha as [<-|Ha], Hb as [<-|Hb]; auto.
  - exfalso. apply Hnin. rewrite Hk. apply in_map. exact Hb.
  - exfalso. apply Hnin. rewrite <- Hk. apply in_map. exact Ha.
Qed.

Lemma find_key_nodup {A} (key : A -> Z) (l : list A) (a : A) :
  NoDup (map key l) -> In a l -> find (fun b => key b =? key a) l = Some a.
Proof.
  induction l as [|c l IH]; simpl; intros Hnd Ha; [contradiction|].
  inversion Hnd as [|? ? Hnin Hnd']; subst.
  destruct Ha as [<-|Ha].
  - rewrite Z.eqb_refl. reflexivity.
  - destruct (key c =? key a) eqn:E.
    + apply Z.eqb_eq in E. exfalso. apply Hnin. rewrite E. apply in_map. exact Ha.
    + auto.
Qed.

Lemma find_none_key {A} (key : A -> Z) (l : list A) (k : Z) :
  ~ In k (map key l) -> find (fun b => key b =? k) l = None.
Proof.
  induction l as [|c l IH]; simpl; intros H; [reflexivity|].
  destruct (key c =? k) eqn:E.
  - apply Z.eqb_eq in E. exfalso. apply H. auto.
  - apply IH. intros Hin. apply H. auto.
Qed.

Lemma existsb_key_in {A} (key : A -> Z) (l : list A) (k : Z) :
  existsb (fun b => key b =? k) l = true <-> In k (map key l).
Proof.
  rewrite existsb_exists. split.
  - intros [b [Hb E]]. apply Z.eqb_eq in E. subst. apply in_map. exact Hb.
  - intros H. apply in_map_iff in H. destruct H as [b [E Hb]]. exists b. split; auto. apply Z.eqb_eq. exact E.
Qed.

Lemma nodup_app_disj {A} (a b : list A) : NoDup a -> NoDup b -> (forall x, In x b -> ~ In x a) -> NoDup (a ++ b).
Proof.
  induction a as [|x a IH]; simpl; intros Ha Hb Hd; [exact Hb|].
  inversion Ha as [|? ? Hnin Hnd]; subst. constructor.
  - rewrite in_app_iff. intros [H|H]; [contradiction|]. apply (Hd x H). left. reflexivity.
  - apply IH; auto. intros y Hy Hin. apply (Hd y Hy). right. exact Hin.
Qed.

(* ------------------------------------------------------------------ good shapes, unpacked *)
Lemma good_upd_inv ph u : good_upd ph u = true ->
  w_id u = true /\ w_version u = true /\ u_bump u = true /\ u_payload u = true /\ w_status u = ph.
Proof.
  unfold good_upd. rewrite !andb_true_iff. intros [[[[A B] C] D] E]. apply eqb_prop in E. auto.
Qed.

Lemma good_store_inv s : good_store s = true ->
  good_upd false (sh_nophase s) = true /\ good_upd true (sh_phase s) = true /\ sh_rowcount s = true /\ sh_upserts s = true.
Proof. unfold good_store. rewrite !andb_true_iff. tauto. Qed.

Lemma good_task_inv k : good_task k = true ->
  k_id k = true /\ k_version k = true /\ k_bump k = true /\ k_insert k = true /\ k_integrity k = true.
Proof. unfold good_task. rewrite !andb_true_iff. tauto. Qed.

Lemma good_inv x : good x = true ->
  good_store (x_plain x) = true /\ good_store (x_txn x) = true /\ good_task (x_task x) = true
  /\ x_plain_commits x = true /\ x_txn_commits x = true /\ x_txn_rollback x = true.
Proof. unfold good. rewrite !andb_true_iff. tauto. Qed.

Lemma good_store_of x v : good x = true -> good_store (store_shape_of x v) = true.
Proof. intros H. apply good_inv in H. destruct v; simpl; tauto. Qed.

Lemma good_commits x v : good x = true -> commits_of x v = true.
Proof. intros H. apply good_inv in H. destruct v; simpl; tauto. Qed.

(* the UPDATE shape actually used for a given expected_phase *)
Definition upd_of (s : store_shape) (phase : option Z) : upd_shape :=
  match phase with Some _ => sh_phase s | None => sh_nophase s end.

Definition phase_ok (phase : option Z) (r : srow) : bool :=
  match phase with Some p => s_status r =? p | None => true end.

Lemma stage_matches_good s phase n r : good_store s = true ->
  stage_matches (upd_of s phase) n phase r = (s_id r =? n_id n) && (s_ver r =? n_ver n) && phase_ok phase r.
Proof.
  intros H. apply good_store_inv in H. destruct H as [H1 [H2 _]].
  apply good_upd_inv in H1. apply good_upd_inv in H2.
  destruct H1 as [A1 [B1 [_ [_ E1]]]]. destruct H2 as [A2 [B2 [_ [_ E2]]]].
  unfold stage_matches, phase_ok. destruct phase; simpl.
  - rewrite A2, B2, E2. simpl. reflexivity.
  - rewrite A1, B1, E1. simpl. rewrite andb_true_r. reflexivity.
Qed.

Lemma stage_set_good s phase n r : good_store s = true ->
  stage_set (upd_of s phase) n r = mk_srow (s_id r) (s_ver r + 1) (n_status n) (n_pay n).
Proof.
  intros H. apply good_store_inv in H. destruct H as [H1 [H2 _]].
  apply good_upd_inv in H1. apply good_upd_inv in H2.
  destruct H1 as [_ [_ [C1 [D1 _]]]]. destruct H2 as [_ [_ [C2 [D2 _]]]].
  unfold stage_set. destruct phase; simpl; [rewrite C2, D2|rewrite C1, D1]; reflexivity.
Qed.

Lemma stage_set_id u n r : s_id (stage_set u n r) = s_id r.
Proof. reflexivity. Qed.

Lemma update_stages_ids u n ph l : map s_id (update_stages u n ph l) = map s_id l.
Proof.
  unfold update_stages. rewrite map_map. apply map_ext. intros r. destruct (stage_matches u n ph r); reflexivity.
Qed.

Lemma find_stage_update u n ph l sid :
  find_stage sid (update_stages u n ph l)
  = option_map (fun r => if stage_matches u n ph r then stage_set u n r else r) (find_stage sid l).
Proof.
  unfold find_stage, update_stages. apply (find_map_pres s_id). intros r. destruct (stage_matches u n ph r); reflexivity.
Qed.

(* with unique ids the UPDATE matches some row iff it matches THE row of that id *)
Lemma existsb_matches_found s phase n l r : good_store s = true -> NoDup (map s_id l) ->
  find_stage (n_id n) l = Some r ->
  existsb (stage_matches (upd_of s phase) n phase) l = (s_ver r =? n_ver n) && phase_ok phase r.
Proof.
  intros Hg Hnd Hf. apply find_some in Hf. destruct Hf as [Hin Hid].
  destruct ((s_ver r =? n_ver n) && phase_ok phase r) eqn:E.
  - apply existsb_exists. exists r. split; auto. rewrite stage_matches_good by auto. rewrite Hid. exact E.
  - apply existsb_false_forall. intros a Ha. rewrite stage_matches_good by auto.
    destruct (s_id a =? n_id n) eqn:Ea; simpl; auto.
    assert (a = r). { apply (nodup_key_unique s_id l); auto. apply Z.eqb_eq in Ea, Hid. congruence. }
    subst a. exact E.
Qed.

Lemma update_stages_nomatch u n ph l : existsb (stage_matches u n ph) l = false -> update_stages u n ph l = l.
Proof.
  intros H. unfold update_stages. apply map_id_on. intros a Ha.
  rewrite existsb_false_forall in H. rewrite (H a Ha). reflexivity.
Qed.

(* rows of other ids are untouched (needs the id conjunct) *)
Lemma update_stages_frame s phase n l sid : good_store s = true -> sid <> n_id n ->
  find_stage sid (update_stages (upd_of s phase) n phase l) = find_stage sid l.
Proof.
  intros Hg Hne. rewrite find_stage_update. destruct (find_stage sid l) as [r|] eqn:E; simpl; [|reflexivity].
  apply find_some in E. destruct E as [_ E]. apply Z.eqb_eq in E.
  rewrite stage_matches_good by auto. replace (s_id r =? n_id n) with false; [reflexivity|].
  symmetry. apply Z.eqb_neq. congruence.
Qed.

(* ------------------------------------------------------------------ upsert_task / upsert_all *)
Definition to_tsnap (r : trow) : tsnap := mk_tsnap (t_id r) (t_ver r) (t_status r).

Lemma task_matches_good k t r : good_task k = true ->
  task_matches k t r = (t_id r =? ts_id t) && (t_ver r =? ts_ver t).
Proof.
  intros H. apply good_task_inv in H. destruct H as [A [B _]]. unfold task_matches. rewrite A, B. reflexivity.
Qed.

Lemma task_set_good k t r : good_task k = true ->
  task_set k t r = mk_trow (t_id r) (t_stage r) (t_ver r + 1) (ts_status t).
Proof. intros H. apply good_task_inv in H. destruct H as [_ [_ [C _]]]. unfold task_set. rewrite C. reflexivity. Qed.

(* the row an in-memory task updates *)
Definition upd_row (k : task_shape) (ts : list tsnap) (r : trow) : trow :=
  match find (fun t => ts_id t =? t_id r) ts with Some t => task_set k t r | None => r end.

Lemma upd_row_id k ts r : t_id (upd_row k ts r) = t_id r.
Proof. unfold upd_row. destruct (find _ ts); reflexivity. Qed.

Lemma upd_row_stage k ts r : t_stage (upd_row k ts r) = t_stage r.
Proof. unfold upd_row. destruct (find _ ts); reflexivity. Qed.

Lemma map_upd_row_ids k ts l : map t_id (map (upd_row k ts) l) = map t_id l.
Proof. rewrite map_map. apply map_ext. intros. apply upd_row_id. Qed.

Definition has_row (l : list trow) (t : tsnap) : Prop := exists r, In r l /\ t_id r = ts_id t /\ t_ver r = ts_ver t.

Lemma upsert_task_hit k sid l t : good_task k = true -> NoDup (map t_id l) -> has_row l t ->
  exists t', upsert_task k sid l t = (map (upd_row k [t]) l, t', Ok) /\ ts_id t' = ts_id t /\ ts_status t' = ts_status t.
Proof.
  intros Hg Hnd [r [Hin [Hid Hver]]]. unfold upsert_task.
  assert (Hex : existsb (task_matches k t) l = true).
  { apply existsb_exists. exists r. split; auto. rewrite task_matches_good by auto.
    rewrite Hid, Hver, !Z.eqb_refl. reflexivity. }
  rewrite Hex.
  assert (Hmap : map (fun r0 => if task_matches k t r0 then task_set k t r0 else r0) l = map (upd_row k [t]) l).
  { apply map_ext_in. intros a Ha. unfold upd_row. simpl.
    rewrite task_matches_good by auto. rewrite (Z.eqb_sym (ts_id t) (t_id a)).
    destruct (t_id a =? ts_id t) eqn:E; simpl; [|reflexivity].
    assert (a = r). { apply (nodup_key_unique t_id l); auto. apply Z.eqb_eq in E. congruence. }
    subst a. rewrite Hver, Z.eqb_refl. reflexivity. }
  rewrite Hmap. eexists. split; [reflexivity|]. simpl. split; reflexivity.
Qed.

Lemma upsert_task_new k sid l t : good_task k = true -> ~ In (ts_id t) (map t_id l) ->
  upsert_task k sid l t = (l ++ [mk_trow (ts_id t) sid 0 (ts_status t)], t, Ok).
Proof.
  intros Hg Hnin. unfold upsert_task.
  assert (Hex : existsb (task_matches k t) l = false).
  { apply existsb_false_forall. intros a Ha. rewrite task_matches_good by auto.
    destruct (t_id a =? ts_id t) eqn:E; simpl; auto. apply Z.eqb_eq in E. exfalso. apply Hnin. rewrite <- E. apply in_map. auto. }
  rewrite Hex. apply good_task_inv in Hg. destruct Hg as [_ [_ [_ [I _]]]]. rewrite I.
  assert (Hex2 : existsb (fun r => t_id r =? ts_id t) l = false).
  { apply not_true_is_false. intros H. apply existsb_key_in in H. contradiction. }
  rewrite Hex2. reflexivity.
Qed.

(* a task whose id exists at another version: IntegrityError -> ConcurrencyError, nothing written by this statement *)
Lemma upsert_task_stale k sid l t : good_task k = true -> NoDup (map t_id l) ->
  In (ts_id t) (map t_id l) -> ~ has_row l t ->
  upsert_task k sid l t = (l, t, ConcErr).
Proof.
  intros Hg Hnd Hin Hno. unfold upsert_task.
  assert (Hex : existsb (task_matches k t) l = false).
  { apply existsb_false_forall. intros a Ha. rewrite task_matches_good by auto.
    destruct ((t_id a =? ts_id t) && (t_ver a =? ts_ver t)) eqn:E; auto.
    apply andb_true_iff in E. destruct E as [E1 E2]. apply Z.eqb_eq in E1, E2.
    exfalso. apply Hno. exists a. auto. }
  rewrite Hex. pose proof (good_task_inv _ Hg) as [_ [_ [_ [I J]]]]. rewrite I.
  apply existsb_key_in in Hin. rewrite Hin, J. reflexivity.
Qed.

Lemma upd_row_cons_other k t ts r : ts_id t <> t_id r -> upd_row k (t :: ts) r = upd_row k ts r.
Proof. intros H. unfold upd_row. simpl. replace (ts_id t =? t_id r) with false; [reflexivity|]. symmetry. apply Z.eqb_neq. exact H. Qed.

Lemma upd_row_compose k t ts r : ~ In (ts_id t) (map ts_id ts) ->
  upd_row k ts (upd_row k [t] r) = upd_row k (t :: ts) r.
Proof.
  intros Hnin. unfold upd_row at 2. simpl. destruct (ts_id t =? t_id r) eqn:E.
  - apply Z.eqb_eq in E. unfold upd_row. simpl. rewrite E, Z.eqb_refl.
    rewrite find_none_key; [reflexivity|]. rewrite <- E. exact Hnin.
  - rewrite upd_row_cons_other; [reflexivity|]. apply Z.eqb_neq. exact E.
Qed.

Lemma has_row_after k t l t2 : ts_id t2 <> ts_id t -> has_row l t2 -> has_row (map (upd_row k [t]) l) t2.
Proof.
  intros Hne [r [Hin [Hid Hver]]]. exists r. split; [|auto].
  apply in_map_iff. exists r. split; auto.
  unfold upd_row. simpl. replace (ts_id t =? t_id r) with false; [reflexivity|].
  symmetry. apply Z.eqb_neq. congruence.
Qed.

(* every in-memory task that has its row at the version it was read at is written; the table afterwards *)
Lemma upsert_all_hits k sid ts : good_task k = true -> forall l,
  NoDup (map t_id l) -> NoDup (map ts_id ts) -> (forall t, In t ts -> has_row l t) ->
  exists ts', upsert_all k sid l ts = (map (upd_row k ts) l, ts', Ok)
              /\ map ts_id ts' = map ts_id ts /\ map ts_status ts' = map ts_status ts.
Proof.
  intros Hg. induction ts as [|t ts IH]; intros l Hnd Hnt Hall; simpl.
  - exists []. split; [|auto]. f_equal. f_equal. symmetry. apply map_id_on. intros a _. reflexivity.
  - inversion Hnt as [|? ? Hnin Hnt']; subst.
    destruct (upsert_task_hit k sid l t Hg Hnd (Hall t (or_introl eq_refl))) as [t' [E [Ei Es]]].
    rewrite E.
    destruct (IH (map (upd_row k [t]) l)) as [ts' [E2 [Ei2 Es2]]].
    + rewrite map_upd_row_ids. exact Hnd.
    + exact Hnt'.
    + intros t2 Ht2. apply has_row_after; [|apply Hall; right; exact Ht2].
      intros Heq. apply Hnin. rewrite <- Heq. apply in_map. exact Ht2.
    + rewrite E2. exists (t' :: ts'). split; [|simpl; split; congruence].
      f_equal. f_equal. rewrite map_map. apply map_ext. intros r. apply upd_row_compose. exact Hnin.
Qed.

Definition new_row (sid : Z) (t : tsnap) : trow := mk_trow (ts_id t) sid 0 (ts_status t).

Lemma upsert_all_news k sid ts : good_task k = true -> forall l,
  NoDup (map ts_id ts) -> (forall t, In t ts -> ~ In (ts_id t) (map t_id l)) ->
  upsert_all k sid l ts = (l ++ map (new_row sid) ts, ts, Ok).
Proof.
  intros Hg. induction ts as [|t ts IH]; intros l Hnt Hall; simpl.
  - rewrite app_nil_r. reflexivity.
  - inversion Hnt as [|? ? Hnin Hnt']; subst.
    rewrite upsert_task_new; [|exact Hg|apply Hall; left; reflexivity].
    rewrite IH; auto.
    + rewrite <- app_assoc. reflexivity.
    + intros t2 Ht2. rewrite map_app, in_app_iff. simpl. intros [H|[H|[]]].
      * apply (Hall t2 (or_intror Ht2)). exact H.
      * apply Hnin. rewrite H. apply in_map. exact Ht2.
Qed.

Lemma upsert_all_app k sid a : forall l l1 a' b,
  upsert_all k sid l a = (l1, a', Ok) ->
  upsert_all k sid l (a ++ b) = match upsert_all k sid l1 b with (l2, b', r) => (l2, a' ++ b', r) end.
Proof.
  induction a as [|t a IH]; intros l l1 a' b H; simpl in *.
  - inversion H; subst. destruct (upsert_all k sid l1 b) as [[l2 b'] r]. reflexivity.
  - destruct (upsert_task k sid l t) as [[lt t1] rt] eqn:Et. destruct rt; try (inversion H; fail).
    destruct (upsert_all k sid lt a) as [[l2 a2] r2] eqn:Ea. inversion H; subst.
    rewrite (IH lt l1 a2 b Ea). destruct (upsert_all k sid l1 b) as [[l3 b'] r]. reflexivity.
Qed.

(* the first stale task stops the loop with ConcurrencyError *)
Lemma upsert_all_stale_head k sid l t ts : good_task k = true -> NoDup (map t_id l) ->
  In (ts_id t) (map t_id l) -> ~ has_row l t ->
  upsert_all k sid l (t :: ts) = (l, t :: ts, ConcErr).
Proof. intros Hg Hnd Hin Hno. simpl. rewrite upsert_task_stale by auto. reflexivity. Qed.

(* ------------------------------------------------------------------ tables: my stage's tasks and the others *)
Definition mine (sid : Z) (l : list trow) : list trow := filter (fun r => t_stage r =? sid) l.
Definition others (sid : Z) (l : list trow) : list trow := filter (fun r => negb (t_stage r =? sid)) l.
Definition other_stages (sid : Z) (l : list srow) : list srow := filter (fun r => negb (s_id r =? sid)) l.

Definition wf_db (d : db) : Prop := NoDup (map s_id (d_stages d)) /\ NoDup (map t_id (d_tasks d)).

Lemma read_tasks_mine sid d : read_tasks sid d = map to_tsnap (mine sid (d_tasks d)).
Proof. reflexivity. Qed.

Lemma nodup_map_filter {A} (f : A -> Z) (p : A -> bool) (l : list A) : NoDup (map f l) -> NoDup (map f (filter p l)).
Proof.
  induction l as [|a l IH]; simpl; intros H; [constructor|].
  inversion H as [|? ? Hnin Hnd]; subst. destruct (p a); simpl; auto.
  constructor; auto. intros Hin. apply Hnin. apply in_map_iff in Hin. destruct Hin as [b [E Hb]].
  apply filter_In in Hb. rewrite <- E. apply in_map. tauto.
Qed.

Lemma in_map_filter_split {A} (f : A -> Z) (p : A -> bool) (l : list A) x :
  In x (map f l) -> In x (map f (filter p l)) \/ In x (map f (filter (fun a => negb (p a)) l)).
Proof.
  intros H. apply in_map_iff in H. destruct H as [a [E Ha]]. subst x.
  destruct (p a) eqn:P; [left|right]; apply in_map; apply filter_In; split; auto. rewrite P. reflexivity.
Qed.

Lemma filter_map_comm {A} (p : A -> bool) (f : A -> A) (l : list A) :
  (forall a, p (f a) = p a) -> filter p (map f l) = map f (filter p l).
Proof.
  intros H. induction l as [|a l IH]; simpl; [reflexivity|]. rewrite H. destruct (p a); simpl; congruence.
Qed.

Lemma filter_all {A} (p : A -> bool) (l : list A) : (forall a, In a l -> p a = true) -> filter p l = l.
Proof. induction l as [|a l IH]; simpl; intros H; [reflexivity|]. rewrite H by auto. rewrite IH; auto. Qed.

Lemma filter_none {A} (p : A -> bool) (l : list A) : (forall a, In a l -> p a = false) -> filter p l = [].
Proof. induction l as [|a l IH]; simpl; intros H; [reflexivity|]. rewrite H by auto. apply IH; auto. Qed.

(* ------------------------------------------------------------------ apply_mod on the task list *)
Definition set_one (m : modn) (t : tsnap) : tsnap :=
  match assocZ (ts_id t) (m_set m) with Some s => mk_tsnap (ts_id t) (ts_ver t) s | None => t end.

Lemma set_one_id m t : ts_id (set_one m t) = ts_id t.
Proof. unfold set_one. destruct (assocZ _ _); reflexivity. Qed.
Lemma set_one_ver m t : ts_ver (set_one m t) = ts_ver t.
Proof. unfold set_one. destruct (assocZ _ _); reflexivity. Qed.

Lemma set_tasks_map m ts : set_tasks m ts = map (set_one m) ts.
Proof. reflexivity. Qed.

Fixpoint extras (news : list (Z * Z)) (ids : list Z) : list tsnap :=
  match news with
  | [] => []
  | (i, s) :: r => if existsb (fun j => j =? i) ids then extras r ids else mk_tsnap i 0 s :: extras r (ids ++ [i])
  end.

Lemma existsb_ids ts i : existsb (fun t => ts_id t =? i) ts = existsb (fun j => j =? i) (map ts_id ts).
Proof. induction ts as [|t ts IH]; simpl; congruence. Qed.

Lemma add_tasks_extras news : forall ts, add_tasks news ts = ts ++ extras news (map ts_id ts).
Proof.
  induction news as [|[i s] r IH]; intros ts; simpl.
  - rewrite app_nil_r. reflexivity.
  - rewrite existsb_ids. destruct (existsb (fun j => j =? i) (map ts_id ts)) eqn:E.
    + apply IH.
    + rewrite IH. rewrite map_app. simpl. rewrite <- app_assoc. reflexivity.
Qed.

Lemma extras_spec news : forall ids,
  NoDup (map ts_id (extras news ids))
  /\ (forall t, In t (extras news ids) -> ~ In (ts_id t) ids /\ In (ts_id t) (map fst news) /\ ts_ver t = 0).
Proof.
  induction news as [|[i s] r IH]; intros ids; simpl.
  - split; [constructor|intros t []].
  - destruct (existsb (fun j => j =? i) ids) eqn:E.
    + destruct (IH ids) as [A B]. split; auto. intros t Ht. destruct (B t Ht) as [B1 [B2 B3]]. auto.
    + destruct (IH (ids ++ [i])) as [A B]. split.
      * simpl. constructor; auto. intros Hin. apply in_map_iff in Hin. destruct Hin as [t [Et Ht]].
        destruct (B t Ht) as [B1 _]. apply B1. rewrite Et. apply in_or_app. right. left. reflexivity.
      * intros t [<-|Ht]; simpl.
        -- split; [|auto]. intros Hin. assert (existsb (fun j => j =? i) ids = true).
           { apply existsb_exists. exists i. split; auto. apply Z.eqb_refl. } congruence.
        -- destruct (B t Ht) as [B1 [B2 B3]]. split; [|auto]. intros Hin. apply B1. apply in_or_app. auto.
Qed.

(* ------------------------------------------------------------------ views *)
Definition ids_status (ts : list tsnap) : list (Z * Z) := map (fun t => (ts_id t, ts_status t)) ts.

Lemma view_apply_mod m n : view_of_snap (apply_mod m n) = apply_view m (view_of_snap n).
Proof.
  unfold apply_view, view_of_snap, apply_mod. simpl. f_equal.
  rewrite !add_tasks_extras, !map_app. f_equal.
  - rewrite !set_tasks_map, !map_map. apply map_ext. intros t. unfold set_one. simpl.
    destruct (assocZ (ts_id t) (m_set m)); reflexivity.
  - f_equal. f_equal. rewrite !set_tasks_map, !map_map. apply map_ext. intros t. rewrite !set_one_id. reflexivity.
Qed.

(* ------------------------------------------------------------------ store_stage on a stale or mismatching snapshot *)
Lemma find_stage_exists sid l r : find_stage sid l = Some r -> existsb (fun r0 => s_id r0 =? sid) l = true.
Proof. intros H. apply find_some in H. apply existsb_exists. exists r. exact H. Qed.

Lemma find_stage_id sid l r : find_stage sid l = Some r -> s_id r = sid.
Proof. intros H. apply find_some in H. apply Z.eqb_eq. tauto. Qed.

Lemma store_conflict s k d n ph r : good_store s = true -> NoDup (map s_id (d_stages d)) ->
  find_stage (n_id n) (d_stages d) = Some r ->
  (s_ver r =? n_ver n) && phase_ok ph r = false ->
  store_stmts s k d n ph = (d, n, ConcErr).
Proof.
  intros Hg Hnd Hf Hno. unfold store_stmts. rewrite (find_stage_exists _ _ _ Hf).
  change (match ph with Some _ => sh_phase s | None => sh_nophase s end) with (upd_of s ph).
  rewrite (existsb_matches_found s ph n _ r Hg Hnd Hf), Hno. simpl.
  pose proof (good_store_inv _ Hg) as [_ [_ [R _]]]. rewrite R.
  rewrite update_stages_nomatch.
  - destruct d; reflexivity.
  - rewrite (existsb_matches_found s ph n _ r Hg Hnd Hf). exact Hno.
Qed.

(* and conversely: when the row is at the snapshot's version (and phase), the stage UPDATE goes through *)
Lemma store_passes_stage s k d n ph r : good_store s = true -> NoDup (map s_id (d_stages d)) ->
  find_stage (n_id n) (d_stages d) = Some r ->
  (s_ver r =? n_ver n) && phase_ok ph r = true ->
  store_stmts s k d n ph =
    match upsert_all k (n_id n) (d_tasks d) (n_tasks n) with
    | (tl, ts', res) =>
        (mk_db (update_stages (upd_of s ph) n ph (d_stages d)) tl,
         mk_snap (n_id n) (if sh_local_bump s then n_ver n + 1 else n_ver n) (n_status n) (n_pay n) ts', res)
    end.
Proof.
  intros Hg Hnd Hf Hyes. unfold store_stmts. rewrite (find_stage_exists _ _ _ Hf).
  change (match ph with Some _ => sh_phase s | None => sh_nophase s end) with (upd_of s ph).
  rewrite (existsb_matches_found s ph n _ r Hg Hnd Hf), Hyes. simpl.
  pose proof (good_store_inv _ Hg) as [_ [_ [_ U]]]. rewrite U. reflexivity.
Qed.

(* ------------------------------------------------------------------ store_stage on a FRESH snapshot *)
Definition fresh_new (sid : Z) (m : modn) (tbl : list trow) : Prop :=
  forall i, In i (map fst (m_new m)) -> ~ In i (map t_id (others sid tbl)).

Lemma upd_row_found k g rows r : good_task k = true -> (forall t, ts_id (g t) = ts_id t) ->
  NoDup (map t_id rows) -> In r rows ->
  upd_row k (map g (map to_tsnap rows)) r = mk_trow (t_id r) (t_stage r) (t_ver r + 1) (ts_status (g (to_tsnap r))).
Proof.
  intros Hg Hid Hnd Hin. unfold upd_row.
  assert (E : find (fun t => ts_id t =? t_id r) (map g (map to_tsnap rows)) = Some (g (to_tsnap r))).
  { replace (t_id r) with (ts_id (g (to_tsnap r))) by (rewrite Hid; reflexivity).
    apply (find_key_nodup ts_id).
    - rewrite !map_map. erewrite map_ext; [exact Hnd|]. intros a. rewrite Hid. reflexivity.
    - apply in_map. apply in_map. exact Hin. }
  rewrite E. apply task_set_good. exact Hg.
Qed.

Lemma upd_row_notin k ts r : ~ In (t_id r) (map ts_id ts) -> upd_row k ts r = r.
Proof. intros H. unfold upd_row. rewrite find_none_key; auto. Qed.

Theorem store_fresh s k d m ph r sid :
  good_store s = true -> good_task k = true -> wf_db d ->
  find_stage sid (d_stages d) = Some r ->
  phase_ok ph r = true ->
  fresh_new sid m (d_tasks d) ->
  let n := apply_mod m (snap_of r (read_tasks sid d)) in
  exists d' n',
    store_stmts s k d n ph = (d', n', Ok)
    /\ find_stage sid (d_stages d') = Some (mk_srow sid (s_ver r + 1) (n_status n) (n_pay n))
    /\ (forall sid', sid' <> sid -> find_stage sid' (d_stages d') = find_stage sid' (d_stages d))
    /\ ids_status (read_tasks sid d') = ids_status (n_tasks n)
    /\ others sid (d_tasks d') = others sid (d_tasks d)
    /\ wf_db d'.
Proof.
  intros Hgs Hgk [Hns Hnt] Hf Hph Hfresh n.
  assert (Hsid : s_id r = sid) by (apply (find_stage_id _ _ _ Hf)).
  assert (Hnid : n_id n = sid) by (unfold n; simpl; exact Hsid).
  set (rows := mine sid (d_tasks d)).
  set (upd := map (set_one m) (map to_tsnap rows)).
  set (ext := extras (m_new m) (map ts_id upd)).
  assert (Hts : n_tasks n = upd ++ ext).
  { unfold n, apply_mod. simpl. rewrite add_tasks_extras. reflexivity. }
  assert (Hrows_nd : NoDup (map t_id rows)) by (apply nodup_map_filter; exact Hnt).
  assert (Hupd_ids : map ts_id upd = map t_id rows).
  { unfold upd. rewrite !map_map. apply map_ext. intros a. rewrite set_one_id. reflexivity. }
  destruct (extras_spec (m_new m) (map ts_id upd)) as [Hext_nd Hext].
  (* stage part *)
  assert (Hyes : (s_ver r =? n_ver n) && phase_ok ph r = true).
  { unfold n. simpl. rewrite Z.eqb_refl, Hph. reflexivity. }
  rewrite <- Hnid in Hf.
  rewrite (store_passes_stage s k d n ph r Hgs Hns Hf Hyes).
  rewrite Hnid in *.
  (* task part: the rows read are hit, the new ones are inserted *)
  destruct (upsert_all_hits k sid upd Hgk (d_tasks d) Hnt) as [upd' [E1 [Ei1 Es1]]].
  { rewrite Hupd_ids. exact Hrows_nd. }
  { intros t Ht. unfold upd in Ht. rewrite map_map in Ht. apply in_map_iff in Ht. destruct Ht as [a [<- Ha]].
    exists a. split; [|split].
    - unfold rows, mine in Ha. apply filter_In in Ha. tauto.
    - rewrite set_one_id. reflexivity.
    - rewrite set_one_ver. reflexivity. }
  assert (Hext_new : forall t, In t ext -> ~ In (ts_id t) (map t_id (map (upd_row k upd) (d_tasks d)))).
  { intros t Ht. rewrite map_upd_row_ids. intros Hin.
    destruct (Hext t Ht) as [H1 [H2 _]].
    apply (in_map_filter_split t_id (fun a => t_stage a =? sid)) in Hin. destruct Hin as [Hin|Hin].
    - apply H1. rewrite Hupd_ids. exact Hin.
    - apply (Hfresh (ts_id t) H2). exact Hin. }
  rewrite Hts. rewrite (upsert_all_app k sid upd (d_tasks d) _ upd' ext E1).
  rewrite (upsert_all_news k sid ext Hgk _ Hext_nd Hext_new).
  eexists. eexists. split; [reflexivity|]. simpl.
  split; [|split; [|split; [|split]]].
  - rewrite find_stage_update, Hf. simpl. rewrite stage_matches_good by auto.
    assert (Hc : (s_id r =? n_id n) && (s_ver r =? n_ver n) && phase_ok ph r = true).
    { rewrite Hnid, Hsid, Z.eqb_refl. exact Hyes. }
    rewrite Hc. rewrite stage_set_good by auto. rewrite Hsid. reflexivity.
  - intros sid' Hne. apply update_stages_frame; auto. rewrite Hnid. exact Hne.
  - rewrite read_tasks_mine. simpl. unfold mine. rewrite filter_app.
    rewrite (filter_map_comm (fun r0 => t_stage r0 =? sid) (upd_row k upd)) by (intros a; rewrite upd_row_stage; reflexivity).
    fold (mine sid (d_tasks d)). fold rows.
    rewrite (filter_all _ (map (new_row sid) ext)).
    2:{ intros a Ha. apply in_map_iff in Ha. destruct Ha as [t [<- _]]. simpl. apply Z.eqb_refl. }
    unfold ids_status. rewrite !map_app. f_equal.
    + unfold upd. rewrite !map_map. apply map_ext_in. intros a Ha.
      pose proof (upd_row_found k (set_one m) rows a Hgk (set_one_id m) Hrows_nd Ha) as Hu.
      rewrite map_map in Hu. rewrite Hu. simpl.
      rewrite set_one_id. reflexivity.
    + rewrite !map_map. apply map_ext. intros t. reflexivity.
  - unfold others. rewrite filter_app.
    rewrite (filter_map_comm (fun r0 => negb (t_stage r0 =? sid)) (upd_row k upd)) by (intros a; rewrite upd_row_stage; reflexivity).
    rewrite (filter_none _ (map (new_row sid) ext)).
    2:{ intros a Ha. apply in_map_iff in Ha. destruct Ha as [t [<- _]]. simpl. rewrite Z.eqb_refl. reflexivity. }
    rewrite app_nil_r. apply map_id_on. intros a Ha. apply filter_In in Ha. destruct Ha as [Ha Hst].
    apply upd_row_notin. rewrite Hupd_ids. intros Hin. apply in_map_iff in Hin. destruct Hin as [b [Eb Hb]].
    assert (a = b). { apply (nodup_key_unique t_id (d_tasks d)); auto. unfold rows, mine in Hb. apply filter_In in Hb. tauto. }
    subst b. unfold rows, mine in Hb. apply filter_In in Hb. destruct Hb as [_ Hb]. rewrite Hb in Hst. discriminate.
  - split; simpl.
    + rewrite update_stages_ids. exact Hns.
    + rewrite map_app, map_upd_row_ids.
      assert (Hd : forall x, In x (map t_id (map (new_row sid) ext)) -> ~ In x (map t_id (d_tasks d))).
      { intros x Hx. rewrite map_map in Hx. simpl in Hx. apply in_map_iff in Hx. destruct Hx as [t [<- Ht]].
        specialize (Hext_new t Ht). rewrite map_upd_row_ids in Hext_new. exact Hext_new. }
      apply nodup_app_disj; auto.
      rewrite map_map. simpl. exact Hext_nd.
Qed.
