(* OccRunP: invariants of the n-worker small-step semantics of Occ.v, by induction over arbitrary schedules.
   Fixed: good shapes, the contended stage id, the workers' programs, an initial database that holds the stage. *)
From Coq Require Import List Bool ZArith Lia Arith FinFun.
Import ListNotations.
From Stab.model Require Import Occ.
From Stab.proofs Require Import OccP.
Local Open Scope Z_scope.
Local Arguments Nat.max : simpl never.

(* ------------------------------------------------------------------ set_nth *)
Lemma length_set_nth {A} i (x : A) l : length (set_nth i x l) = length l.
Proof. revert i. induction l as [|a l IH]; intros [|i]; simpl; auto. Qed.

Lemma nth_error_set_nth_eq {A} i (x : A) l : (i < length l)%nat -> nth_error (set_nth i x l) i = Some x.
Proof. revert i. induction l as [|a l IH]; intros [|i] H; simpl in *; try lia; auto. apply IH. lia. Qed.

Lemma nth_error_set_nth_neq {A} i j (x : A) l : i <> j -> nth_error (set_nth i x l) j = nth_error l j.
Proof. revert i j. induction l as [|a l IH]; intros [|i] [|j] H; simpl; auto; try congruence. Qed.

Lemma nth_error_lt {A} (l : list A) i a : nth_error l i = Some a -> (i < length l)%nat.
Proof. intros H. apply nth_error_Some. congruence. Qed.

Definition is_ok (r : res) : bool := res_eqb r Ok.
Definition by_worker (i : nat) (e : nat * Z) : bool := Nat.eqb (fst e) i.

Section Run.
Variable x : shapes.
Hypothesis Hgood : good x = true.
Variable sid : Z.
Variable progs : list prog.
Variable d0 : db.
Variable r0 : srow.
Hypothesis Hwf0 : wf_db d0.
Hypothesis Hrow0 : find_stage sid (d_stages d0) = Some r0.
Hypothesis Hfresh0 : forall p, In p progs -> fresh_new sid (p_mod p) (d_tasks d0).
Hypothesis Hclean0 : forall p, In p progs -> p_poison p = false.

(* what the database looks like after a successful save of modification m computed from the committed row r *)
Definition fresh_result (d : db) (m : modn) (r : srow) (d' : db) : Prop :=
  let n := apply_mod m (snap_of r (read_tasks sid d)) in
  find_stage sid (d_stages d') = Some (mk_srow sid (s_ver r + 1) (n_status n) (n_pay n))
  /\ (forall sid', sid' <> sid -> find_stage sid' (d_stages d') = find_stage sid' (d_stages d))
  /\ ids_status (read_tasks sid d') = ids_status (n_tasks n)
  /\ others sid (d_tasks d') = others sid (d_tasks d)
  /\ wf_db d'.

Definition active (c : pc) : Prop := c = AtS \/ c = AtT \/ c = AtU \/ c = AtC.
Definition finished (c : pc) : Prop := c = AtE \/ c = Done.

Definition lock_ok (g : gstate) : Prop :=
  match g_lock g with
  | None => forall i w, nth_error (g_ws g) i = Some w -> w_pc w <> AtC
  | Some (j, d) =>
      exists w p, nth_error (g_ws g) j = Some w /\ nth_error progs j = Some p
        /\ (forall i w', i <> j -> nth_error (g_ws g) i = Some w' -> w_pc w' <> AtC)
        /\ ((w_pc w = AtC /\ exists cur n, find_stage sid (d_stages (g_db g)) = Some cur /\ w_snap w = Some n
                                          /\ n_ver n = s_ver cur /\ fresh_result (g_db g) (p_mod p) cur d)
            \/ (w_pc w <> AtC /\ d = g_db g))
  end.

Definition hdr_ok (g : gstate) (w : wstate) : Prop :=
  forall r, w_hdr w = Some r ->
    s_id r = sid /\ exists cur, find_stage sid (d_stages (g_db g)) = Some cur /\ s_ver r <= s_ver cur
      /\ (s_ver r = s_ver cur -> r = cur /\ forall n, w_snap w = Some n -> n_tasks n = read_tasks sid (g_db g)).

Definition shape_ok (w : wstate) : Prop :=
  (w_pc w = AtT -> w_hdr w <> None)
  /\ (w_pc w = AtU \/ w_pc w = AtC -> exists r n, w_hdr w = Some r /\ w_snap w = Some n /\ n = snap_of r (n_tasks n)).

Definition results_ok (g : gstate) (i : nat) (w : wstate) (p : prog) : Prop :=
  length (w_results w) = length (w_bases w)
  /\ (forall a v, nth_error (w_results w) a = Some Ok -> nth_error (w_bases w) a = Some v -> In (i, v) (g_log g))
  /\ length (filter (by_worker i) (g_log g)) = length (filter is_ok (w_results w))
  /\ (active (w_pc w) -> Forall (eq ConcErr) (w_results w) /\ S (length (w_results w)) = w_used w)
  /\ (finished (w_pc w) -> length (w_results w) = w_used w
        /\ exists pre last, w_results w = pre ++ [last] /\ Forall (eq ConcErr) pre
             /\ (last = Ok \/ (last = ConcErr /\ (p_tries p <= w_used w)%nat)))
  /\ (1 <= w_used w)%nat /\ (w_used w <= Nat.max 1 (p_tries p))%nat.

Record Inv (g : gstate) : Prop := {
  i_wf : wf_db (g_db g);
  i_others : others sid (d_tasks (g_db g)) = others sid (d_tasks d0);
  i_frame : forall sid', sid' <> sid -> find_stage sid' (d_stages (g_db g)) = find_stage sid' (d_stages d0);
  i_len : length (g_ws g) = length progs;
  i_row : exists cur, find_stage sid (d_stages (g_db g)) = Some cur /\ s_ver cur = s_ver r0 + Z.of_nat (length (g_log g));
  i_lock : lock_ok g;
  i_hdr : forall i w, nth_error (g_ws g) i = Some w -> hdr_ok g w /\ shape_ok w;
  i_res : forall i w p, nth_error (g_ws g) i = Some w -> nth_error progs i = Some p -> results_ok g i w p;
  i_view : exists v0, view_of_db sid d0 = Some v0 /\ view_of_db sid (g_db g) = Some (replay_log progs (g_log g) v0);
  i_chain : map snd (g_log g) = map (fun k => s_ver r0 + Z.of_nat k) (seq 0 (length (g_log g)));
  i_logw : forall e, In e (g_log g) -> (fst e < length progs)%nat
}.

(* ------------------------------------------------------------------ initial state *)
Lemma nth_error_repeat {A} (a : A) n i b : nth_error (repeat a n) i = Some b -> b = a.
Proof.
  revert i. induction n as [|n IH]; intros [|i]; simpl; intros H; try discriminate.
  - inversion H. reflexivity.
  - apply (IH i H).
Qed.

Lemma Inv_init : Inv (g_init d0 (length progs)).
Proof.
  constructor; simpl.
  - exact Hwf0.
  - reflexivity.
  - reflexivity.
  - apply repeat_length.
  - exists r0. split; [exact Hrow0|]. simpl. lia.
  - unfold lock_ok. simpl. intros i w H. apply nth_error_repeat in H. subst. discriminate.
  - intros i w H. apply nth_error_repeat in H. subst. split.
    + intros r Hr. discriminate.
    + split; simpl; [discriminate|]. intros [H|H]; discriminate.
  - intros i w p H _. apply nth_error_repeat in H. subst. unfold results_ok. simpl.
    split; [reflexivity|]. split; [intros [|a] v H; discriminate|]. split; [reflexivity|].
    split; [intros _; split; [constructor|reflexivity]|].
    split; [intros [H|H]; discriminate|]. split; lia.
  - unfold view_of_db. rewrite Hrow0. eexists. split; reflexivity.
  - reflexivity.
  - intros e [].
Qed.

(* ------------------------------------------------------------------ reading *)
Lemma my_db_eq g i w : Inv g -> nth_error (g_ws g) i = Some w -> w_pc w <> AtC -> my_db g i = g_db g.
Proof.
  intros HI Hw Hpc. unfold my_db. pose proof (i_lock g HI) as HL. unfold lock_ok in HL.
  destruct (g_lock g) as [[j d]|]; [|reflexivity].
  destruct (Nat.eqb j i) eqn:E; [|reflexivity]. apply Nat.eqb_eq in E. subst j.
  destruct HL as [w' [p [Hw' [_ [_ [[Hc _]|[_ Hd]]]]]]].
  - rewrite Hw in Hw'. inversion Hw'; subst. contradiction.
  - exact Hd.
Qed.

(* per-worker facts only depend on (db, log) and on the worker itself *)
Lemma hdr_ok_same g g' w : g_db g' = g_db g -> hdr_ok g w -> hdr_ok g' w.
Proof. intros E H r Hr. unfold hdr_ok in H. rewrite E. apply H. exact Hr. Qed.

Lemma results_ok_same g g' i w p : g_log g' = g_log g -> results_ok g i w p -> results_ok g' i w p.
Proof. intros E H. unfold results_ok in *. rewrite E. exact H. Qed.

(* generic: a step that only replaces worker i (not going to / coming from AtC), keeps db and log, and keeps or
   releases an empty lock *)
Lemma Inv_local g i w w' lock' :
  Inv g -> nth_error (g_ws g) i = Some w ->
  w_pc w <> AtC -> w_pc w' <> AtC ->
  (lock' = g_lock g \/ (lock_free_for g i = true /\ (lock' = None \/ lock' = Some (i, g_db g)))) ->
  (hdr_ok g w' /\ shape_ok w') ->
  (forall p, nth_error progs i = Some p -> results_ok g i w' p) ->
  forall b, Inv (mk_g (g_db g) lock' (set_nth i w' (g_ws g)) (g_log g) b).
Proof.
  intros HI Hw Hpc Hpc' Hlock Hh Hr b.
  pose proof (nth_error_lt _ _ _ Hw) as Hlt.
  constructor; simpl; try (apply HI).
  - rewrite length_set_nth. apply HI.
  - (* lock *)
    pose proof (i_lock g HI) as HL. unfold lock_ok in *. simpl.
    assert (Hnc : forall j wj, nth_error (set_nth i w' (g_ws g)) j = Some wj ->
                  (j = i /\ wj = w') \/ (j <> i /\ nth_error (g_ws g) j = Some wj)).
    { intros j wj Hj. destruct (Nat.eq_dec j i) as [->|Hne].
      - rewrite nth_error_set_nth_eq in Hj by exact Hlt. inversion Hj. auto.
      - rewrite nth_error_set_nth_neq in Hj by congruence. auto. }
    destruct Hlock as [->|[Hfree [->| ->]]].
    + destruct (g_lock g) as [[j d]|].
      * destruct HL as [wj [p [Hwj [Hp [Hoth Hcase]]]]].
        destruct (Nat.eq_dec j i) as [->|Hne].
        -- rewrite Hw in Hwj. inversion Hwj; subst wj.
           exists w', p. rewrite nth_error_set_nth_eq by exact Hlt. split; [reflexivity|]. split; [exact Hp|]. split.
           ++ intros k wk Hk Hwk. rewrite nth_error_set_nth_neq in Hwk by congruence. eapply Hoth; eauto.
           ++ right. split; [exact Hpc'|]. destruct Hcase as [[Hc _]|[_ Hd]]; [contradiction|exact Hd].
        -- exists wj, p. rewrite nth_error_set_nth_neq by congruence. split; [exact Hwj|]. split; [exact Hp|]. split.
           ++ intros k wk Hk Hwk. destruct (Hnc k wk Hwk) as [[-> ->]|[_ Hwk']]; [exact Hpc'|eapply Hoth; eauto].
           ++ exact Hcase.
      * intros j wj Hj. destruct (Hnc j wj Hj) as [[-> ->]|[_ Hj']]; [exact Hpc'|eapply HL; eauto].
    + (* released *)
      intros j wj Hj. destruct (Hnc j wj Hj) as [[-> ->]|[Hne Hj']]; [exact Hpc'|].
      unfold lock_free_for in Hfree. destruct (g_lock g) as [[k d]|].
      * apply Nat.eqb_eq in Hfree. subst k. destruct HL as [wk [p [_ [_ [Hoth _]]]]]. eapply Hoth; eauto.
      * eapply HL; eauto.
    + (* kept / taken with nothing pending *)
      unfold lock_free_for in Hfree.
      assert (Hoth : forall k wk, k <> i -> nth_error (g_ws g) k = Some wk -> w_pc wk <> AtC).
      { destruct (g_lock g) as [[k d]|].
        - apply Nat.eqb_eq in Hfree. subst k. destruct HL as [wk [p [_ [_ [Hoth _]]]]]. exact Hoth.
        - intros k wk _ Hk. eapply HL; eauto. }
      destruct (nth_error progs i) as [p|] eqn:Hp.
      * exists w', p. rewrite nth_error_set_nth_eq by exact Hlt. split; [reflexivity|]. split; [reflexivity|]. split.
        -- intros k wk Hk Hwk. rewrite nth_error_set_nth_neq in Hwk by congruence. eapply Hoth; eauto.
        -- right. split; [exact Hpc'|reflexivity].
      * exfalso. apply nth_error_None in Hp. rewrite <- (i_len g HI) in Hp. lia.
  - intros j wj Hj. destruct (Nat.eq_dec j i) as [->|Hne].
    + rewrite nth_error_set_nth_eq in Hj by exact Hlt. inversion Hj; subst. exact Hh.
    + rewrite nth_error_set_nth_neq in Hj by congruence. apply (i_hdr g HI j wj Hj).
  - intros j wj p Hj Hp. destruct (Nat.eq_dec j i) as [->|Hne].
    + rewrite nth_error_set_nth_eq in Hj by exact Hlt. inversion Hj; subst. apply Hr. exact Hp.
    + rewrite nth_error_set_nth_neq in Hj by congruence. apply (i_res g HI j wj p Hj Hp).
Qed.

Lemma Inv_bad g : Inv g -> Inv (bad g).
Proof. intros HI. destruct HI. constructor; simpl; auto. Qed.

Lemma results_ok_keep g i w w' p :
  w_results w' = w_results w -> w_bases w' = w_bases w -> w_used w' = w_used w ->
  ((active (w_pc w) /\ active (w_pc w')) \/ (finished (w_pc w) /\ finished (w_pc w'))) ->
  results_ok g i w p -> results_ok g i w' p.
Proof.
  intros E1 E2 E3 Hpc [A [B [C [D [E [F G]]]]]]. unfold results_ok. rewrite E1, E2, E3.
  split; [exact A|]. split; [exact B|]. split; [exact C|].
  destruct Hpc as [[Ha Ha']|[Hf Hf']].
  - split; [intros _; apply D; exact Ha|]. split; [|split; assumption].
    intros Hfin. exfalso. unfold active, finished in *. intuition congruence.
  - split; [|split; [intros _; apply E; exact Hf|split; assumption]].
    intros Hact. exfalso. unfold active, finished in *. intuition congruence.
Qed.

(* ---- S : SELECT the stage row *)
Lemma Inv_step_S g i w : Inv g -> nth_error (g_ws g) i = Some w -> w_pc w = AtS -> Inv (step_S sid g i w).
Proof.
  intros HI Hw Hpc. unfold step_S.
  rewrite (my_db_eq g i w HI Hw) by congruence.
  destruct (i_row g HI) as [cur [Hcur _]]. rewrite Hcur. unfold put.
  apply (Inv_local g i w); auto; simpl; try congruence.
  - split.
    + intros r Hr. simpl in Hr. inversion Hr; subst r. split; [apply (find_stage_id _ _ _ Hcur)|].
      exists cur. split; [exact Hcur|]. split; [lia|]. intros _. split; [reflexivity|]. intros n Hn. discriminate.
    + split; simpl; [discriminate|]. intros [H|H]; discriminate.
  - intros p Hp. apply (results_ok_keep g i w _ p); simpl; auto.
    + left. unfold active. rewrite Hpc. auto.
    + apply (i_res g HI i w p Hw Hp).
Qed.

(* ---- T : SELECT its tasks (a later, separate snapshot) *)
Lemma Inv_step_T g i w : Inv g -> nth_error (g_ws g) i = Some w -> w_pc w = AtT -> Inv (step_T sid g i w).
Proof.
  intros HI Hw Hpc. unfold step_T.
  destruct (i_hdr g HI i w Hw) as [Hh [Hs1 _]].
  destruct (w_hdr w) as [r|] eqn:Hr; [|exfalso; apply (Hs1 Hpc); reflexivity].
  rewrite (my_db_eq g i w HI Hw) by congruence. unfold put.
  apply (Inv_local g i w); auto; simpl; try congruence.
  - split.
    + intros r' Hr'. simpl in Hr'. inversion Hr'; subst r'.
      destruct (Hh r Hr) as [Hid [cur [Hcur [Hle Heq]]]]. split; [exact Hid|].
      exists cur. split; [exact Hcur|]. split; [exact Hle|]. intros E. destruct (Heq E) as [-> _].
      split; [reflexivity|]. intros n Hn. simpl in Hn. inversion Hn. reflexivity.
    + split; simpl; [discriminate|]. intros _. exists r. eexists. split; [reflexivity|]. split; reflexivity.
  - intros p Hp. apply (results_ok_keep g i w _ p); simpl; auto.
    + left. unfold active. rewrite Hpc. auto.
    + apply (i_res g HI i w p Hw Hp).
Qed.

(* ---- E : the thread's next committing operation *)
Lemma Inv_step_E g i w : Inv g -> nth_error (g_ws g) i = Some w -> w_pc w = AtE -> Inv (step_E g i w).
Proof.
  intros HI Hw Hpc. unfold step_E. destruct (lock_free_for g i) eqn:Hfree; simpl; [|apply Inv_bad; exact HI].
  rewrite (my_db_eq g i w HI Hw) by congruence.
  apply (Inv_local g i w); auto; simpl; try congruence.
  - split.
    + intros r Hr. discriminate.
    + split; simpl; [discriminate|]. intros [H|H]; discriminate.
  - intros p Hp. apply (results_ok_keep g i w _ p); simpl; auto.
    + right. unfold finished. rewrite Hpc. auto.
    + apply (i_res g HI i w p Hw Hp).
Qed.

(* ---- U : UPDATE stage_executions … + task upserts (the compare-and-swap) *)
Lemma fresh_new_now g p : Inv g -> In p progs -> fresh_new sid (p_mod p) (d_tasks (g_db g)).
Proof. intros HI Hp. unfold fresh_new. rewrite (i_others g HI). apply Hfresh0. exact Hp. Qed.

Lemma filter_app_single {A} (f : A -> bool) l a : filter f (l ++ [a]) = filter f l ++ (if f a then [a] else []).
Proof. rewrite filter_app. reflexivity. Qed.

Lemma results_ok_fail g i w p v : active (w_pc w) -> results_ok g i w p -> results_ok g i (after_failure p w ConcErr v) p.
Proof.
  intros Hact [A [B [C [D [_ [F G]]]]]]. destruct (D Hact) as [D1 D2].
  unfold after_failure. simpl. destruct (Nat.ltb (w_used w) (p_tries p)) eqn:Hlt; unfold results_ok; simpl.
  - apply Nat.ltb_lt in Hlt.
    split; [rewrite !app_length; simpl; lia|].
    split.
    { intros a v' Ha Hv. destruct (Nat.lt_ge_cases a (length (w_results w))) as [Hl|Hl].
      - rewrite nth_error_app1 in Ha by exact Hl. rewrite nth_error_app1 in Hv by lia. eapply B; eauto.
      - rewrite nth_error_app2 in Ha by exact Hl. destruct (a - length (w_results w))%nat as [|[|q]]; simpl in Ha; discriminate. }
    split; [rewrite filter_app_single; simpl; rewrite app_nil_r; exact C|].
    split.
    { intros _. split; [apply Forall_app; split; [exact D1|constructor; [reflexivity|constructor]]|].
      rewrite app_length. simpl. lia. }
    split; [intros [H|H]; discriminate|]. split; lia.
  - apply Nat.ltb_ge in Hlt.
    split; [rewrite !app_length; simpl; lia|].
    split.
    { intros a v' Ha Hv. destruct (Nat.lt_ge_cases a (length (w_results w))) as [Hl|Hl].
      - rewrite nth_error_app1 in Ha by exact Hl. rewrite nth_error_app1 in Hv by lia. eapply B; eauto.
      - rewrite nth_error_app2 in Ha by exact Hl. destruct (a - length (w_results w))%nat as [|[|q]]; simpl in Ha; discriminate. }
    split; [rewrite filter_app_single; simpl; rewrite app_nil_r; exact C|].
    split; [intros Ha; exfalso; unfold active in Ha; intuition discriminate|].
    split.
    { intros _. split; [rewrite app_length; simpl; lia|].
      exists (w_results w), ConcErr. split; [reflexivity|]. split; [exact D1|]. right. split; [reflexivity|exact Hlt]. }
    split; assumption.
Qed.

Lemma Inv_take g i w p d' cur n :
  Inv g -> nth_error (g_ws g) i = Some w -> nth_error progs i = Some p -> w_pc w = AtU -> lock_free_for g i = true ->
  find_stage sid (d_stages (g_db g)) = Some cur -> w_snap w = Some n -> n_ver n = s_ver cur ->
  fresh_result (g_db g) (p_mod p) cur d' ->
  Inv (mk_g (g_db g) (Some (i, d'))
            (set_nth i (mk_w AtC (w_used w) (w_hdr w) (w_snap w) (w_results w) (w_bases w)) (g_ws g)) (g_log g) (g_bad g)).
Proof.
  intros HI Hw Hp Hpc Hfree Hcur Hn Hv Hres.
  pose proof (nth_error_lt _ _ _ Hw) as Hlt.
  constructor; simpl; try (apply HI).
  - rewrite length_set_nth. apply HI.
  - unfold lock_ok. simpl. eexists. exists p. rewrite nth_error_set_nth_eq by exact Hlt.
    split; [reflexivity|]. split; [exact Hp|]. split.
    + intros k wk Hk Hwk. rewrite nth_error_set_nth_neq in Hwk by congruence.
      pose proof (i_lock g HI) as HL. unfold lock_ok in HL. unfold lock_free_for in Hfree.
      destruct (g_lock g) as [[j d]|].
      * apply Nat.eqb_eq in Hfree. subst j. destruct HL as [wj [pj [_ [_ [Hoth _]]]]]. eapply Hoth; eauto.
      * eapply HL; eauto.
    + left. simpl. split; [reflexivity|]. exists cur, n. auto.
  - intros j wj Hj. destruct (Nat.eq_dec j i) as [->|Hne].
    + rewrite nth_error_set_nth_eq in Hj by exact Hlt. inversion Hj; subst wj.
      destruct (i_hdr g HI i w Hw) as [Hh [Hs1 Hs2]]. split.
      * intros r Hr. simpl in Hr. destruct (Hh r Hr) as [A [c [B [C D]]]]. split; [exact A|]. exists c. auto.
      * split; simpl; [discriminate|]. intros _. apply Hs2. left. exact Hpc.
    + rewrite nth_error_set_nth_neq in Hj by congruence. apply (i_hdr g HI j wj Hj).
  - intros j wj pj Hj Hpj. destruct (Nat.eq_dec j i) as [->|Hne].
    + rewrite nth_error_set_nth_eq in Hj by exact Hlt. inversion Hj; subst wj.
      apply (results_ok_keep (mk_g (g_db g) (Some (i, d')) (set_nth i (mk_w AtC (w_used w) (w_hdr w) (w_snap w) (w_results w) (w_bases w)) (g_ws g)) (g_log g) (g_bad g)) i w); simpl; auto.
      * left. unfold active. rewrite Hpc. simpl. auto.
      * apply (results_ok_same g); [reflexivity|]. apply (i_res g HI i w pj Hw Hpj).
    + rewrite nth_error_set_nth_neq in Hj by congruence.
      apply (results_ok_same g); [reflexivity|]. apply (i_res g HI j wj pj Hj Hpj).
Qed.

Lemma Inv_step_U g i w p :
  Inv g -> nth_error (g_ws g) i = Some w -> nth_error progs i = Some p -> w_pc w = AtU -> Inv (step_U x g i p w).
Proof.
  intros HI Hw Hp Hpc. unfold step_U.
  destruct (i_hdr g HI i w Hw) as [Hh [_ Hs2]].
  destruct (Hs2 (or_introl Hpc)) as [r [n [Hr [Hn En]]]]. rewrite Hn.
  rewrite (Hclean0 p (nth_error_In _ _ Hp)).
  destruct (lock_free_for g i) eqn:Hfree; simpl; [|apply Inv_bad; exact HI].
  rewrite (my_db_eq g i w HI Hw) by congruence.
  destruct (Hh r Hr) as [Hid [cur [Hcur [Hle Heq]]]].
  pose proof (good_store_of x (p_variant p) Hgood) as Hgs.
  pose proof (good_inv x Hgood) as [_ [_ [Hgk _]]].
  destruct (i_wf g HI) as [Hns Hnt].
  set (ph := phase_of (p_phase p) (n_status n)).
  assert (Hnid : n_id (apply_mod (p_mod p) n) = sid) by (rewrite En; simpl; exact Hid).
  assert (Hnver : n_ver (apply_mod (p_mod p) n) = s_ver r) by (rewrite En; reflexivity).
  destruct ((s_ver cur =? s_ver r) && phase_ok ph cur) eqn:Hb.
  - (* the snapshot is current: the save goes through, the transaction is open until C *)
    apply andb_true_iff in Hb. destruct Hb as [Hb1 Hb2]. apply Z.eqb_eq in Hb1.
    destruct (Heq (eq_sym Hb1)) as [Ercur Htasks]. subst r.
    assert (En' : n = snap_of cur (read_tasks sid (g_db g))) by (rewrite En; rewrite (Htasks n Hn); reflexivity).
    destruct (store_fresh (store_shape_of x (p_variant p)) (x_task x) (g_db g) (p_mod p) ph cur sid Hgs Hgk (i_wf g HI) Hcur Hb2)
      as [d' [n'' [Est Hres]]].
    { apply fresh_new_now; [exact HI|]. eapply nth_error_In; eauto. }
    rewrite <- En' in Est. rewrite Est. rewrite (good_commits x (p_variant p) Hgood).
    rewrite <- Hn.
    apply (Inv_take g i w p d' cur n); auto;
      try (rewrite En'; reflexivity); try (unfold fresh_result; rewrite <- En'; exact Hres).
  - (* stale version or wrong phase: ConcurrencyError, nothing written *)
    rewrite (store_conflict (store_shape_of x (p_variant p)) (x_task x) (g_db g) (apply_mod (p_mod p) n) ph cur Hgs Hns).
    2:{ rewrite Hnid. exact Hcur. }
    2:{ rewrite Hnver. exact Hb. }
    apply (Inv_local g i w); auto; try congruence.
    + unfold after_failure. simpl. destruct (Nat.ltb (w_used w) (p_tries p)); simpl; discriminate.
    + right. split; [exact Hfree|]. destruct (rollback_of x (p_variant p)); auto.
    + unfold after_failure. simpl. destruct (Nat.ltb (w_used w) (p_tries p)); simpl; (split; [intros r' Hr'; discriminate|]);
        (split; simpl; [discriminate|intros [H|H]; discriminate]).
    + intros p' Hp'. rewrite Hp in Hp'. inversion Hp'; subst p'. apply results_ok_fail.
      * unfold active. rewrite Hpc. auto.
      * apply (i_res g HI i w p Hw Hp).
Qed.

(* ---- C : COMMIT *)
Lemma view_after d m cur d' v :
  find_stage sid (d_stages d) = Some cur -> view_of_db sid d = Some v -> fresh_result d m cur d' ->
  view_of_db sid d' = Some (apply_view m v).
Proof.
  unfold view_of_db. intros Hc Hv [F1 [_ [F3 _]]]. rewrite Hc in Hv. inversion Hv as [Hv']. rewrite F1. f_equal.
  rewrite <- view_apply_mod. unfold view_of_snap at 1. simpl. unfold view_of_snap. f_equal. exact F3.
Qed.

Lemma results_ok_other g i j w p v :
  i <> j -> results_ok g j w p ->
  results_ok (mk_g (g_db g) (g_lock g) (g_ws g) (g_log g ++ [(i, v)]) (g_bad g)) j w p.
Proof.
  intros Hne [A [B [C D]]]. unfold results_ok. simpl.
  split; [exact A|]. split.
  - intros a v' Ha Hv. apply in_or_app. left. eapply B; eauto.
  - split; [|exact D]. rewrite filter_app_single. unfold by_worker at 2. simpl.
    replace (Nat.eqb i j) with false by (symmetry; apply Nat.eqb_neq; exact Hne). rewrite app_nil_r. exact C.
Qed.

Lemma Inv_step_C g i w : Inv g -> nth_error (g_ws g) i = Some w -> w_pc w = AtC -> Inv (step_C g i w).
Proof.
  intros HI Hw Hpc. unfold step_C.
  pose proof (i_lock g HI) as HL. unfold lock_ok in HL.
  destruct (g_lock g) as [[j d]|] eqn:Hlock; [|exfalso; apply (HL i w Hw Hpc)].
  destruct HL as [wj [p [Hwj [Hp [Hoth Hcase]]]]].
  destruct (Nat.eq_dec j i) as [->|Hne]; [|exfalso; apply (Hoth i w (not_eq_sym Hne) Hw Hpc)].
  rewrite Hw in Hwj. inversion Hwj; subst wj.
  destruct Hcase as [[_ [cur [n [Hcur [Hn [Hv Hres]]]]]]|[Hc _]]; [|contradiction].
  rewrite Hn, Nat.eqb_refl.
  pose proof (nth_error_lt _ _ _ Hw) as Hlt.
  pose proof Hres as [F1 [F2 [F3 [F4 F5]]]].
  destruct (i_row g HI) as [cur' [Hcur' Hver]]. rewrite Hcur in Hcur'. inversion Hcur'; subst cur'.
  assert (Hnc : forall k wk, nth_error (set_nth i (mk_w AtE (w_used w) None None (w_results w ++ [Ok]) (w_bases w ++ [n_ver n])) (g_ws g)) k = Some wk ->
                (k = i /\ wk = mk_w AtE (w_used w) None None (w_results w ++ [Ok]) (w_bases w ++ [n_ver n])) \/ (k <> i /\ nth_error (g_ws g) k = Some wk)).
  { intros k wk Hk. destruct (Nat.eq_dec k i) as [->|Hnk].
    - rewrite nth_error_set_nth_eq in Hk by exact Hlt. inversion Hk. auto.
    - rewrite nth_error_set_nth_neq in Hk by congruence. auto. }
  constructor; simpl.
  - exact F5.
  - rewrite F4. apply HI.
  - intros sid' Hs. rewrite (F2 sid' Hs). apply (i_frame g HI). exact Hs.
  - rewrite length_set_nth. apply HI.
  - eexists. split; [exact F1|]. simpl. rewrite app_length. simpl. lia.
  - unfold lock_ok. simpl. intros k wk Hk. destruct (Hnc k wk Hk) as [[-> ->]|[Hnk Hk']]; [simpl; discriminate|].
    eapply Hoth; eauto.
  - intros k wk Hk. destruct (Hnc k wk Hk) as [[-> ->]|[Hnk Hk']].
    + split; [intros r Hr; discriminate|]. split; simpl; [discriminate|intros [H|H]; discriminate].
    + destruct (i_hdr g HI k wk Hk') as [Hh Hs]. split; [|exact Hs].
      intros r Hr. destruct (Hh r Hr) as [A [c [B [C D]]]]. split; [exact A|].
      rewrite Hcur in B. inversion B; subst c.
      eexists. split; [exact F1|]. simpl. split; [lia|]. intros E. exfalso. lia.
  - intros k wk pk Hk Hpk. destruct (Hnc k wk Hk) as [[-> ->]|[Hnk Hk']].
    + rewrite Hp in Hpk. inversion Hpk; subst pk.
      destruct (i_res g HI i w p Hw Hp) as [A [B [C [D [_ [F G]]]]]].
      assert (Hact : active (w_pc w)) by (unfold active; rewrite Hpc; auto).
      destruct (D Hact) as [D1 D2].
      unfold results_ok. simpl.
      split; [rewrite !app_length; simpl; lia|].
      split.
      { intros a v' Ha Hv'. destruct (Nat.lt_ge_cases a (length (w_results w))) as [Hl|Hl].
        - rewrite nth_error_app1 in Ha by exact Hl. rewrite nth_error_app1 in Hv' by lia.
          apply in_or_app. left. eapply B; eauto.
        - rewrite nth_error_app2 in Hv' by lia. rewrite nth_error_app2 in Ha by exact Hl.
          destruct (a - length (w_results w))%nat as [|q] eqn:Eq; [|destruct q; simpl in Ha; discriminate].
          replace (a - length (w_bases w))%nat with 0%nat in Hv' by lia. simpl in Hv'. inversion Hv'; subst v'.
          apply in_or_app. right. left. reflexivity. }
      split.
      { rewrite !filter_app_single. unfold by_worker at 2. simpl. rewrite Nat.eqb_refl. rewrite !app_length. simpl. lia. }
      split; [intros Ha; exfalso; unfold active in Ha; simpl in Ha; intuition discriminate|].
      split.
      { intros _. split; [rewrite app_length; simpl; lia|].
        exists (w_results w), Ok. split; [reflexivity|]. split; [exact D1|]. left. reflexivity. }
      split; assumption.
    + pose proof (results_ok_other g i k wk pk (n_ver n) (not_eq_sym Hnk) (i_res g HI k wk pk Hk' Hpk)) as H.
      unfold results_ok in *. simpl in *. exact H.
  - destruct (i_view g HI) as [v0 [Hv0 Hvg]]. exists v0. split; [exact Hv0|].
    rewrite (view_after (g_db g) (p_mod p) cur d _ Hcur Hvg Hres). f_equal.
    unfold replay_log. rewrite fold_left_app. simpl. rewrite Hp. reflexivity.
  - rewrite map_app, app_length. simpl. rewrite Nat.add_1_r. rewrite seq_S, map_app. simpl.
    rewrite <- (i_chain g HI). f_equal. f_equal. lia.
  - intros e He. apply in_app_or in He. destruct He as [He|[<-|[]]]; [apply (i_logw g HI e He)|].
    simpl. rewrite <- (i_len g HI). exact Hlt.
Qed.

(* ------------------------------------------------------------------ every step, every schedule *)
Lemma Inv_step g e : Inv g -> Inv (step x sid progs g e).
Proof.
  intros HI. destruct e as [i k]. unfold step.
  destruct (nth_error (g_ws g) i) as [w|] eqn:Hw; [|apply Inv_bad; exact HI].
  destruct (nth_error progs i) as [p|] eqn:Hp; [|apply Inv_bad; exact HI].
  destruct (negb (pc_eqb (w_pc w) k)); [apply Inv_bad; exact HI|].
  destruct (w_pc w) eqn:Hpc.
  - apply Inv_step_S; auto.
  - apply Inv_step_T; auto.
  - apply Inv_step_U; auto.
  - apply Inv_step_C; auto.
  - apply Inv_step_E; auto.
  - apply Inv_bad; exact HI.
Qed.

Theorem Inv_run sched : forall g, Inv g -> Inv (run x sid progs g sched).
Proof.
  induction sched as [|e sched IH]; intros g HI; simpl; [exact HI|]. apply IH. apply Inv_step. exact HI.
Qed.

End Run.

(* ================================================================== consequences, in the form coq/props/C07.v exports *)
Definition reachable (x : shapes) (sid : Z) (progs : list prog) (d0 : db) (g : gstate) : Prop :=
  exists sched, g = run x sid progs (g_init d0 (length progs)) sched.

Definition good_start (sid : Z) (progs : list prog) (d0 : db) : Prop :=
  wf_db d0 /\ (exists r0, find_stage sid (d_stages d0) = Some r0)
  /\ (forall p, In p progs -> fresh_new sid (p_mod p) (d_tasks d0))
  /\ (forall p, In p progs -> p_poison p = false).

Lemma reachable_Inv x sid progs d0 g : good x = true -> good_start sid progs d0 -> reachable x sid progs d0 g ->
  exists r0, find_stage sid (d_stages d0) = Some r0 /\ Inv sid progs d0 r0 g.
Proof.
  intros Hg [Hwf [[r0 Hr0] [Hf Hc]]] [sched ->]. exists r0. split; [exact Hr0|].
  apply (Inv_run x Hg sid progs d0 r0 Hf Hc). apply Inv_init; auto.
Qed.

Lemma reachable_step x sid progs d0 g e : reachable x sid progs d0 g -> reachable x sid progs d0 (step x sid progs g e).
Proof.
  intros [sched ->]. exists (sched ++ [e]). unfold run. rewrite fold_left_app. reflexivity.
Qed.

(* ---- function level *)
Lemma store_stages_part s k d n ph : existsb (fun r => s_id r =? n_id n) (d_stages d) = true ->
  d_stages (fst (fst (store_stmts s k d n ph))) = update_stages (upd_of s ph) n ph (d_stages d).
Proof.
  intros H. unfold store_stmts. rewrite H.
  change (match ph with Some _ => sh_phase s | None => sh_nophase s end) with (upd_of s ph).
  destruct (negb (existsb (stage_matches (upd_of s ph) n ph) (d_stages d)) && sh_rowcount s); [reflexivity|].
  destruct (sh_upserts s); [|reflexivity].
  destruct (upsert_all k (n_id n) _ (n_tasks n)) as [[tl ts'] r]. reflexivity.
Qed.

Lemma store_ok_inv s k d n ph r d' n' : good_store s = true -> NoDup (map s_id (d_stages d)) ->
  find_stage (n_id n) (d_stages d) = Some r -> store_stmts s k d n ph = (d', n', Ok) ->
  s_ver r = n_ver n /\ phase_ok ph r = true
  /\ find_stage (n_id n) (d_stages d') = Some (mk_srow (n_id n) (s_ver r + 1) (n_status n) (n_pay n))
  /\ NoDup (map s_id (d_stages d')).
Proof.
  intros Hg Hnd Hf Hst.
  destruct ((s_ver r =? n_ver n) && phase_ok ph r) eqn:Hb.
  - apply andb_true_iff in Hb. destruct Hb as [Hb1 Hb2]. apply Z.eqb_eq in Hb1. split; [exact Hb1|]. split; [exact Hb2|].
    pose proof (store_stages_part s k d n ph (find_stage_exists _ _ _ Hf)) as Hp. rewrite Hst in Hp. simpl in Hp.
    rewrite Hp. split; [|rewrite update_stages_ids; exact Hnd].
    rewrite find_stage_update, Hf. simpl. rewrite stage_matches_good by auto.
    rewrite (find_stage_id _ _ _ Hf), Z.eqb_refl. simpl. rewrite Hb1, Z.eqb_refl, Hb2. simpl.
    rewrite stage_set_good by auto. rewrite (find_stage_id _ _ _ Hf). rewrite Hb1. reflexivity.
  - rewrite (store_conflict s k d n ph r Hg Hnd Hf Hb) in Hst. discriminate.
Qed.

(* of two saves computed from the same version of a row, the second one fails and changes nothing *)
Lemma cas_exclusive s1 s2 k d n1 n2 ph1 ph2 r d1 n1' :
  good_store s1 = true -> good_store s2 = true -> NoDup (map s_id (d_stages d)) ->
  find_stage (n_id n1) (d_stages d) = Some r -> n_id n2 = n_id n1 -> n_ver n2 = n_ver n1 ->
  store_stmts s1 k d n1 ph1 = (d1, n1', Ok) ->
  store_stmts s2 k d1 n2 ph2 = (d1, n2, ConcErr).
Proof.
  intros Hg1 Hg2 Hnd Hf Hid Hver Hst.
  destruct (store_ok_inv s1 k d n1 ph1 r d1 n1' Hg1 Hnd Hf Hst) as [Hv [_ [Hf1 Hnd1]]].
  rewrite <- Hid in Hf1.
  apply (store_conflict s2 k d1 n2 ph2 _ Hg2 Hnd1 Hf1). simpl.
  replace (s_ver r + 1 =? n_ver n2) with false; [reflexivity|]. symmetry. apply Z.eqb_neq. lia.
Qed.

Lemma store_frame s k d n ph sid' : good_store s = true ->
  existsb (fun r => s_id r =? n_id n) (d_stages d) = true -> sid' <> n_id n ->
  find_stage sid' (d_stages (fst (fst (store_stmts s k d n ph)))) = find_stage sid' (d_stages d).
Proof. intros Hg He Hne. rewrite store_stages_part by exact He. apply update_stages_frame; auto. Qed.

(* ---- run level *)
Section Consequences.
Variable x : shapes.
Hypothesis Hgood : good x = true.
Variable sid : Z.
Variable progs : list prog.
Variable d0 : db.
Hypothesis Hstart : good_start sid progs d0.

Lemma run_linearizable g : reachable x sid progs d0 g ->
  exists v0 r0 cur,
    view_of_db sid d0 = Some v0 /\ find_stage sid (d_stages d0) = Some r0
    /\ view_of_db sid (g_db g) = Some (replay_log progs (g_log g) v0)
    /\ find_stage sid (d_stages (g_db g)) = Some cur /\ s_ver cur = s_ver r0 + Z.of_nat (length (g_log g))
    /\ (forall i w, nth_error (g_ws g) i = Some w ->
          length (filter (by_worker i) (g_log g)) = length (filter is_ok (w_results w))
          /\ (length (filter is_ok (w_results w)) <= 1)%nat)
    /\ (forall e, In e (g_log g) -> (fst e < length progs)%nat)
    /\ (forall sid', sid' <> sid -> find_stage sid' (d_stages (g_db g)) = find_stage sid' (d_stages d0))
    /\ others sid (d_tasks (g_db g)) = others sid (d_tasks d0).
Proof.
  intros Hr. destruct (reachable_Inv x sid progs d0 g Hgood Hstart Hr) as [r0 [Hr0 HI]].
  destruct (i_view _ _ _ _ g HI) as [v0 [Hv0 Hv]]. destruct (i_row _ _ _ _ g HI) as [cur [Hcur Hver]].
  exists v0, r0, cur. repeat split; auto; try (apply HI).
  - destruct (nth_error progs i) as [p|] eqn:Hp.
    + destruct (i_res _ _ _ _ g HI i w p H Hp) as [_ [_ [C _]]]. exact C.
    + apply nth_error_None in Hp. apply nth_error_lt in H. rewrite (i_len _ _ _ _ g HI) in H. lia.
  - destruct (nth_error progs i) as [p|] eqn:Hp.
    + destruct (i_res _ _ _ _ g HI i w p H Hp) as [_ [_ [_ [D [E _]]]]].
      assert (Hcase : active (w_pc w) \/ finished (w_pc w)) by (unfold active, finished; destruct (w_pc w); auto 6).
      destruct Hcase as [Ha|Hf].
      * destruct (D Ha) as [D1 _]. replace (filter is_ok (w_results w)) with (@nil res); [simpl; lia|].
        symmetry. apply filter_none. intros a Ha'. rewrite Forall_forall in D1. rewrite <- (D1 a Ha'). reflexivity.
      * destruct (E Hf) as [_ [pre [last [E1 [E2 _]]]]]. rewrite E1, filter_app.
        replace (filter is_ok pre) with (@nil res).
        -- simpl. destruct (is_ok last); simpl; lia.
        -- symmetry. apply filter_none. intros a Ha'. rewrite Forall_forall in E2. rewrite <- (E2 a Ha'). reflexivity.
    + apply nth_error_None in Hp. apply nth_error_lt in H. rewrite (i_len _ _ _ _ g HI) in H. lia.
Qed.

Lemma seq_versions_nodup (b : Z) n : NoDup (map (fun k => b + Z.of_nat k) (seq 0 n)).
Proof.
  apply FinFun.Injective_map_NoDup; [|apply seq_NoDup]. intros a c H. lia.
Qed.

Lemma ok_index_unique (rs : list res) pre last a : rs = pre ++ [last] -> Forall (eq ConcErr) pre ->
  nth_error rs a = Some Ok -> a = length pre.
Proof.
  intros -> Hpre Ha. destruct (Nat.lt_ge_cases a (length pre)) as [Hl|Hl].
  - rewrite nth_error_app1 in Ha by exact Hl. apply nth_error_In in Ha. rewrite Forall_forall in Hpre.
    specialize (Hpre _ Ha). discriminate.
  - rewrite nth_error_app2 in Ha by exact Hl. destruct (a - length pre)%nat as [|q] eqn:E; [lia|].
    destruct q; simpl in Ha; discriminate.
Qed.

Lemma run_one_success_per_version g i j wi wj a b v : reachable x sid progs d0 g ->
  nth_error (g_ws g) i = Some wi -> nth_error (g_ws g) j = Some wj ->
  nth_error (w_results wi) a = Some Ok -> nth_error (w_bases wi) a = Some v ->
  nth_error (w_results wj) b = Some Ok -> nth_error (w_bases wj) b = Some v ->
  i = j /\ a = b.
Proof.
  intros Hr Hi Hj Ha Hva Hb Hvb. destruct (reachable_Inv x sid progs d0 g Hgood Hstart Hr) as [r0 [Hr0 HI]].
  assert (Hp : forall k w, nth_error (g_ws g) k = Some w -> exists p, nth_error progs k = Some p).
  { intros k w Hk. destruct (nth_error progs k) as [p|] eqn:E; [eauto|].
    apply nth_error_None in E. apply nth_error_lt in Hk. rewrite (i_len _ _ _ _ g HI) in Hk. lia. }
  destruct (Hp i wi Hi) as [pi Hpi]. destruct (Hp j wj Hj) as [pj Hpj].
  destruct (i_res _ _ _ _ g HI i wi pi Hi Hpi) as [_ [Bi [_ [Di [Ei _]]]]].
  destruct (i_res _ _ _ _ g HI j wj pj Hj Hpj) as [_ [Bj [_ [Dj [Ej _]]]]].
  pose proof (Bi a v Ha Hva) as Li. pose proof (Bj b v Hb Hvb) as Lj.
  assert (Hnd : NoDup (map snd (g_log g))) by (rewrite (i_chain _ _ _ _ g HI); apply seq_versions_nodup).
  assert (Eij : i = j).
  { assert (E : (i, v) = (j, v)); [|inversion E; reflexivity].
    apply (nodup_key_unique snd (g_log g)); auto. }
  subst j. split; [reflexivity|]. rewrite Hi in Hj. inversion Hj; subst wj.
  assert (Hcase : active (w_pc wi) \/ finished (w_pc wi)) by (unfold active, finished; destruct (w_pc wi); auto 6).
  destruct Hcase as [Hact|Hfin].
  - destruct (Di Hact) as [D1 _]. apply nth_error_In in Ha. rewrite Forall_forall in D1. specialize (D1 _ Ha). discriminate.
  - destruct (Ei Hfin) as [_ [pre [last [E1 [E2 _]]]]].
    rewrite (ok_index_unique _ pre last a E1 E2 Ha), (ok_index_unique _ pre last b E1 E2 Hb). reflexivity.
Qed.

Lemma run_open_txn_empty g j d : reachable x sid progs d0 g -> g_lock g = Some (j, d) ->
  (exists w, nth_error (g_ws g) j = Some w /\ w_pc w = AtC) \/ d = g_db g.
Proof.
  intros Hr Hl. destruct (reachable_Inv x sid progs d0 g Hgood Hstart Hr) as [r0 [Hr0 HI]].
  pose proof (i_lock _ _ _ _ g HI) as HL. unfold lock_ok in HL. rewrite Hl in HL.
  destruct HL as [w [p [Hw [_ [_ [[Hc _]|[_ Hd]]]]]]]; [left; eauto|right; exact Hd].
Qed.

Lemma step_log_grows g e : g_log (step x sid progs g e) = g_log g \/ exists c, g_log (step x sid progs g e) = g_log g ++ [c].
Proof.
  destruct e as [i k]. unfold step.
  destruct (nth_error (g_ws g) i) as [w|]; [|left; reflexivity].
  destruct (nth_error progs i) as [p|]; [|left; reflexivity].
  destruct (negb (pc_eqb (w_pc w) k)); [left; reflexivity|].
  destruct (w_pc w).
  - unfold step_S. destruct (find_stage sid _); left; reflexivity.
  - unfold step_T. destruct (w_hdr w); left; reflexivity.
  - unfold step_U. destruct (w_snap w); [|left; reflexivity].
    destruct (negb (lock_free_for g i)); [left; reflexivity|].
    destruct (store_stmts _ _ _ _ _) as [[d' n'] r]. destruct r; [destruct (commits_of x (p_variant p))|..]; left; reflexivity.
  - unfold step_C. destruct (g_lock g) as [[j d]|]; [|left; reflexivity].
    destruct (w_snap w); [|left; reflexivity]. destruct (Nat.eqb j i); [right; eexists; reflexivity|left; reflexivity].
  - unfold step_E. destruct (negb (lock_free_for g i)); left; reflexivity.
  - left; reflexivity.
Qed.

Lemma run_versions_monotone g e : reachable x sid progs d0 g ->
  exists c c', find_stage sid (d_stages (g_db g)) = Some c
    /\ find_stage sid (d_stages (g_db (step x sid progs g e))) = Some c'
    /\ ((s_ver c' = s_ver c /\ g_log (step x sid progs g e) = g_log g)
        \/ (s_ver c' = s_ver c + 1 /\ exists w, g_log (step x sid progs g e) = g_log g ++ [(w, s_ver c)])).
Proof.
  intros Hr. pose proof (reachable_step x sid progs d0 g e Hr) as Hr'.
  destruct (reachable_Inv x sid progs d0 g Hgood Hstart Hr) as [r0 [Hr0 HI]].
  destruct (reachable_Inv x sid progs d0 _ Hgood Hstart Hr') as [r0' [Hr0' HI']].
  rewrite Hr0 in Hr0'. inversion Hr0'; subst r0'.
  destruct (i_row _ _ _ _ g HI) as [c [Hc Hv]]. destruct (i_row _ _ _ _ _ HI') as [c' [Hc' Hv']].
  exists c, c'. split; [exact Hc|]. split; [exact Hc'|].
  destruct (step_log_grows g e) as [E|[[w v] E]].
  - left. rewrite E in Hv'. split; [lia|exact E].
  - right. rewrite E, app_length in Hv'. simpl in Hv'. split; [lia|].
    exists w. rewrite E. f_equal. f_equal. f_equal.
    pose proof (i_chain _ _ _ _ _ HI') as Hch. rewrite E in Hch. rewrite map_app, app_length in Hch. simpl in Hch.
    rewrite Nat.add_1_r, seq_S, map_app in Hch. simpl in Hch. apply app_inj_tail in Hch. destruct Hch as [_ Hch]. lia.
Qed.

(* a worker whose next step is the write holds a snapshot taken by its own S and T steps of this attempt; if the
   row is still at that version the snapshot IS the committed state *)
Lemma run_snapshot_fresh g i w : reachable x sid progs d0 g -> nth_error (g_ws g) i = Some w -> w_pc w = AtU ->
  exists r n cur, w_hdr w = Some r /\ w_snap w = Some n /\ n = snap_of r (n_tasks n)
    /\ find_stage sid (d_stages (g_db g)) = Some cur /\ s_ver r <= s_ver cur
    /\ (s_ver r = s_ver cur -> n = snap_of cur (read_tasks sid (g_db g))).
Proof.
  intros Hr Hw Hpc. destruct (reachable_Inv x sid progs d0 g Hgood Hstart Hr) as [r0 [Hr0 HI]].
  destruct (i_hdr _ _ _ _ g HI i w Hw) as [Hh [_ Hs]]. destruct (Hs (or_introl Hpc)) as [r [n [Hhr [Hn En]]]].
  destruct (Hh r Hhr) as [_ [cur [Hcur [Hle Heq]]]]. exists r, n, cur. repeat split; auto.
  intros E. destruct (Heq E) as [-> Ht]. rewrite En. rewrite (Ht n Hn). reflexivity.
Qed.

(* the S step of any attempt reads the committed row (also when the thread itself still holds an open, empty
   transaction from a failed plain save) *)
Lemma run_read_is_committed g i w : reachable x sid progs d0 g -> nth_error (g_ws g) i = Some w -> w_pc w = AtS ->
  exists cur w', find_stage sid (d_stages (g_db g)) = Some cur
    /\ nth_error (g_ws (step x sid progs g (i, AtS))) i = Some w' /\ w_hdr w' = Some cur /\ w_pc w' = AtT.
Proof.
  intros Hr Hw Hpc. destruct (reachable_Inv x sid progs d0 g Hgood Hstart Hr) as [r0 [Hr0 HI]].
  destruct (i_row _ _ _ _ g HI) as [cur [Hcur _]].
  assert (Hp : exists p, nth_error progs i = Some p).
  { destruct (nth_error progs i) as [p|] eqn:E; [eauto|].
    apply nth_error_None in E. apply nth_error_lt in Hw. rewrite (i_len _ _ _ _ g HI) in Hw. lia. }
  destruct Hp as [p Hp]. unfold step. rewrite Hw, Hp, Hpc. simpl. unfold step_S.
  rewrite (my_db_eq sid progs d0 r0 g i w HI Hw) by congruence. rewrite Hcur.
  eexists. eexists. split; [reflexivity|]. unfold put. simpl. rewrite nth_error_set_nth_eq by (eapply nth_error_lt; eauto).
  split; [reflexivity|]. split; reflexivity.
Qed.

Lemma run_bounded_retry g i w p : reachable x sid progs d0 g ->
  nth_error (g_ws g) i = Some w -> nth_error progs i = Some p ->
  (w_used w <= Nat.max 1 (p_tries p))%nat
  /\ (active (w_pc w) -> Forall (eq ConcErr) (w_results w) /\ S (length (w_results w)) = w_used w)
  /\ (finished (w_pc w) -> length (w_results w) = w_used w
        /\ exists pre last, w_results w = pre ++ [last] /\ Forall (eq ConcErr) pre
             /\ (last = Ok \/ (last = ConcErr /\ (p_tries p <= w_used w)%nat))).
Proof.
  intros Hr Hw Hp. destruct (reachable_Inv x sid progs d0 g Hgood Hstart Hr) as [r0 [Hr0 HI]].
  destruct (i_res _ _ _ _ g HI i w p Hw Hp) as [_ [_ [_ [D [E [_ G]]]]]]. auto.
Qed.

(* the E step (the thread's next commit) never changes the committed database *)
Lemma run_epilogue_publishes_nothing g i : reachable x sid progs d0 g -> g_db (step x sid progs g (i, AtE)) = g_db g.
Proof.
  intros Hr. destruct (reachable_Inv x sid progs d0 g Hgood Hstart Hr) as [r0 [Hr0 HI]].
  unfold step. destruct (nth_error (g_ws g) i) as [w|] eqn:Hw; [|reflexivity].
  destruct (nth_error progs i) as [p|]; [|reflexivity].
  destruct (pc_eqb (w_pc w) AtE) eqn:Hk; simpl; [|reflexivity].
  destruct (w_pc w) eqn:Hpc; try discriminate.
  unfold step_E. destruct (negb (lock_free_for g i)); [reflexivity|]. simpl.
  apply (my_db_eq sid progs d0 r0 g i w HI Hw). congruence.
Qed.

End Consequences.

(* ---- packaged forms used by coq/props/C07.v *)
Lemma task_cas x sid l t ts : good x = true ->
  NoDup (map t_id l) ->
  (has_row l t -> exists t', upsert_task (x_task x) sid l t = (map (upd_row (x_task x) [t]) l, t', Ok))
  /\ (In (ts_id t) (map t_id l) -> ~ has_row l t ->
        upsert_all (x_task x) sid l (t :: ts) = (l, t :: ts, ConcErr)).
Proof.
  intros Hg Hnd. pose proof (good_inv _ Hg) as [_ [_ [Hk _]]]. split.
  - intros H. destruct (upsert_task_hit _ sid l t Hk Hnd H) as [t' [E _]]. exists t'. exact E.
  - intros Hin Hno. apply upsert_all_stale_head; auto.
Qed.

Lemma open_txn_is_empty x sid progs d0 g : good x = true -> good_start sid progs d0 -> reachable x sid progs d0 g ->
  (forall j d, g_lock g = Some (j, d) -> (exists w, nth_error (g_ws g) j = Some w /\ w_pc w = AtC) \/ d = g_db g)
  /\ (forall i, g_db (step x sid progs g (i, AtE)) = g_db g).
Proof.
  intros Hg Hs Hr. split.
  - intros j d. exact (run_open_txn_empty x Hg sid progs d0 Hs g j d Hr).
  - intros i. exact (run_epilogue_publishes_nothing x Hg sid progs d0 Hs g i Hr).
Qed.

Lemma retry_fresh x sid progs d0 g i w : good x = true -> good_start sid progs d0 -> reachable x sid progs d0 g ->
  nth_error (g_ws g) i = Some w ->
  (w_pc w = AtS -> exists cur w', find_stage sid (d_stages (g_db g)) = Some cur
        /\ nth_error (g_ws (step x sid progs g (i, AtS))) i = Some w' /\ w_hdr w' = Some cur /\ w_pc w' = AtT)
  /\ (w_pc w = AtU -> exists r n cur, w_hdr w = Some r /\ w_snap w = Some n /\ n = snap_of r (n_tasks n)
        /\ find_stage sid (d_stages (g_db g)) = Some cur /\ s_ver r <= s_ver cur
        /\ (s_ver r = s_ver cur -> n = snap_of cur (read_tasks sid (g_db g))))
  /\ (forall p r v, w_pc (after_failure p w r v) = AtS -> w_hdr (after_failure p w r v) = None /\ w_snap (after_failure p w r v) = None).
Proof.
  intros Hg Hs Hr Hw. split; [|split].
  - exact (run_read_is_committed x Hg sid progs d0 Hs g i w Hr Hw).
  - exact (run_snapshot_fresh x Hg sid progs d0 Hs g i w Hr Hw).
  - intros p r v. unfold after_failure. destruct (res_eqb r ConcErr && Nat.ltb (w_used w) (p_tries p)); simpl; [auto|discriminate].
Qed.
