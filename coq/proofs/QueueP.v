(* Lemmas about QueueM (the SQLite queue model).  The invariant [inv] holds in every state reachable by any
   list of operations — any interleaving of any number of pollers' Select / Claim / MoveCorrupt and sweepers'
   SweepSelect / SweepMove steps, crashes between steps, crash cuts inside move_to_dlq / replay_dlq. *)
From Coq Require Import List Bool ZArith Lia Permutation Arith.
Import ListNotations.
From Stab.gen Require Import Gen_Queue.
From Stab.model Require Import QueueM.
Open Scope Z_scope.

(* ------------------------------------------------------------------------------------------------ *)
(* take                                                                                              *)
(* ------------------------------------------------------------------------------------------------ *)
Section Take.
Context {A : Type} (key : A -> Z).

Lemma take_some : forall id l r rest, take key id l = Some (r, rest) ->
  key r = id /\ Permutation l (r :: rest) /\ (forall x, In x rest -> In x l) /\ In r l.
Proof.
  induction l as [|a l IH]; simpl; intros r rest H; [discriminate|].
  destruct (key a =? id) eqn:E.
  - inversion H; subst. apply Z.eqb_eq in E. split; [exact E|]. split; [apply Permutation_refl|].
    split; [intros; now right|now left].
  - destruct (take key id l) as [[x t']|] eqn:T; [|discriminate]. inversion H; subst.
    destruct (IH _ _ eq_refl) as (K & P & S & I). split; [exact K|]. split; [|split].
    + rewrite perm_swap. now constructor.
    + intros y [<-|Hy]; [now left|right; auto].
    + now right.
Qed.

Lemma take_none : forall id l, take key id l = None -> forall x, In x l -> key x <> id.
Proof.
  induction l as [|a l IH]; simpl; intros H x Hx; [contradiction|].
  destruct (key a =? id) eqn:E; [discriminate|].
  destruct (take key id l) as [[y t']|] eqn:T; [discriminate|].
  destruct Hx as [<-|Hx]; [now apply Z.eqb_neq|now apply IH].
Qed.

Lemma take_in_some : forall id l x, In x l -> key x = id -> exists r rest, take key id l = Some (r, rest).
Proof.
  intros id l x Hx Hk. destruct (take key id l) as [[r rest]|] eqn:T; [eauto|].
  exfalso. exact (take_none _ _ T _ Hx Hk).
Qed.

Lemma take_keys : forall id l r rest, take key id l = Some (r, rest) -> NoDup (map key l) ->
  NoDup (map key rest) /\ ~ In id (map key rest).
Proof.
  intros id l r rest H N. destruct (take_some _ _ _ _ H) as (K & P & _ & _).
  apply (Permutation_map key) in P. simpl in P. apply (Permutation_NoDup P) in N.
  inversion N; subst. split; auto.
Qed.

Lemma take_unique : forall id l r rest x, take key id l = Some (r, rest) -> NoDup (map key l) ->
  In x l -> key x = id -> x = r.
Proof.
  intros id l r rest x H N Hx Hk. destruct (take_some _ _ _ _ H) as (K & P & _ & _).
  destruct (take_keys _ _ _ _ H N) as (_ & Hn).
  apply (Permutation_in _ P) in Hx. destruct Hx as [->|Hx]; auto.
  exfalso. apply Hn. rewrite <- Hk. now apply in_map.
Qed.

Lemma take_rest_iff : forall id l r rest x, take key id l = Some (r, rest) -> NoDup (map key l) ->
  (In x rest <-> In x l /\ key x <> id).
Proof.
  intros id l r rest x H N. destruct (take_some _ _ _ _ H) as (K & P & S & I).
  destruct (take_keys _ _ _ _ H N) as (_ & Hn). split.
  - intros Hx. split; auto. intros E. apply Hn. rewrite <- E. now apply in_map.
  - intros [Hx Hk]. apply (Permutation_in _ P) in Hx. destruct Hx as [<-|Hx]; auto. congruence.
Qed.
End Take.

Lemma nodup_keys_inj {A} (key : A -> Z) : forall l x y, NoDup (map key l) -> In x l -> In y l -> key x = key y -> x = y.
Proof.
  induction l as [|a l IH]; simpl; intros x y N Hx Hy E; [contradiction|].
  inversion N; subst. destruct Hx as [<-|Hx], Hy as [<-|Hy]; auto.
  - exfalso. apply H1. rewrite E. now apply in_map.
  - exfalso. apply H1. rewrite <- E. now apply in_map.
Qed.

(* ------------------------------------------------------------------------------------------------ *)
(* upd_row                                                                                           *)
(* ------------------------------------------------------------------------------------------------ *)
Lemma upd_row_ids : forall id f l, (forall r, r_id (f r) = r_id r) -> map r_id (upd_row id f l) = map r_id l.
Proof.
  intros id f l Hf. unfold upd_row. rewrite map_map. apply map_ext. intros r. destruct (r_id r =? id); auto.
Qed.
Lemma upd_row_mids : forall id f l, (forall r, r_mid (f r) = r_mid r) -> map r_mid (upd_row id f l) = map r_mid l.
Proof.
  intros id f l Hf. unfold upd_row. rewrite map_map. apply map_ext. intros r. destruct (r_id r =? id); auto.
Qed.
Lemma in_upd_row : forall id f l r', In r' (upd_row id f l) ->
  exists r, In r l /\ (r' = r /\ r_id r <> id \/ r' = f r /\ r_id r = id).
Proof.
  intros id f l r' H. unfold upd_row in H. apply in_map_iff in H. destruct H as (r & E & Hr).
  exists r. split; auto. destruct (r_id r =? id) eqn:Q.
  - right. apply Z.eqb_eq in Q. auto.
  - left. apply Z.eqb_neq in Q. auto.
Qed.

(* ------------------------------------------------------------------------------------------------ *)
(* the invariant                                                                                     *)
(* ------------------------------------------------------------------------------------------------ *)
Definition ids_ok (s : st) : Prop :=
  NoDup (map r_id (rows s)) /\ (forall r, In r (rows s) -> r_id r < next_id s).
Definition dids_ok (s : st) : Prop :=
  NoDup (map d_id (dlq s)) /\ (forall d, In d (dlq s) -> d_id d < next_did s).
Definition ledger_ok (s : st) : Prop :=
  0 <= next_mid s /\ NoDup (all_mids s) /\ (forall m, In m (all_mids s) <-> 0 <= m < next_mid s).
Definition claims_ok (s : st) : Prop :=
  forall id v, In (id, v) (claims s) -> id < next_id s /\ (forall r, In r (rows s) -> r_id r = id -> v < r_ver r).
Definition cands_ok (s : st) : Prop :=
  forall p id ver att k lv, get_pc p s = Selected id ver att k lv ->
    id < next_id s /\ (forall r, In r (rows s) -> r_id r = id -> ver <= r_ver r).
Definition inv (s : st) : Prop :=
  ids_ok s /\ dids_ok s /\ ledger_ok s /\ claims_ok s /\ NoDup (claims s) /\ cands_ok s.

(* how the rows of a later state relate to the rows of an earlier one: ids are never reused and a row's
   version never decreases *)
Definition rows_mono (s s' : st) : Prop :=
  next_id s <= next_id s' /\
  forall r', In r' (rows s') ->
    next_id s <= r_id r' \/ exists r, In r (rows s) /\ r_id r = r_id r' /\ r_ver r <= r_ver r'.

Lemma rows_mono_refl : forall s, rows_mono s s.
Proof. intros s. split; [lia|]. intros r' H. right. exists r'. repeat split; auto; lia. Qed.

Lemma rows_mono_trans : forall a b c, rows_mono a b -> rows_mono b c -> rows_mono a c.
Proof.
  intros a b c [N1 H1] [N2 H2]. split; [lia|]. intros r' Hr.
  destruct (H2 _ Hr) as [G|(r & Hin & Hid & Hv)]; [left; lia|].
  destruct (H1 _ Hin) as [G|(r0 & Hin0 & Hid0 & Hv0)]; [left; lia|].
  right. exists r0. repeat split; auto; lia.
Qed.

Lemma claims_ok_mono : forall s s', rows_mono s s' -> claims s' = claims s -> claims_ok s -> claims_ok s'.
Proof.
  intros s s' [N M] E C id v H. rewrite E in H. destruct (C _ _ H) as [L V]. split; [lia|].
  intros r' Hr Hid. destruct (M _ Hr) as [G|(r & Hin & Hi & Hv)]; [lia|].
  specialize (V r Hin). rewrite Hi in V. specialize (V Hid). lia.
Qed.

Lemma cands_ok_mono : forall s s', rows_mono s s' -> pcs s' = pcs s -> cands_ok s -> cands_ok s'.
Proof.
  intros s s' [N M] E C p id ver att k lv H. unfold get_pc in H. rewrite E in H.
  destruct (C p id ver att k lv H) as [L V]. split; [lia|].
  intros r' Hr Hid. destruct (M _ Hr) as [G|(r & Hin & Hi & Hv)]; [lia|].
  specialize (V r Hin). rewrite Hi in V. specialize (V Hid). lia.
Qed.

Lemma ledger_perm : forall s s', Permutation (all_mids s') (all_mids s) -> next_mid s' = next_mid s ->
  ledger_ok s -> ledger_ok s'.
Proof.
  intros s s' P E (Z0 & N & I). split; [lia|]. split.
  - apply (Permutation_NoDup (Permutation_sym P) N).
  - intros m. rewrite E, <- I. split; intros H.
    + apply (Permutation_in _ P H).
    + apply (Permutation_in _ (Permutation_sym P) H).
Qed.

(* get_pc / put_pc *)
Lemma get_put_same : forall p v s, get_pc p (put_pc p v s) = v.
Proof. intros. unfold get_pc, put_pc. simpl. rewrite Nat.eqb_refl. reflexivity. Qed.

Lemma find_filter_other : forall p q (l : list (nat * pc)), p <> q ->
  find (fun x => Nat.eqb (fst x) p) (filter (fun x => negb (Nat.eqb (fst x) q)) l) = find (fun x => Nat.eqb (fst x) p) l.
Proof.
  intros p q l Hne. induction l as [|a l IH]; simpl; auto.
  destruct (Nat.eqb (fst a) q) eqn:Eq; simpl.
  - destruct (Nat.eqb (fst a) p) eqn:Ep; auto.
    apply Nat.eqb_eq in Eq, Ep. congruence.
  - destruct (Nat.eqb (fst a) p); auto.
Qed.

Lemma get_put_other : forall p q v s, p <> q -> get_pc p (put_pc q v s) = get_pc p s.
Proof.
  intros. unfold get_pc, put_pc. simpl. destruct (Nat.eqb q p) eqn:E.
  - apply Nat.eqb_eq in E. congruence.
  - rewrite find_filter_other; auto.
Qed.

Lemma cands_put : forall p v s, cands_ok s ->
  (forall id ver att k lv, v = Selected id ver att k lv ->
     id < next_id s /\ (forall r, In r (rows s) -> r_id r = id -> ver <= r_ver r)) ->
  cands_ok (put_pc p v s).
Proof.
  intros p v s C Hv q id ver att k lv H. destruct (Nat.eq_dec q p) as [->|Hne].
  - rewrite get_put_same in H. exact (Hv _ _ _ _ _ H).
  - rewrite get_put_other in H by auto. exact (C _ _ _ _ _ _ H).
Qed.

Lemma inv_put_pc : forall p v s, inv s ->
  (forall id ver att k lv, v = Selected id ver att k lv ->
     id < next_id s /\ (forall r, In r (rows s) -> r_id r = id -> ver <= r_ver r)) ->
  inv (put_pc p v s).
Proof.
  intros p v s (I & D & L & C & N & K) Hv.
  split; [exact I|]. split; [exact D|]. split; [exact L|]. split; [exact C|]. split; [exact N|].
  apply cands_put; auto.
Qed.

Lemma inv_put_pc_simple : forall p v s, inv s -> (forall id ver att k lv, v <> Selected id ver att k lv) -> inv (put_pc p v s).
Proof. intros. apply inv_put_pc; auto. intros. exfalso. eapply H0; eauto. Qed.

(* ------------------------------------------------------------------------------------------------ *)
(* building blocks                                                                                   *)
(* ------------------------------------------------------------------------------------------------ *)
Lemma nodup_snoc {A} : forall (l : list A) x, NoDup l -> ~ In x l -> NoDup (l ++ [x]).
Proof.
  intros l x N H. apply (Permutation_NoDup (Permutation_cons_append l x)). now constructor.
Qed.

Lemma perm_mid {A} : forall (X Y : list A) m, Permutation (X ++ m :: Y) (m :: X ++ Y).
Proof. intros. symmetry. apply Permutation_middle. Qed.

(* -- insert (push) -- *)
Lemma rows_mono_insert : forall s k dl at_ mx v, rows_mono s (insert s k dl at_ mx v).
Proof.
  intros. split; simpl; [lia|]. intros r' H. apply in_app_or in H. destruct H as [H|[<-|[]]].
  - right. exists r'. repeat split; auto; lia.
  - left. simpl. lia.
Qed.

Lemma inv_insert : forall s k dl at_ mx v, inv s -> inv (insert s k dl at_ mx v).
Proof.
  intros s k dl at_ mx v (I & D & L & C & N & K).
  pose proof (rows_mono_insert s k dl at_ mx v) as M.
  split; [|split; [exact D|split; [|split; [|split; [exact N|]]]]].
  - destruct I as [In1 In2]. split; simpl.
    + rewrite map_app. simpl. apply nodup_snoc; auto. intros H. apply in_map_iff in H.
      destruct H as (r & E & Hr). specialize (In2 r Hr). lia.
    + intros r H. apply in_app_or in H. destruct H as [H|[<-|[]]]; [specialize (In2 r H); lia|simpl; lia].
  - destruct L as (Z0 & Nd & Im). unfold ledger_ok, all_mids in *. simpl.
    assert (P : Permutation (map r_mid (rows s ++ [mkRow (next_id s) (next_mid s) k dl false None at_ mx v])
                               ++ map d_mid (dlq s) ++ acked s ++ purged s)
                            (next_mid s :: map r_mid (rows s) ++ map d_mid (dlq s) ++ acked s ++ purged s)).
    { rewrite map_app. simpl. rewrite <- app_assoc. simpl. apply perm_mid. }
    split; [lia|]. split.
    + apply (Permutation_NoDup (Permutation_sym P)). constructor; auto. intros H. apply Im in H. lia.
    + intros m. split; intros H.
      * apply (Permutation_in _ P) in H. destruct H as [<-|H]; [lia|]. apply Im in H. lia.
      * apply (Permutation_in _ (Permutation_sym P)). destruct (Z.eq_dec m (next_mid s)) as [->|Hne]; [now left|].
        right. apply Im. lia.
  - apply (claims_ok_mono s); auto.
  - apply (cands_ok_mono s); auto.
Qed.

(* -- a row leaves the queue for the DLQ (move_to_dlq that found its row) -- *)
Definition moved (s : st) (r : row) (rest : list row) : st :=
  mkSt rest (dlq s ++ [new_dlq_row s r]) (next_id s) (next_did s + 1) (next_mid s) (now s) (acked s) (purged s) (pcs s) (claims s).

Lemma rows_mono_sub : forall s s', next_id s <= next_id s' -> (forall r, In r (rows s') -> In r (rows s)) -> rows_mono s s'.
Proof. intros s s' N H. split; auto. intros r' Hr. right. exists r'. repeat split; auto; lia. Qed.

Lemma inv_moved : forall s id r rest, inv s -> take_row id (rows s) = Some (r, rest) -> inv (moved s r rest).
Proof.
  intros s id r rest (I & D & L & C & N & K) T. unfold take_row in T.
  destruct (take_some _ _ _ _ _ T) as (Hk & P & Sub & Hin).
  assert (M : rows_mono s (moved s r rest)) by (apply rows_mono_sub; simpl; [lia|auto]).
  split; [|split; [|split; [|split; [|split; [exact N|]]]]].
  - destruct I as [I1 I2]. split; simpl; [apply (take_keys _ _ _ _ _ T I1)|auto].
  - destruct D as [D1 D2]. split; simpl.
    + rewrite map_app. simpl. apply nodup_snoc; auto. intros H. apply in_map_iff in H.
      destruct H as (d & E & Hd). specialize (D2 d Hd). lia.
    + intros d H. apply in_app_or in H. destruct H as [H|[<-|[]]]; [specialize (D2 d H); lia|simpl; lia].
  - apply (ledger_perm s); auto. unfold all_mids. simpl. rewrite map_app. simpl.
    apply (Permutation_map r_mid) in P. simpl in P.
    transitivity (r_mid r :: map r_mid rest ++ map d_mid (dlq s) ++ acked s ++ purged s).
    + rewrite <- !app_assoc. simpl. rewrite app_assoc. etransitivity; [apply perm_mid|]. rewrite <- app_assoc. reflexivity.
    + symmetry. apply (Permutation_app_tail _ P).
  - apply (claims_ok_mono s); auto.
  - apply (cands_ok_mono s); auto.
Qed.

(* -- a DLQ row goes back to the queue (replay_dlq that found its row) -- *)
Definition replayed (c : cfg) (s : st) (d : drow) (rest : list drow) : st :=
  mkSt (rows s ++ [replayed_row c s d]) rest (next_id s + 1) (next_did s) (next_mid s) (now s) (acked s) (purged s) (pcs s) (claims s).

Lemma inv_replayed : forall c s did d rest, inv s -> take_d did (dlq s) = Some (d, rest) -> inv (replayed c s d rest).
Proof.
  intros c s did d rest (I & D & L & C & N & K) T. unfold take_d in T.
  destruct (take_some _ _ _ _ _ T) as (Hk & P & Sub & Hin).
  assert (M : rows_mono s (replayed c s d rest)).
  { split; simpl; [lia|]. intros r' H. apply in_app_or in H. destruct H as [H|[<-|[]]].
    - right. exists r'. repeat split; auto; lia.
    - left. simpl. lia. }
  split; [|split; [|split; [|split; [|split; [exact N|]]]]].
  - destruct I as [I1 I2]. split; simpl.
    + rewrite map_app. simpl. apply nodup_snoc; auto. intros H. apply in_map_iff in H.
      destruct H as (r & E & Hr). specialize (I2 r Hr). lia.
    + intros r H. apply in_app_or in H. destruct H as [H|[<-|[]]]; [specialize (I2 r H); lia|simpl; lia].
  - destruct D as [D1 D2]. split; simpl; [apply (take_keys _ _ _ _ _ T D1)|auto].
  - apply (ledger_perm s); auto. unfold all_mids. simpl. rewrite map_app. simpl.
    apply (Permutation_map d_mid) in P. simpl in P.
    transitivity (d_mid d :: map r_mid (rows s) ++ map d_mid rest ++ acked s ++ purged s).
    + rewrite <- !app_assoc. simpl. apply perm_mid.
    + transitivity (map r_mid (rows s) ++ d_mid d :: map d_mid rest ++ acked s ++ purged s).
      * symmetry. apply perm_mid.
      * apply Permutation_app_head. symmetry. apply (Permutation_app_tail _ P).
  - apply (claims_ok_mono s); auto.
  - apply (cands_ok_mono s); auto.
Qed.

(* -- ack -- *)
Lemma inv_ack : forall id s, inv s -> inv (do_ack id s).
Proof.
  intros id s Hinv. unfold do_ack. destruct (take_row id (rows s)) as [[r rest]|] eqn:T; auto.
  destruct Hinv as (I & D & L & C & N & K). unfold take_row in T.
  destruct (take_some _ _ _ _ _ T) as (Hk & P & Sub & Hin).
  set (s' := mkSt rest (dlq s) (next_id s) (next_did s) (next_mid s) (now s) (r_mid r :: acked s) (purged s) (pcs s) (claims s)).
  assert (M : rows_mono s s') by (apply rows_mono_sub; simpl; [lia|auto]).
  split; [|split; [exact D|split; [|split; [|split; [exact N|]]]]].
  - destruct I as [I1 I2]. split; simpl; [apply (take_keys _ _ _ _ _ T I1)|auto].
  - apply (ledger_perm s); auto. unfold all_mids. simpl.
    apply (Permutation_map r_mid) in P. simpl in P.
    transitivity (r_mid r :: map r_mid rest ++ map d_mid (dlq s) ++ acked s ++ purged s).
    + rewrite app_assoc. etransitivity; [apply perm_mid|]. rewrite <- app_assoc. reflexivity.
    + symmetry. apply (Permutation_app_tail _ P).
  - apply (claims_ok_mono s); auto.
  - apply (cands_ok_mono s); auto.
Qed.

(* -- an UPDATE of one row that keeps id and message and does not lower the version -- *)
Lemma inv_upd : forall s id f, inv s ->
  (forall r, r_id (f r) = r_id r /\ r_mid (f r) = r_mid r /\ r_ver r <= r_ver (f r)) ->
  inv (set_rows s (upd_row id f (rows s))).
Proof.
  intros s id f (I & D & L & C & N & K) Hf.
  assert (M : rows_mono s (set_rows s (upd_row id f (rows s)))).
  { split; simpl; [lia|]. intros r' H. right. apply in_upd_row in H. destruct H as (r & Hr & [[-> _]|[-> _]]).
    - exists r. repeat split; auto; lia.
    - exists r. destruct (Hf r) as (A & _ & B). repeat split; auto. }
  split; [|split; [exact D|split; [|split; [|split; [exact N|]]]]].
  - destruct I as [I1 I2]. split; simpl.
    + rewrite upd_row_ids; auto. intros r; apply Hf.
    + intros r' H. apply in_upd_row in H. destruct H as (r & Hr & [[-> _]|[-> _]]); auto.
      destruct (Hf r) as (A & _). rewrite A. auto.
  - apply (ledger_perm s); auto. unfold all_mids. simpl. rewrite upd_row_mids; auto. intros r; apply Hf.
  - apply (claims_ok_mono s); auto.
  - apply (cands_ok_mono s); auto.
Qed.

(* -- tick, clear -- *)
Lemma inv_tick : forall d s, inv s -> inv (tick d s).
Proof. intros d s H. exact H. Qed.

Lemma inv_clearq : forall s, inv s ->
  inv (mkSt [] (dlq s) (next_id s) (next_did s) (next_mid s) (now s) (acked s) (map r_mid (rows s) ++ purged s) (pcs s) (claims s)).
Proof.
  intros s (I & D & L & C & N & K).
  set (s' := mkSt [] (dlq s) (next_id s) (next_did s) (next_mid s) (now s) (acked s) (map r_mid (rows s) ++ purged s) (pcs s) (claims s)).
  assert (M : rows_mono s s') by (apply rows_mono_sub; simpl; [lia|intros r []]).
  split; [|split; [exact D|split; [|split; [|split; [exact N|]]]]].
  - split; simpl; [constructor|intros r []].
  - apply (ledger_perm s); auto. unfold all_mids. simpl.
    rewrite (app_assoc (map d_mid (dlq s)) (acked s) (map r_mid (rows s) ++ purged s)).
    rewrite (app_assoc (map d_mid (dlq s)) (acked s) (purged s)). apply Permutation_app_swap_app.
  - apply (claims_ok_mono s); auto.
  - apply (cands_ok_mono s); auto.
Qed.

Lemma inv_cleardlq : forall s, inv s ->
  inv (mkSt (rows s) [] (next_id s) (next_did s) (next_mid s) (now s) (acked s) (map d_mid (dlq s) ++ purged s) (pcs s) (claims s)).
Proof.
  intros s (I & D & L & C & N & K).
  split; [exact I|split; [|split; [|split; [exact C|split; [exact N|exact K]]]]].
  - split; simpl; [constructor|intros r []]. 
  - apply (ledger_perm s); auto. unfold all_mids. simpl. apply Permutation_app_head.
    apply Permutation_app_swap_app.
Qed.

(* ------------------------------------------------------------------------------------------------ *)
(* the DLQ statement programs (from Gen_Queue), whole and cut                                          *)
(* ------------------------------------------------------------------------------------------------ *)
Lemma move_spec : forall c id s,
  move_to_dlq c id s = match take_row id (rows s) with Some (r, rest) => moved s r rest | None => s end.
Proof.
  intros. unfold move_to_dlq, run_prog, move_to_dlq_prog, exec_prog, exec_stmt. cbn.
  destruct (take_row id (rows s)) as [[r rest]|] eqn:T; cbn; reflexivity.
Qed.

Lemma cut_move_spec : forall c id s k,
  fst (run_prog c id move_to_dlq_prog (Some k) s) = s \/
  fst (run_prog c id move_to_dlq_prog (Some k) s) = move_to_dlq c id s.
Proof.
  intros. rewrite move_spec. unfold run_prog, move_to_dlq_prog.
  destruct k as [|[|[|k]]]; unfold exec_prog, exec_stmt; cbn; auto;
    destruct (take_row id (rows s)) as [[r rest]|] eqn:T; cbn; auto.
Qed.

Lemma replay_spec : forall c did s,
  replay_dlq c did s = match take_d did (dlq s) with Some (d, rest) => (replayed c s d rest, true) | None => (s, false) end.
Proof.
  intros. unfold replay_dlq, run_prog, replay_dlq_prog, exec_prog, exec_stmt. cbn.
  destruct (take_d did (dlq s)) as [[d rest]|] eqn:T; cbn; reflexivity.
Qed.

Lemma cut_replay_spec : forall c did s k,
  fst (run_prog c did replay_dlq_prog (Some k) s) = s \/
  fst (run_prog c did replay_dlq_prog (Some k) s) = fst (replay_dlq c did s).
Proof.
  intros. rewrite replay_spec. unfold run_prog, replay_dlq_prog.
  destruct k as [|[|[|k]]]; unfold exec_prog, exec_stmt; cbn; auto;
    destruct (take_d did (dlq s)) as [[d rest]|] eqn:T; cbn; auto.
Qed.

Lemma inv_move : forall c id s, inv s -> inv (move_to_dlq c id s).
Proof.
  intros c id s H. rewrite move_spec. destruct (take_row id (rows s)) as [[r rest]|] eqn:T; auto.
  eapply inv_moved; eauto.
Qed.

Lemma inv_replay : forall c did s, inv s -> inv (fst (replay_dlq c did s)).
Proof.
  intros c did s H. rewrite replay_spec. destruct (take_d did (dlq s)) as [[d rest]|] eqn:T; simpl; auto.
  eapply inv_replayed; eauto.
Qed.

Lemma inv_sweep_fold : forall c ids s, inv s -> inv (fold_left (fun s' id => move_to_dlq c id s') ids s).
Proof. induction ids as [|i ids IH]; simpl; intros s H; auto. apply IH. now apply inv_move. Qed.

(* ------------------------------------------------------------------------------------------------ *)
(* SELECT                                                                                            *)
(* ------------------------------------------------------------------------------------------------ *)
Lemma fold_better_in : forall c s l acc r,
  fold_left (better c s) l acc = Some r -> In r l \/ acc = Some r.
Proof.
  induction l as [|a l IH]; simpl; intros acc r H; auto.
  destruct (IH _ _ H) as [G|G]; auto. unfold better in G.
  destruct (eligible c s a); auto. destruct acc as [b|]; [destruct (row_before a b)|]; inversion G; subst; auto.
Qed.

Lemma pick_in : forall c s r, pick c s = Some r -> In r (rows s).
Proof. intros c s r H. destruct (fold_better_in _ _ _ _ _ H) as [G|G]; auto. discriminate. Qed.

Lemma fold_better_elig : forall c s l acc r,
  fold_left (better c s) l acc = Some r -> (forall b, acc = Some b -> eligible c s b = true) -> eligible c s r = true.
Proof.
  induction l as [|a l IH]; simpl; intros acc r H Ha; auto.
  apply (IH _ _ H). intros b Hb. unfold better in Hb.
  destruct (eligible c s a) eqn:E; auto. destruct acc as [b0|]; [destruct (row_before a b0)|]; inversion Hb; subst; auto.
Qed.

Lemma pick_eligible : forall c s r, pick c s = Some r -> eligible c s r = true.
Proof. intros c s r H. apply (fold_better_elig _ _ _ _ _ H). intros; discriminate. Qed.

Lemma inv_select : forall c p s, inv s -> inv (fst (do_select c p s)).
Proof.
  intros c p s H. unfold do_select. destruct (pick c s) as [r|] eqn:P; simpl.
  - apply inv_put_pc; auto. intros id ver att k lv E. inversion E; subst.
    pose proof (pick_in _ _ _ P) as Hin. destruct H as ((I1 & I2) & _). split; auto.
    intros r' Hr' Hid. assert (r' = r) by (eapply nodup_keys_inj; eauto). subst. lia.
  - apply inv_put_pc_simple; auto. intros; discriminate.
Qed.

(* ------------------------------------------------------------------------------------------------ *)
(* CLAIM: the compare-and-swap on (id, version)                                                       *)
(* ------------------------------------------------------------------------------------------------ *)
Lemma cas_on : claim_checks_version = true. Proof. reflexivity. Qed.
Lemma ver_inc_pos : 0 < claim_ver_inc. Proof. reflexivity. Qed.

Lemma claim_hit_spec : forall id ver r, claim_hit id ver r = true <-> r_id r = id /\ r_ver r = ver.
Proof.
  intros. unfold claim_hit. rewrite cas_on, andb_true_iff, !Z.eqb_eq. tauto.
Qed.

Definition claim_rows (id ver lockv : Z) (l : list row) : list row :=
  map (fun r => if claim_hit id ver r then claimed lockv r else r) l.

Definition claim_state (s : st) (id ver lockv v0 : Z) : st :=
  mkSt (claim_rows id ver lockv (rows s)) (dlq s) (next_id s) (next_did s) (next_mid s) (now s) (acked s) (purged s) (pcs s)
       ((id, v0) :: claims s).

Lemma in_claim_rows : forall id ver lockv l r', In r' (claim_rows id ver lockv l) ->
  exists r, In r l /\ (r' = r /\ claim_hit id ver r = false \/ r' = claimed lockv r /\ claim_hit id ver r = true).
Proof.
  intros. unfold claim_rows in H. apply in_map_iff in H. destruct H as (r & E & Hr). exists r. split; auto.
  destruct (claim_hit id ver r); auto.
Qed.

Lemma inv_claim_state : forall s id ver lockv r0, inv s ->
  find (claim_hit id ver) (rows s) = Some r0 -> inv (claim_state s id ver lockv (r_ver r0)).
Proof.
  intros s id ver lockv r0 (I & D & L & C & N & K) F.
  destruct (find_some _ _ F) as [Hin0 Hhit0]. apply claim_hit_spec in Hhit0. destruct Hhit0 as [Hid0 Hver0].
  pose proof ver_inc_pos as Vp.
  assert (M : rows_mono s (claim_state s id ver lockv (r_ver r0))).
  { split; simpl; [lia|]. intros r' H. right. apply in_claim_rows in H. destruct H as (r & Hr & [[-> _]|[-> _]]).
    - exists r. repeat split; auto; lia.
    - exists r. repeat split; auto. simpl. lia. }
  assert (Hids : map r_id (claim_rows id ver lockv (rows s)) = map r_id (rows s)).
  { unfold claim_rows. rewrite map_map. apply map_ext. intros r. destruct (claim_hit id ver r); auto. }
  assert (Hmids : map r_mid (claim_rows id ver lockv (rows s)) = map r_mid (rows s)).
  { unfold claim_rows. rewrite map_map. apply map_ext. intros r. destruct (claim_hit id ver r); auto. }
  split; [|split; [exact D|split; [|split; [|split]]]].
  - destruct I as [I1 I2]. split; simpl; [rewrite Hids; auto|].
    intros r' H. apply in_claim_rows in H. destruct H as (r & Hr & [[-> _]|[-> _]]); simpl; auto.
  - apply (ledger_perm s); auto. unfold all_mids. simpl. rewrite Hmids. reflexivity.
  - (* claims_ok *)
    intros i v H. simpl in H. destruct H as [E|H].
    + inversion E; subst i v. destruct I as [I1 I2]. split; [simpl; rewrite <- Hid0; apply I2; auto|].
      intros r' Hr' Hid'. simpl in Hr'. apply in_claim_rows in Hr'. destruct Hr' as (r & Hr & [[-> Hh]|[-> Hh]]).
      * assert (r = r0) by (eapply nodup_keys_inj; eauto; congruence). subst r.
        assert (claim_hit (r_id r0) (r_ver r0) r0 = true) by (apply claim_hit_spec; auto). congruence.
      * apply claim_hit_spec in Hh. destruct Hh as [_ Hv]. simpl. lia.
    + destruct (C _ _ H) as [Lt V]. split; [simpl; lia|].
      intros r' Hr' Hid'. simpl in Hr'. apply in_claim_rows in Hr'. destruct Hr' as (r & Hr & [[-> _]|[-> _]]).
      * apply V; auto.
      * simpl in *. specialize (V r Hr Hid'). lia.
  - (* NoDup claims *)
    simpl. constructor; auto. intros H. destruct (C _ _ H) as [_ V]. specialize (V r0 Hin0 Hid0). lia.
  - apply (cands_ok_mono s); auto.
Qed.

Lemma inv_claim : forall c p s, inv s -> inv (fst (do_claim c p s)).
Proof.
  intros c p s H. unfold do_claim. destruct (get_pc p s) as [|id ver att k lockv| |] eqn:G; auto.
  destruct (find (claim_hit id ver) (rows s)) as [r0|] eqn:F.
  - pose proof (inv_claim_state s id ver lockv r0 H F) as H1. fold (claim_rows id ver lockv (rows s)).
    fold (claim_state s id ver lockv (r_ver r0)).
    destruct k; simpl; apply inv_put_pc_simple; auto; intros; discriminate.
  - simpl. apply inv_put_pc_simple; auto; intros; discriminate.
Qed.

Lemma inv_move_corrupt : forall c p s, inv s -> inv (fst (do_move_corrupt c p s)).
Proof.
  intros c p s H. unfold do_move_corrupt. destruct (get_pc p s); auto. simpl.
  apply inv_put_pc_simple; [now apply inv_move|intros; discriminate].
Qed.

Lemma inv_poll : forall c p s, inv s -> inv (fst (do_poll c p s)).
Proof.
  intros c p s H. unfold do_poll.
  pose proof (inv_select c p s H) as H1. destruct (do_select c p s) as [s1 r1]. simpl in H1.
  assert (G : inv (fst (let (s2, r2) := do_claim c p s1 in
                   match r2 with RMsg id a => (s2, RMsg id a) | RCorrupt => do_move_corrupt c p s2
                   | RRaise => (s2, RRaise) | _ => (s2, RNone) end))).
  { pose proof (inv_claim c p s1 H1) as H2. destruct (do_claim c p s1) as [s2 r2]. simpl in H2.
    destruct r2; simpl; auto. now apply inv_move_corrupt. }
  destruct r1; auto. destruct o; auto.
Qed.

Lemma inv_resched : forall id d s, inv s -> inv (do_resched id d s).
Proof. intros. unfold do_resched. apply inv_upd; auto. intros r. simpl. repeat split; lia. Qed.

Lemma inv_extend : forall c id d s, inv s -> inv (fst (do_extend c id d s)).
Proof. intros. unfold do_extend. simpl. apply inv_upd; auto. intros r. simpl. repeat split; lia. Qed.

Lemma inv_sweep_move : forall c p s, inv s -> inv (fst (do_sweep_move c p s)).
Proof.
  intros c p s H. unfold do_sweep_move. destruct (get_pc p s) as [| | |ids]; auto. destruct ids as [|i rest]; simpl.
  - apply inv_put_pc_simple; auto; intros; discriminate.
  - apply inv_put_pc_simple; [now apply inv_move|]. destruct rest; intros; discriminate.
Qed.

Theorem inv_step : forall c o s, inv s -> inv (fst (step c o s)).
Proof.
  intros c o s H. destruct o; cbn [step fst].
  - now apply inv_insert.
  - now apply inv_insert.
  - now apply inv_insert.
  - now apply inv_select.
  - now apply inv_claim.
  - now apply inv_move_corrupt.
  - now apply inv_poll.
  - now apply inv_ack.
  - now apply inv_resched.
  - now apply inv_extend.
  - now apply inv_tick.
  - apply inv_put_pc_simple; auto. destruct (sweep_ids c s); intros; discriminate.
  - now apply inv_sweep_move.
  - now apply inv_sweep_fold.
  - now apply inv_move.
  - destruct (cut_move_spec c id s k) as [E|E]; rewrite E; auto. now apply inv_move.
  - pose proof (inv_replay c did s H) as G. destruct (replay_dlq c did s); auto.
  - destruct (cut_replay_spec c did s k) as [E|E]; rewrite E; auto. now apply inv_replay.
  - now apply inv_clearq.
  - now apply inv_cleardlq.
  - apply inv_put_pc_simple; auto; intros; discriminate.
  - pose proof (inv_poll c p s H) as G. destruct (do_poll c p s) as [s1 r]. simpl in G.
    destruct r; simpl; auto. destruct ok; simpl; [now apply inv_ack|now apply inv_resched].
  - exact H.
Qed.

Lemma inv_init : forall t0, inv (init t0).
Proof.
  intros. unfold init. repeat split; simpl; try constructor; try (intros ? []); try lia; intros; try contradiction;
    try discriminate.
Qed.

Theorem inv_run : forall c ops s, inv s -> inv (run c ops s).
Proof. induction ops as [|o ops IH]; simpl; intros s H; auto. apply IH. now apply inv_step. Qed.

Theorem inv_reachable : forall c t0 ops, inv (run c ops (init t0)).
Proof. intros. apply inv_run. apply inv_init. Qed.

(* ------------------------------------------------------------------------------------------------ *)
(* conservation: every pushed message is in exactly one place                                          *)
(* ------------------------------------------------------------------------------------------------ *)
Definition places (m : Z) (s : st) : nat :=
  (count_occ Z.eq_dec (map r_mid (rows s)) m + count_occ Z.eq_dec (map d_mid (dlq s)) m
   + count_occ Z.eq_dec (acked s) m + count_occ Z.eq_dec (purged s) m)%nat.

Lemma places_all : forall m s, places m s = count_occ Z.eq_dec (all_mids s) m.
Proof. intros. unfold places, all_mids. rewrite !count_occ_app. lia. Qed.

Lemma ledger_exactly_one : forall s, ledger_ok s -> forall m, places m s = if (0 <=? m) && (m <? next_mid s) then 1%nat else 0%nat.
Proof.
  intros s (Z0 & N & I) m. rewrite places_all.
  pose proof (proj1 (NoDup_count_occ Z.eq_dec (all_mids s)) N m) as Hle.
  destruct ((0 <=? m) && (m <? next_mid s)) eqn:E.
  - apply andb_true_iff in E. destruct E as [E1 E2]. apply Z.leb_le in E1. apply Z.ltb_lt in E2.
    assert (Hin : In m (all_mids s)) by (apply I; lia).
    apply (count_occ_In Z.eq_dec) in Hin. lia.
  - apply count_occ_not_In. intros Hin. apply I in Hin. apply andb_false_iff in E.
    destruct E as [E|E]; [apply Z.leb_gt in E|apply Z.ltb_ge in E]; lia.
Qed.

Theorem conservation : forall c t0 ops,
  let s := run c ops (init t0) in
  NoDup (all_mids s) /\ (forall m, In m (all_mids s) <-> 0 <= m < next_mid s).
Proof. intros. destruct (inv_reachable c t0 ops) as (_ & _ & (_ & N & I) & _). split; auto. Qed.

Theorem conservation_exactly_one : forall c t0 ops m,
  let s := run c ops (init t0) in
  places m s = if (0 <=? m) && (m <? next_mid s) then 1%nat else 0%nat.
Proof. intros. apply ledger_exactly_one. apply (inv_reachable c t0 ops). Qed.

(* ------------------------------------------------------------------------------------------------ *)
(* frame facts of a step: the clock, the id counter and the claim log only grow                         *)
(* ------------------------------------------------------------------------------------------------ *)
Definition frame (s s' : st) : Prop :=
  now s <= now s' /\ next_id s <= next_id s' /\ incl (claims s) (claims s').

Lemma frame_refl : forall s, frame s s.
Proof. intros. repeat split; try lia. apply incl_refl. Qed.
Lemma frame_trans : forall a b c, frame a b -> frame b c -> frame a c.
Proof. intros a b c (A1 & A2 & A3) (B1 & B2 & B3). repeat split; try lia. eapply incl_tran; eauto. Qed.
Lemma frame_eq : forall s s', now s' = now s -> next_id s <= next_id s' -> claims s' = claims s -> frame s s'.
Proof. intros s s' A B C. repeat split; try lia. rewrite C. apply incl_refl. Qed.

Lemma frame_put : forall p v s, frame s (put_pc p v s).
Proof. intros. apply frame_eq; simpl; auto; lia. Qed.
Lemma frame_move : forall c id s, frame s (move_to_dlq c id s).
Proof.
  intros. rewrite move_spec. destruct (take_row id (rows s)) as [[r rest]|]; [|apply frame_refl].
  apply frame_eq; simpl; auto; lia.
Qed.
Lemma frame_replay : forall c did s, frame s (fst (replay_dlq c did s)).
Proof.
  intros. rewrite replay_spec. destruct (take_d did (dlq s)) as [[d rest]|]; simpl; [|apply frame_refl].
  apply frame_eq; simpl; auto; lia.
Qed.
Lemma frame_select : forall c p s, frame s (fst (do_select c p s)).
Proof. intros. unfold do_select. destruct (pick c s); simpl; apply frame_put. Qed.
Lemma frame_claim : forall c p s, frame s (fst (do_claim c p s)).
Proof.
  intros. unfold do_claim. destruct (get_pc p s) as [|id ver att k lockv| |]; try apply frame_refl.
  destruct (find (claim_hit id ver) (rows s)) as [r0|]; [|simpl; apply frame_put].
  assert (F : frame s (claim_state s id ver lockv (r_ver r0))).
  { repeat split; simpl; try lia. apply incl_tl, incl_refl. }
  destruct k; simpl; (eapply frame_trans; [exact F|apply frame_put]).
Qed.
Lemma frame_move_corrupt : forall c p s, frame s (fst (do_move_corrupt c p s)).
Proof.
  intros. unfold do_move_corrupt. destruct (get_pc p s); try apply frame_refl. simpl.
  eapply frame_trans; [apply frame_move|apply frame_put].
Qed.
Lemma frame_poll : forall c p s, frame s (fst (do_poll c p s)).
Proof.
  intros. unfold do_poll. pose proof (frame_select c p s) as F1. destruct (do_select c p s) as [s1 r1]. simpl in F1.
  assert (G : frame s1 (fst (let (s2, r2) := do_claim c p s1 in
                   match r2 with RMsg id a => (s2, RMsg id a) | RCorrupt => do_move_corrupt c p s2
                   | RRaise => (s2, RRaise) | _ => (s2, RNone) end))).
  { pose proof (frame_claim c p s1) as F2. destruct (do_claim c p s1) as [s2 r2]. simpl in F2.
    destruct r2; simpl; auto. eapply frame_trans; [exact F2|apply frame_move_corrupt]. }
  destruct r1 as [| | | | | |o| |]; try (eapply frame_trans; [exact F1|exact G]).
  destruct o; [eapply frame_trans; [exact F1|exact G]|exact F1].
Qed.
Lemma frame_ack : forall id s, frame s (do_ack id s).
Proof. intros. unfold do_ack. destruct (take_row id (rows s)) as [[r rest]|]; [|apply frame_refl]. apply frame_eq; simpl; auto; lia. Qed.
Lemma frame_fold_move : forall c ids s, frame s (fold_left (fun s' id => move_to_dlq c id s') ids s).
Proof.
  induction ids as [|i ids IH]; simpl; intros; [apply frame_refl|]. eapply frame_trans; [apply frame_move|apply IH].
Qed.

Lemma frame_step : forall c o s, frame s (fst (step c o s)).
Proof.
  intros c o s. destruct o; cbn [step fst]; try (apply frame_eq; simpl; auto; lia).
  - apply frame_select.
  - apply frame_claim.
  - apply frame_move_corrupt.
  - apply frame_poll.
  - apply frame_ack.
  - repeat split; simpl; try lia. apply incl_refl.
  - unfold do_sweep_move. destruct (get_pc p s) as [| | |ids]; try apply frame_refl. destruct ids; simpl.
    + apply frame_put.
    + eapply frame_trans; [apply frame_move|apply frame_put].
  - apply frame_fold_move.
  - apply frame_move.
  - destruct (cut_move_spec c id s k) as [E|E]; rewrite E; [apply frame_refl|apply frame_move].
  - pose proof (frame_replay c did s) as G. destruct (replay_dlq c did s); auto.
  - destruct (cut_replay_spec c did s k) as [E|E]; rewrite E; [apply frame_refl|apply frame_replay].
  - pose proof (frame_poll c p s) as G. destruct (do_poll c p s) as [s1 r]. simpl in G.
    destruct r; simpl; auto. destruct ok; simpl.
    + eapply frame_trans; [exact G|apply frame_ack].
    + eapply frame_trans; [exact G|]. apply frame_eq; simpl; auto; lia.
Qed.

Lemma frame_run : forall c ops s, frame s (run c ops s).
Proof.
  induction ops as [|o ops IH]; simpl; intros; [apply frame_refl|].
  eapply frame_trans; [apply frame_step|apply IH].
Qed.

(* ------------------------------------------------------------------------------------------------ *)
(* exclusivity 1: the claim is a compare-and-swap; no (id, version) is ever claimed twice              *)
(* ------------------------------------------------------------------------------------------------ *)
Theorem claims_nodup : forall c t0 ops, NoDup (claims (run c ops (init t0))).
Proof. intros. destruct (inv_reachable c t0 ops) as (_ & _ & _ & _ & N & _). exact N. Qed.

Theorem claim_once : forall c s p id ver att k lv r0,
  inv s -> get_pc p s = Selected id ver att k lv -> find (claim_hit id ver) (rows s) = Some r0 ->   (* p's claim wins *)
  forall ops p' att' k' lv',
    let s' := run c ops (fst (do_claim c p s)) in
    get_pc p' s' = Selected id ver att' k' lv' ->                  (* anybody holding the same candidate *)
    snd (do_claim c p' s') = RLost /\ rows (fst (do_claim c p' s')) = rows s'.
Proof.
  intros c s p id ver att k lv r0 Hinv G F ops p' att' k' lv' s' G'.
  assert (Hc : In (id, ver) (claims (fst (do_claim c p s)))).
  { unfold do_claim. rewrite G, F. destruct (find_some _ _ F) as [_ Hh]. apply claim_hit_spec in Hh.
    destruct Hh as [_ Hv]. rewrite Hv. destruct k; simpl; now left. }
  assert (Hi : inv s') by (apply inv_run; now apply inv_claim).
  destruct (frame_run c ops (fst (do_claim c p s))) as (_ & _ & Inc). apply Inc in Hc. fold s' in Hc.
  destruct Hi as (_ & _ & _ & C & _). destruct (C _ _ Hc) as [_ V].
  unfold do_claim. rewrite G'.
  destruct (find (claim_hit id ver) (rows s')) as [r1|] eqn:F'; [|simpl; auto].
  exfalso. destruct (find_some _ _ F') as [Hin Hh]. apply claim_hit_spec in Hh. destruct Hh as [Hid Hv].
  specialize (V r1 Hin Hid). lia.
Qed.

(* ------------------------------------------------------------------------------------------------ *)
(* exclusivity 2: while the lock a claim wrote has not lapsed and nobody reschedules / extends the row,   *)
(* no other claim on it wins                                                                          *)
(* ------------------------------------------------------------------------------------------------ *)
Definition eff_skew (c : cfg) : Z := if now_utc_modifier then skew_ms c else 0.

Definition touches (id : Z) (o : op) : bool :=
  match o with Resched i _ | Extend i _ => i =? id | _ => false end.

Definition claims_of (id : Z) (s : st) : list (Z * Z) := filter (fun x => fst x =? id) (claims s).

Section Window.
Variables (c : cfg) (id L v : Z).
Hypothesis skew_nonpos : eff_skew c <= 0.

Definition W (s : st) : Prop :=
  id < next_id s /\
  (forall r, In r (rows s) -> r_id r = id -> r_lock r = Some L /\ r_ver r = v) /\
  (forall p ver att k lv, get_pc p s = Selected id ver att k lv -> ver < v).

Definition WP (s s' : st) : Prop := W s' /\ claims_of id s' = claims_of id s.

Lemma WP_trans : forall a b d, WP a b -> WP b d -> WP a d.
Proof. intros a b d [_ E1] [W2 E2]. split; auto. congruence. Qed.

Lemma W_rows : forall s s', W s -> next_id s <= next_id s' ->
  (forall r', In r' (rows s') -> r_id r' = id -> In r' (rows s)) -> pcs s' = pcs s -> claims s' = claims s -> WP s s'.
Proof.
  intros s s' (A & B & C) N R P Cl. split; [|unfold claims_of; now rewrite Cl].
  split; [lia|]. split.
  - intros r' Hr Hid. apply B; auto.
  - intros p ver att k lv G. unfold get_pc in G. rewrite P in G. eapply C; eauto.
Qed.

Lemma W_put : forall p v0 s, W s -> (forall ver att k lv, v0 = Selected id ver att k lv -> ver < v) -> WP s (put_pc p v0 s).
Proof.
  intros p v0 s (A & B & C) Hv. split; [|reflexivity]. split; [exact A|]. split; [exact B|].
  intros q ver att k lv G. destruct (Nat.eq_dec q p) as [->|Hne].
  - rewrite get_put_same in G. eauto.
  - rewrite get_put_other in G by auto. eauto.
Qed.

Lemma WP_move : forall i s, W s -> WP s (move_to_dlq c i s).
Proof.
  intros i s Hw. rewrite move_spec. destruct (take_row i (rows s)) as [[r rest]|] eqn:T.
  - apply W_rows; simpl; auto; try lia. intros r' Hr _. unfold take_row in T.
    destruct (take_some _ _ _ _ _ T) as (_ & _ & S & _). auto.
  - apply W_rows; auto; lia.
Qed.

Lemma WP_replay : forall did s, W s -> WP s (fst (replay_dlq c did s)).
Proof.
  intros did s Hw. rewrite replay_spec. destruct (take_d did (dlq s)) as [[d rest]|] eqn:T; simpl.
  - apply W_rows; simpl; auto; try lia. intros r' Hr Hid. apply in_app_or in Hr. destruct Hr as [Hr|[<-|[]]]; auto.
    simpl in Hid. destruct Hw as (A & _). lia.
  - apply W_rows; auto; lia.
Qed.

Lemma WP_insert : forall s k dl at_ mx ve, W s -> WP s (insert s k dl at_ mx ve).
Proof.
  intros s k dl at_ mx ve Hw. apply W_rows; simpl; auto; try lia.
  intros r' Hr Hid. apply in_app_or in Hr. destruct Hr as [Hr|[<-|[]]]; auto.
  simpl in Hid. destruct Hw as (A & _). lia.
Qed.

Lemma WP_ack : forall i s, W s -> WP s (do_ack i s).
Proof.
  intros i s Hw. unfold do_ack. destruct (take_row i (rows s)) as [[r rest]|] eqn:T.
  - apply W_rows; simpl; auto; try lia. intros r' Hr _. unfold take_row in T.
    destruct (take_some _ _ _ _ _ T) as (_ & _ & S & _). auto.
  - apply W_rows; auto; lia.
Qed.

Lemma WP_upd : forall i f s, W s -> i <> id -> (forall r, r_id (f r) = r_id r) -> WP s (set_rows s (upd_row i f (rows s))).
Proof.
  intros i f s Hw Hne Hf. apply W_rows; simpl; auto; try lia.
  intros r' Hr Hid. apply in_upd_row in Hr. destruct Hr as (r & Hin & [[-> _]|[-> Hi]]); auto.
  rewrite Hf in Hid. congruence.
Qed.

Lemma locked_not_eligible : forall s r, now s <= L -> r_lock r = Some L -> eligible c s r = false.
Proof.
  intros s r Hn Hl. unfold eligible. rewrite Hl.
  assert (E : poll_lock_cmp (sec L) (sec (sql_now c s)) = false).
  { unfold poll_lock_cmp. apply Z.ltb_ge. unfold sec, sql_now. fold (eff_skew c).
    apply Z.div_le_mono; lia. }
  rewrite E. rewrite andb_false_r. reflexivity.
Qed.

Lemma WP_select : forall p s, W s -> now s <= L -> WP s (fst (do_select c p s)).
Proof.
  intros p s Hw Hn. unfold do_select. destruct (pick c s) as [r|] eqn:P; simpl.
  - apply W_put; auto. intros ver att k lv E. inversion E as [[Hid Hv Ha Hk Hl0]]. exfalso.
    pose proof (pick_in _ _ _ P) as Hin. pose proof (pick_eligible _ _ _ P) as He.
    destruct Hw as (_ & B & _). destruct (B r Hin Hid) as [Hl _].
    rewrite (locked_not_eligible s r Hn Hl) in He. discriminate.
  - apply W_put; auto. intros; discriminate.
Qed.

Lemma claims_of_cons_other : forall i v0 (l : list (Z * Z)), i <> id -> filter (fun x : Z * Z => fst x =? id) ((i, v0) :: l) = filter (fun x => fst x =? id) l.
Proof. intros. simpl. destruct (i =? id) eqn:E; auto. apply Z.eqb_eq in E. congruence. Qed.

(* the claim step: it never wins on the protected row; what it returns *)
Lemma WP_claim : forall p s, W s -> WP s (fst (do_claim c p s)) /\
  (forall i a, snd (do_claim c p s) = RMsg i a -> i <> id).
Proof.
  intros p s Hw. unfold do_claim. destruct (get_pc p s) as [|i ver att k lockv| |] eqn:G;
    try (simpl; split; [apply W_rows; auto; lia|intros; discriminate]).
  destruct (find (claim_hit i ver) (rows s)) as [r0|] eqn:F.
  - destruct (find_some _ _ F) as [Hin0 Hh0]. apply claim_hit_spec in Hh0. destruct Hh0 as [Hid0 Hv0].
    assert (Hne : i <> id).
    { intros ->. destruct Hw as (_ & B & C). destruct (B r0 Hin0 Hid0) as [_ Hv]. specialize (C _ _ _ _ _ G). lia. }
    assert (W1 : WP s (claim_state s i ver lockv (r_ver r0))).
    { destruct Hw as (A & B & C). split.
      - split; [simpl; lia|]. split.
        + intros r' Hr Hid. simpl in Hr. apply in_claim_rows in Hr. destruct Hr as (r & Hr & [[-> _]|[-> Hh]]).
          * auto.
          * apply claim_hit_spec in Hh. simpl in Hid. destruct Hh; congruence.
        + intros q ver' att' k' lv' G'. eapply C; eauto.
      - unfold claims_of. simpl claims. apply claims_of_cons_other; auto. }
    split.
    + destruct k; simpl; (eapply WP_trans; [exact W1|apply W_put; [apply W1|intros; discriminate]]).
    + destruct k; simpl; intros i' a E; inversion E; subst; auto.
  - simpl. split; [apply W_put; auto; intros; discriminate|intros; discriminate].
Qed.

Lemma WP_move_corrupt : forall p s, W s -> WP s (fst (do_move_corrupt c p s)).
Proof.
  intros p s Hw. unfold do_move_corrupt. destruct (get_pc p s) as [| |i|]; try (simpl; apply W_rows; auto; lia). simpl.
  eapply WP_trans; [apply WP_move; auto|]. apply W_put; [apply WP_move; auto|intros; discriminate].
Qed.

Lemma now_select : forall p s, now (fst (do_select c p s)) = now s.
Proof. intros. unfold do_select. destruct (pick c s); reflexivity. Qed.

Lemma WP_poll : forall p s, W s -> now s <= L -> WP s (fst (do_poll c p s)) /\
  (forall i a, snd (do_poll c p s) = RMsg i a -> i <> id).
Proof.
  intros p s Hw Hn. unfold do_poll. pose proof (WP_select p s Hw Hn) as F1.
  destruct (do_select c p s) as [s1 r1] eqn:E1. simpl in F1.
  assert (G : WP s1 (fst (let (s2, r2) := do_claim c p s1 in
                   match r2 with RMsg i a => (s2, RMsg i a) | RCorrupt => do_move_corrupt c p s2
                   | RRaise => (s2, RRaise) | _ => (s2, RNone) end)) /\
              forall i a, snd (let (s2, r2) := do_claim c p s1 in
                   match r2 with RMsg i a => (s2, RMsg i a) | RCorrupt => do_move_corrupt c p s2
                   | RRaise => (s2, RRaise) | _ => (s2, RNone) end) = RMsg i a -> i <> id).
  { destruct (WP_claim p s1 (proj1 F1)) as [F2 R2]. destruct (do_claim c p s1) as [s2 r2]. simpl in F2, R2.
    destruct r2; simpl; try (split; [exact F2|intros; discriminate]).
    - split; [exact F2|]. intros i a E. inversion E; subst. eapply R2; eauto.
    - split; [eapply WP_trans; [exact F2|apply WP_move_corrupt; apply F2]|].
      intros i a E. unfold do_move_corrupt in E. destruct (get_pc p s2); discriminate. }
  destruct G as [G1 G2].
  destruct r1 as [| | | | | |o| |]; try (split; [eapply WP_trans; [exact F1|exact G1]|exact G2]).
  destruct o; [split; [eapply WP_trans; [exact F1|exact G1]|exact G2]|].
  split; [exact F1|intros; discriminate].
Qed.

Lemma WP_fold_move : forall ids s, W s -> WP s (fold_left (fun s' i => move_to_dlq c i s') ids s).
Proof.
  induction ids as [|i ids IH]; simpl; intros s Hw; [apply W_rows; auto; lia|].
  eapply WP_trans; [apply WP_move; auto|apply IH; apply WP_move; auto].
Qed.

Lemma WP_step : forall o s, inv s -> W s -> touches id o = false -> now (fst (step c o s)) <= L ->
  WP s (fst (step c o s)).
Proof.
  intros o s Hinv Hw Ht Hn.
  assert (Hn0 : now s <= L) by (destruct (frame_step c o s) as (A & _); lia).
  destruct o; cbn [step fst] in *.
  - now apply WP_insert.
  - now apply WP_insert.
  - now apply WP_insert.
  - now apply WP_select.
  - now apply WP_claim.
  - now apply WP_move_corrupt.
  - now apply WP_poll.
  - now apply WP_ack.
  - simpl in Ht. apply Z.eqb_neq in Ht. unfold do_resched. apply WP_upd; auto.
  - simpl in Ht. apply Z.eqb_neq in Ht. unfold do_extend. simpl. apply WP_upd; auto.
  - apply W_rows; simpl; auto; lia.
  - apply W_put; auto. destruct (sweep_ids c s); intros; discriminate.
  - unfold do_sweep_move. destruct (get_pc p s) as [| | |ids]; try (simpl; apply W_rows; auto; lia). destruct ids as [|i rest]; simpl.
    + apply W_put; auto; intros; discriminate.
    + eapply WP_trans; [apply WP_move; auto|]. apply W_put; [apply WP_move; auto|]. destruct rest; intros; discriminate.
  - now apply WP_fold_move.
  - now apply WP_move.
  - destruct (cut_move_spec c id0 s k) as [E|E]; rewrite E; [apply W_rows; auto; lia|now apply WP_move].
  - pose proof (WP_replay did s Hw) as G. destruct (replay_dlq c did s); auto.
  - destruct (cut_replay_spec c did s k) as [E|E]; rewrite E; [apply W_rows; auto; lia|now apply WP_replay].
  - apply W_rows; simpl; auto; try lia; try (intros r' []).
  - apply W_rows; simpl; auto; lia.
  - apply W_put; auto; intros; discriminate.
  - destruct (WP_poll p s Hw Hn0) as [G R]. destruct (do_poll c p s) as [s1 r]. simpl in G, R.
    destruct r; simpl; auto. destruct ok; simpl.
    + eapply WP_trans; [exact G|apply WP_ack; apply G].
    + eapply WP_trans; [exact G|]. unfold do_resched. apply WP_upd; [apply G|eapply R; eauto|auto].
  - apply W_rows; auto; lia.
Qed.

Lemma WP_run : forall ops s, inv s -> W s -> forallb (fun o => negb (touches id o)) ops = true ->
  now (run c ops s) <= L -> WP s (run c ops s).
Proof.
  induction ops as [|o ops IH]; simpl; intros s Hinv Hw Ht Hn.
  - apply W_rows; auto; lia.
  - apply andb_true_iff in Ht. destruct Ht as [Ht1 Ht2]. apply negb_true_iff in Ht1.
    assert (Hn1 : now (fst (step c o s)) <= L).
    { destruct (frame_run c ops (fst (step c o s))) as (A & _). lia. }
    pose proof (WP_step o s Hinv Hw Ht1 Hn1) as G.
    eapply WP_trans; [exact G|]. apply IH; auto. now apply inv_step. apply G.
Qed.
End Window.

(* a claim that wins opens the window *)
Theorem exclusive_lock : forall c s p id ver att k lockv r0 ops,
  eff_skew c <= 0 ->
  inv s -> get_pc p s = Selected id ver att k lockv -> find (claim_hit id ver) (rows s) = Some r0 ->   (* p's claim wins *)
  let s1 := fst (do_claim c p s) in
  forallb (fun o => negb (touches id o)) ops = true ->         (* nobody reschedules the row / extends its lock *)
  now (run c ops s1) <= lockv ->                                (* the lock p wrote has not lapsed *)
  claims_of id (run c ops s1) = claims_of id s1                 (* no claim on the row has won since *)
  /\ (forall r, In r (rows (run c ops s1)) -> r_id r = id -> r_lock r = Some lockv /\ r_ver r = ver + claim_ver_inc).
Proof.
  intros c s p id ver att k lockv r0 ops Hsk Hinv G F s1 Ht Hn.
  assert (Hi1 : inv s1) by (apply inv_claim; auto).
  destruct (find_some _ _ F) as [Hin0 Hh0]. apply claim_hit_spec in Hh0. destruct Hh0 as [Hid0 Hv0].
  assert (Hw : W id lockv (ver + claim_ver_inc) s1).
  { destruct Hinv as ((I1 & I2) & _ & _ & _ & _ & K).
    assert (Hw0 : W id lockv (ver + claim_ver_inc) (claim_state s id ver lockv (r_ver r0))).
    { split; [simpl; rewrite <- Hid0; apply I2; auto|]. split.
      - intros r' Hr Hid. simpl in Hr. apply in_claim_rows in Hr. destruct Hr as (r & Hr & [[-> Hh]|[-> Hh]]).
        + exfalso. assert (r = r0) by (eapply nodup_keys_inj; eauto; congruence). subst r.
          assert (claim_hit id ver r0 = true) by (apply claim_hit_spec; auto). congruence.
        + apply claim_hit_spec in Hh. destruct Hh as [_ Hv]. simpl. split; auto. lia.
      - intros q ver' att' k' lv' G'. destruct (K q id ver' att' k' lv' G') as [_ V].
        specialize (V r0 Hin0 Hid0). pose proof ver_inc_pos. lia. }
    unfold s1, do_claim. rewrite G, F.
    destruct k; simpl; (apply W_put; [exact Hw0|intros; discriminate]). }
  destruct (WP_run c id lockv (ver + claim_ver_inc) Hsk ops s1 Hi1 Hw Ht Hn) as [(_ & B & _) E].
  split; auto.
Qed.

(* ------------------------------------------------------------------------------------------------ *)
(* at-least-once 1: the SELECT returns a row whenever one is due, and the earliest one                  *)
(* ------------------------------------------------------------------------------------------------ *)
Lemma lex4_iff : forall a1 a2 a3 a4 b1 b2 b3 b4,
  lex4 a1 a2 a3 a4 b1 b2 b3 b4 = true <->
  (a1 < b1 \/ (a1 = b1 /\ (a2 < b2 \/ (a2 = b2 /\ (a3 < b3 \/ (a3 = b3 /\ a4 < b4)))))).
Proof.
  intros. unfold lex4. rewrite !orb_true_iff, !andb_true_iff, !orb_true_iff, !andb_true_iff, !orb_true_iff, !andb_true_iff.
  rewrite !Z.ltb_lt, !Z.eqb_eq. tauto.
Qed.

Lemma rb_trans : forall a b c, row_before a b = true -> row_before b c = true -> row_before a c = true.
Proof. intros a b c. unfold row_before. rewrite !lex4_iff. lia. Qed.

Lemma rb_total : forall a b, r_id a <> r_id b -> row_before a b = false -> row_before b a = true.
Proof.
  intros a b Hne H. apply not_true_iff_false in H. unfold row_before in *. rewrite lex4_iff in *. lia.
Qed.

Lemma rb_irrefl : forall a, row_before a a = false.
Proof. intros a. apply not_true_iff_false. unfold row_before. rewrite lex4_iff. lia. Qed.

Definition rle (a b : row) : Prop := a = b \/ row_before a b = true.

Lemma rle_trans : forall a b c, rle a b -> rle b c -> rle a c.
Proof. intros a b c [->|H1] [->|H2]; unfold rle; auto. right. eapply rb_trans; eauto. Qed.

Lemma fold_better_min : forall c s l acc r,
  NoDup (map r_id (rows s)) ->
  (forall x, In x l -> In x (rows s)) -> (forall b, acc = Some b -> In b (rows s)) ->
  fold_left (better c s) l acc = Some r ->
  (forall b, acc = Some b -> rle r b) /\ (forall x, In x l -> eligible c s x = true -> rle r x).
Proof.
  intros c s l. induction l as [|a l IH]; simpl; intros acc r N Hl Ha H.
  - split; [|intros x []]. intros b E. rewrite H in E. inversion E. now left.
  - assert (Ha' : forall b, better c s acc a = Some b -> In b (rows s)).
    { intros b E. unfold better in E. destruct (eligible c s a); auto.
      destruct acc as [b0|]; [destruct (row_before a b0)|]; inversion E; subst; auto. }
    destruct (IH (better c s acc a) r N (fun x Hx => Hl x (or_intror Hx)) Ha' H) as [I1 I2].
    unfold better in I1. split.
    + intros b E. subst acc. destruct (eligible c s a); [|apply I1; auto].
      destruct (row_before a b) eqn:Rb; [|apply I1; auto].
      eapply rle_trans; [apply I1; reflexivity|]. now right.
    + intros x [E0|Hx] He; [subst a|auto]. rewrite He in I1. destruct acc as [b0|]; [|apply I1; auto].
      destruct (row_before x b0) eqn:Rb; [apply I1; auto|].
      eapply rle_trans; [apply I1; reflexivity|].
      destruct (Z.eq_dec (r_id b0) (r_id x)) as [E|E].
      * left. eapply nodup_keys_inj; eauto.
      * right. apply rb_total; auto.
Qed.

Lemma fold_better_some : forall c s l acc, (acc <> None \/ exists x, In x l /\ eligible c s x = true) ->
  fold_left (better c s) l acc <> None.
Proof.
  intros c s l. induction l as [|a l IH]; simpl; intros acc H.
  - destruct H as [H|(x & [] & _)]; auto.
  - apply IH. unfold better. destruct H as [H|(x & [<-|Hx] & He)].
    + left. destruct (eligible c s a); auto. destruct acc as [b|]; [destruct (row_before a b)|]; congruence.
    + left. rewrite He. destruct acc as [b|]; [destruct (row_before a b)|]; congruence.
    + right. eauto.
Qed.

Theorem select_finds_due : forall c s r,
  NoDup (map r_id (rows s)) -> In r (rows s) -> eligible c s r = true ->
  exists r', pick c s = Some r' /\ In r' (rows s) /\ eligible c s r' = true /\ (r' = r \/ row_before r' r = true).
Proof.
  intros c s r N Hin He. unfold pick.
  destruct (fold_left (better c s) (rows s) None) as [r'|] eqn:F.
  - exists r'. split; auto. split; [eapply pick_in; eauto|]. split; [eapply pick_eligible; eauto|].
    destruct (fold_better_min c s (rows s) None r' N (fun x H => H)) as [_ I2]; auto. intros; discriminate.
    apply (I2 r Hin He).
  - exfalso. eapply fold_better_some; [|exact F]. right. eauto.
Qed.

(* what "due" means in terms of the clock, for the comparison operators the code uses now *)
Lemma eligible_spec : forall c s r,
  eligible c s r = true <->
  sec (r_deliver r) <= sec (sql_now c s)
  /\ (match r_lock r with None => True | Some l => sec l < sec (sql_now c s) end)
  /\ r_att r < poll_limit c r.
Proof.
  intros. unfold eligible, poll_deliver_cmp, poll_lock_cmp, poll_att_cmp.
  rewrite !andb_true_iff, Z.leb_le, Z.ltb_lt. destruct (r_lock r); [rewrite Z.ltb_lt|]; intuition.
Qed.

(* ------------------------------------------------------------------------------------------------ *)
(* at-least-once 2: the sweep moves every exhausted row to the DLQ and deletes nothing else            *)
(* ------------------------------------------------------------------------------------------------ *)
Lemma fold_move_spec : forall c l s, NoDup (map r_id (rows s)) ->
  let s' := fold_left (fun s' i => move_to_dlq c i s') l s in
  (forall r, In r (rows s) ->
     (In (r_id r) l -> (forall x, In x (rows s') -> r_id x <> r_id r) /\
        exists d, In d (dlq s') /\ d_orig d = r_id r /\ d_mid d = r_mid r /\ d_kind d = r_kind r /\ d_att d = r_att r)
     /\ (~ In (r_id r) l -> In r (rows s')))
  /\ (forall x, In x (rows s') -> In x (rows s))
  /\ (forall d, In d (dlq s) -> In d (dlq s')) /\ acked s' = acked s /\ purged s' = purged s.
Proof.
  intros c l. induction l as [|i l IH]; intros s N; simpl.
  - split; [|auto]. intros r Hr. split; [intros []|auto].
  - rewrite move_spec. destruct (take_row i (rows s)) as [[r0 rest]|] eqn:T.
    + unfold take_row in T. destruct (take_some _ _ _ _ _ T) as (Hk & _ & Sub & Hin0).
      destruct (take_keys _ _ _ _ _ T N) as [N1 Nin].
      destruct (IH (moved s r0 rest) N1) as (A & B & Cc & Dd & Ee). simpl in A, B, Cc, Dd, Ee.
      split; [|split; [|split; [|split]]]; auto.
      * intros r Hr. destruct (Z.eq_dec (r_id r) i) as [E|E].
        -- assert (r = r0) by (eapply take_unique; eauto). subst r. split; [|intros H; exfalso; apply H; now left].
           intros _. split.
           ++ intros x Hx Hid. apply B in Hx. apply Nin. rewrite <- Hk, <- Hid. now apply in_map.
           ++ exists (new_dlq_row s r0). split; [apply Cc; apply in_or_app; right; now left|]. simpl. auto.
        -- assert (Hr' : In r rest) by (apply (take_rest_iff _ _ _ _ _ _ T N); auto).
           destruct (A r Hr') as [A1 A2]. split.
           ++ intros [H|H]; [congruence|auto].
           ++ intros H. apply A2. intros H'. apply H. now right.
      * intros d Hd. apply Cc. apply in_or_app. now left.
    + destruct (IH s N) as (A & B & Cc & Dd & Ee). split; [|auto].
      intros r Hr. destruct (A r Hr) as [A1 A2]. split.
      * intros [H|H]; auto. exfalso. unfold take_row in T. exact (take_none _ _ _ T r Hr (eq_sym H)).
      * intros H. apply A2. intros H'. apply H. now right.
Qed.

Theorem sweep_moves_exhausted : forall c p s, inv s ->
  let s' := fst (step c (Sweep p) s) in
  (forall r, In r (rows s) -> sweep_pred (r_att r) (r_max r) (qmax c) = true ->
     (forall x, In x (rows s') -> r_id x <> r_id r) /\
     exists d, In d (dlq s') /\ d_orig d = r_id r /\ d_mid d = r_mid r /\ d_kind d = r_kind r /\ d_att d = r_att r)
  /\ (forall r, In r (rows s) -> sweep_pred (r_att r) (r_max r) (qmax c) = false -> In r (rows s'))
  /\ (forall d, In d (dlq s) -> In d (dlq s')) /\ acked s' = acked s /\ purged s' = purged s.
Proof.
  intros c p s ((N & _) & _) s'. unfold s'. cbn [step fst].
  destruct (fold_move_spec c (sweep_ids c s) s N) as (A & B & Cc & Dd & Ee).
  split; [|split; [|auto]].
  - intros r Hr Hp. apply (A r Hr). unfold sweep_ids. apply in_map. apply filter_In. auto.
  - intros r Hr Hp. apply (A r Hr). unfold sweep_ids. intros H. apply in_map_iff in H. destruct H as (x & E & Hx).
    apply filter_In in Hx. destruct Hx as [Hx Hpx]. assert (x = r) by (eapply nodup_keys_inj; eauto). subst. congruence.
Qed.

(* ------------------------------------------------------------------------------------------------ *)
(* replay re-inserts type and payload unchanged with attempts 0                                        *)
(* ------------------------------------------------------------------------------------------------ *)
Theorem replay_unchanged : forall c s did d,
  NoDup (map d_id (dlq s)) -> In d (dlq s) -> d_id d = did ->
  let s' := fst (step c (Replay did) s) in
  snd (step c (Replay did) s) = RBool true
  /\ (exists r, rows s' = rows s ++ [r] /\ r_mid r = d_mid d /\ r_kind r = d_kind d /\ r_att r = 0 /\ r_lock r = None
                /\ r_id r = next_id s /\ r_ver r = schema_default_version /\ r_max r = schema_default_max_attempts)
  /\ (forall x, In x (dlq s') <-> In x (dlq s) /\ d_id x <> did)
  /\ acked s' = acked s /\ purged s' = purged s.
Proof.
  intros c s did d N Hin Hid s'. unfold s'. cbn [step fst snd]. rewrite replay_spec.
  destruct (take_in_some d_id did (dlq s) d Hin Hid) as (d' & rest & T). unfold take_d. rewrite T.
  assert (d' = d) by (symmetry; eapply take_unique; eauto). subst d'. simpl.
  split; auto. split; [|split; auto].
  - exists (replayed_row c s d). simpl. repeat split; auto.
  - intros x. apply (take_rest_iff _ _ _ _ _ x T N).
Qed.

(* ------------------------------------------------------------------------------------------------ *)
(* the processor acks only what its handler finished, and reschedules (never drops) what failed        *)
(* ------------------------------------------------------------------------------------------------ *)
Lemma claim_msg_row : forall c p s i a, snd (do_claim c p s) = RMsg i a ->
  exists r0, In r0 (rows s) /\ r_id r0 = i /\
    (exists r1, In r1 (rows (fst (do_claim c p s))) /\ r_id r1 = i /\ r_mid r1 = r_mid r0)
    /\ acked (fst (do_claim c p s)) = acked s /\ now (fst (do_claim c p s)) = now s.
Proof.
  intros c p s i a H. unfold do_claim in *. destruct (get_pc p s) as [|i' ver att k lockv| |]; try discriminate.
  destruct (find (claim_hit i' ver) (rows s)) as [r0|] eqn:F; [|discriminate].
  destruct (find_some _ _ F) as [Hin Hh]. apply claim_hit_spec in Hh. destruct Hh as [Hid Hv].
  destruct k; simpl in *; try discriminate. inversion H; subst i' a.
  exists r0. repeat split; auto. exists (claimed lockv r0). repeat split; auto.
  apply in_map_iff. exists r0. split; auto. assert (E : claim_hit i ver r0 = true) by (apply claim_hit_spec; auto).
  now rewrite E.
Qed.

Lemma poll_msg_row : forall c p s i a, snd (do_poll c p s) = RMsg i a ->
  exists r0, In r0 (rows s) /\ r_id r0 = i /\
    (exists r1, In r1 (rows (fst (do_poll c p s))) /\ r_id r1 = i /\ r_mid r1 = r_mid r0)
    /\ acked (fst (do_poll c p s)) = acked s /\ now (fst (do_poll c p s)) = now s.
Proof.
  intros c p s i a H. unfold do_poll in *.
  assert (Rs : rows (fst (do_select c p s)) = rows s /\ acked (fst (do_select c p s)) = acked s /\ now (fst (do_select c p s)) = now s).
  { unfold do_select. destruct (pick c s); simpl; auto. }
  destruct (do_select c p s) as [s1 r1]. simpl in Rs. destruct Rs as (R1 & R2 & R3).
  assert (G : snd (let (s2, r2) := do_claim c p s1 in
                   match r2 with RMsg id a => (s2, RMsg id a) | RCorrupt => do_move_corrupt c p s2
                   | RRaise => (s2, RRaise) | _ => (s2, RNone) end) = RMsg i a ->
              exists r0, In r0 (rows s1) /\ r_id r0 = i /\
                (exists r1, In r1 (rows (fst (let (s2, r2) := do_claim c p s1 in
                   match r2 with RMsg id a => (s2, RMsg id a) | RCorrupt => do_move_corrupt c p s2
                   | RRaise => (s2, RRaise) | _ => (s2, RNone) end))) /\ r_id r1 = i /\ r_mid r1 = r_mid r0)
                /\ acked (fst (let (s2, r2) := do_claim c p s1 in
                   match r2 with RMsg id a => (s2, RMsg id a) | RCorrupt => do_move_corrupt c p s2
                   | RRaise => (s2, RRaise) | _ => (s2, RNone) end)) = acked s1
                /\ now (fst (let (s2, r2) := do_claim c p s1 in
                   match r2 with RMsg id a => (s2, RMsg id a) | RCorrupt => do_move_corrupt c p s2
                   | RRaise => (s2, RRaise) | _ => (s2, RNone) end)) = now s1).
  { pose proof (claim_msg_row c p s1) as Cm. destruct (do_claim c p s1) as [s2 r2]. simpl in Cm.
    destruct r2; simpl; try discriminate.
    - intros E. inversion E; subst. apply (Cm i a eq_refl).
    - intros E. unfold do_move_corrupt in E. destruct (get_pc p s2); discriminate. }
  rewrite <- R1, <- R2, <- R3.
  destruct r1 as [| | | | | |o| |]; try (apply G; exact H). destruct o; [apply G; exact H|discriminate].
Qed.

Theorem processor_ack_after_handler : forall c p ok s i a, inv s ->
  snd (step c (ProcOne p ok) s) = RMsg i a ->
  let s' := fst (step c (ProcOne p ok) s) in
  exists r0, In r0 (rows s) /\ r_id r0 = i /\
    if ok then (forall x, In x (rows s') -> r_id x <> i) /\ acked s' = r_mid r0 :: acked s
    else (exists r1, In r1 (rows s') /\ r_id r1 = i /\ r_mid r1 = r_mid r0 /\ r_lock r1 = None /\ r_deliver r1 = now s + retry_ms c)
         /\ acked s' = acked s.
Proof.
  intros c p ok s i a Hinv H s'. unfold s'. cbn [step fst snd] in *.
  pose proof (poll_msg_row c p s) as Pm. pose proof (inv_poll c p s Hinv) as Hi1.
  destruct (do_poll c p s) as [s1 r]. simpl in Pm, Hi1.
  destruct r; simpl in H; try discriminate. inversion H; subst id att.
  destruct (Pm i a eq_refl) as (r0 & Hin0 & Hid0 & (r1 & Hin1 & Hid1 & Hm1) & Hack & Hnow).
  exists r0. split; auto. split; auto. destruct Hi1 as ((N1 & _) & _).
  destruct ok; simpl.
  - unfold do_ack. destruct (take_in_some r_id i (rows s1) r1 Hin1 Hid1) as (r' & rest & T).
    unfold take_row. rewrite T. assert (r' = r1) by (symmetry; eapply take_unique; eauto). subst r'. simpl.
    destruct (take_keys _ _ _ _ _ T N1) as [_ Nin]. split.
    + intros x Hx E. apply Nin. rewrite <- E. now apply in_map.
    + congruence.
  - split; [|exact Hack]. exists (rescheduled (now s1 + retry_ms c) r1). split.
    + unfold upd_row. apply in_map_iff. exists r1. split; auto. rewrite Hid1, Z.eqb_refl. reflexivity.
    + simpl. repeat split; auto. congruence.
Qed.

(* ------------------------------------------------------------------------------------------------ *)
(* stalls: a row that poll_one skips for good and the sweep does not move                              *)
(* ------------------------------------------------------------------------------------------------ *)
Definition maxes_ok (c : cfg) (s : st) : Prop := forall r, In r (rows s) -> r_max r <= qmax c.
Definition op_limits_ok (c : cfg) (o : op) : bool :=
  match o with PushTx _ m | Inject _ _ m => m <=? qmax c | _ => true end.

Section Limits.
Variable c : cfg.
Hypothesis schema_le : schema_default_max_attempts <= qmax c.

Lemma mx_sub : forall s s', maxes_ok c s -> (forall r', In r' (rows s') -> exists r, In r (rows s) /\ r_max r' = r_max r) -> maxes_ok c s'.
Proof. intros s s' M H r' Hr. destruct (H r' Hr) as (r & Hin & E). rewrite E. auto. Qed.

Lemma mx_move : forall i s, maxes_ok c s -> maxes_ok c (move_to_dlq c i s).
Proof.
  intros i s M. rewrite move_spec. destruct (take_row i (rows s)) as [[r rest]|] eqn:T; auto.
  unfold take_row in T. destruct (take_some _ _ _ _ _ T) as (_ & _ & S & _). intros x Hx. apply M. auto.
Qed.
Lemma mx_replay : forall did s, maxes_ok c s -> maxes_ok c (fst (replay_dlq c did s)).
Proof.
  intros did s M. rewrite replay_spec. destruct (take_d did (dlq s)) as [[d rest]|]; simpl; auto.
  intros x Hx. simpl in Hx. apply in_app_or in Hx. destruct Hx as [Hx|[<-|[]]]; auto.
Qed.
Lemma mx_put : forall p v s, maxes_ok c s -> maxes_ok c (put_pc p v s).
Proof. intros p v s M. exact M. Qed.
Lemma mx_insert : forall s k dl at_ mx ve, maxes_ok c s -> mx <= qmax c -> maxes_ok c (insert s k dl at_ mx ve).
Proof. intros s k dl at_ mx ve M H x Hx. simpl in Hx. apply in_app_or in Hx. destruct Hx as [Hx|[<-|[]]]; auto. Qed.
Lemma mx_ack : forall i s, maxes_ok c s -> maxes_ok c (do_ack i s).
Proof.
  intros i s M. unfold do_ack. destruct (take_row i (rows s)) as [[r rest]|] eqn:T; auto.
  unfold take_row in T. destruct (take_some _ _ _ _ _ T) as (_ & _ & S & _). intros x Hx. apply M. auto.
Qed.
Lemma mx_upd : forall i f s, maxes_ok c s -> (forall r, r_max (f r) = r_max r) -> maxes_ok c (set_rows s (upd_row i f (rows s))).
Proof.
  intros i f s M Hf x Hx. simpl in Hx. apply in_upd_row in Hx. destruct Hx as (r & Hr & [[-> _]|[-> _]]); auto.
  rewrite Hf. auto.
Qed.
Lemma mx_select : forall p s, maxes_ok c s -> maxes_ok c (fst (do_select c p s)).
Proof. intros p s M. unfold do_select. destruct (pick c s); exact M. Qed.
Lemma mx_claim : forall p s, maxes_ok c s -> maxes_ok c (fst (do_claim c p s)).
Proof.
  intros p s M. unfold do_claim. destruct (get_pc p s) as [|i ver att k lockv| |]; auto.
  destruct (find (claim_hit i ver) (rows s)) as [r00|]; [|exact M].
  assert (G : forall x, In x (map (fun r => if claim_hit i ver r then claimed lockv r else r) (rows s)) -> r_max x <= qmax c).
  { intros x Hx. apply in_map_iff in Hx. destruct Hx as (r & E & Hr). subst x. destruct (claim_hit i ver r); simpl; auto. }
  destruct k; exact G.
Qed.
Lemma mx_move_corrupt : forall p s, maxes_ok c s -> maxes_ok c (fst (do_move_corrupt c p s)).
Proof. intros p s M. unfold do_move_corrupt. destruct (get_pc p s); auto. simpl. apply mx_put. now apply mx_move. Qed.
Lemma mx_poll : forall p s, maxes_ok c s -> maxes_ok c (fst (do_poll c p s)).
Proof.
  intros p s M. unfold do_poll. pose proof (mx_select p s M) as M1. destruct (do_select c p s) as [s1 r1]. simpl in M1.
  assert (G : maxes_ok c (fst (let (s2, r2) := do_claim c p s1 in
                   match r2 with RMsg id a => (s2, RMsg id a) | RCorrupt => do_move_corrupt c p s2
                   | RRaise => (s2, RRaise) | _ => (s2, RNone) end))).
  { pose proof (mx_claim p s1 M1) as M2. destruct (do_claim c p s1) as [s2 r2]. simpl in M2.
    destruct r2; simpl; auto. now apply mx_move_corrupt. }
  destruct r1 as [| | | | | |o| |]; auto. destruct o; auto.
Qed.
Lemma mx_fold : forall ids s, maxes_ok c s -> maxes_ok c (fold_left (fun s' i => move_to_dlq c i s') ids s).
Proof. induction ids as [|i ids IH]; simpl; intros; auto. apply IH. now apply mx_move. Qed.

Lemma mx_step : forall o s, maxes_ok c s -> op_limits_ok c o = true -> maxes_ok c (fst (step c o s)).
Proof.
  intros o s M Ho. destruct o; cbn [step fst]; simpl in Ho; auto.
  - apply mx_insert; auto. lia.
  - apply mx_insert; auto. lia.
  - apply mx_insert; auto. lia.
  - now apply mx_select.
  - now apply mx_claim.
  - now apply mx_move_corrupt.
  - now apply mx_poll.
  - now apply mx_ack.
  - unfold do_resched. now apply mx_upd.
  - unfold do_extend. simpl. now apply mx_upd.
  - unfold do_sweep_move. destruct (get_pc p s) as [| | |ids]; auto. destruct ids; simpl; auto. apply mx_put. now apply mx_move.
  - now apply mx_fold.
  - now apply mx_move.
  - destruct (cut_move_spec c id s k) as [E|E]; rewrite E; auto. now apply mx_move.
  - pose proof (mx_replay did s M) as G. destruct (replay_dlq c did s); auto.
  - destruct (cut_replay_spec c did s k) as [E|E]; rewrite E; auto. now apply mx_replay.
  - intros x [].
  - pose proof (mx_poll p s M) as G. destruct (do_poll c p s) as [s1 rr]. simpl in G.
    destruct rr; simpl; auto. destruct ok; simpl; [now apply mx_ack|unfold do_resched; now apply mx_upd].
Qed.

Lemma mx_run : forall ops s, maxes_ok c s -> forallb (op_limits_ok c) ops = true -> maxes_ok c (run c ops s).
Proof.
  induction ops as [|o ops IH]; simpl; intros s M H; auto. apply andb_true_iff in H. destruct H as [H1 H2].
  apply IH; auto. now apply mx_step.
Qed.
End Limits.

Ltac bool_lia :=
  repeat match goal with
         | |- context [Z.ltb ?a ?b] => destruct (Z.ltb_spec a b)
         | |- context [Z.leb ?a ?b] => destruct (Z.leb_spec a b)
         end; simpl; try reflexivity; try lia.

Theorem no_stall_when_limits_agree : forall c t0 ops r,
  schema_default_max_attempts <= qmax c ->              (* replayed rows get the schema default *)
  forallb (op_limits_ok c) ops = true ->                (* in-transaction pushes carry max_attempts <= the queue's *)
  In r (rows (run c ops (init t0))) -> stalled c r = false.
Proof.
  intros c t0 ops r Hs Ho Hin.
  assert (M : maxes_ok c (run c ops (init t0))) by (apply mx_run; auto; intros x []).
  specialize (M r Hin). unfold stalled, poll_limit, poll_att_cmp, sweep_pred, poll_limit_is_queue. bool_lia.
Qed.

(* a stalled row is, in every state in which it is present unchanged and at any time, neither selected nor swept *)
Theorem stalled_is_stuck : forall c r, stalled c r = true ->
  forall s, eligible c s r = false /\ ~ In (r_id r) (map r_id (filter (fun x => row_eqb x r) (filter (fun r => sweep_pred (r_att r) (r_max r) (qmax c)) (rows s)))).
Proof.
  intros c r H s. unfold stalled in H. apply andb_true_iff in H. destruct H as [H1 H2].
  apply negb_true_iff in H1. apply negb_true_iff in H2. split.
  - unfold eligible. rewrite H1. apply andb_false_r.
  - intros Hin. apply in_map_iff in Hin. destruct Hin as (x & _ & Hx). apply filter_In in Hx. destruct Hx as [Hx Hq].
    apply filter_In in Hx. destruct Hx as [_ Hp].
    unfold row_eqb in Hq. repeat (apply andb_true_iff in Hq; destruct Hq as [Hq ?]).
    repeat match goal with H : (_ =? _) = true |- _ => apply Z.eqb_eq in H end. congruence.
Qed.

(* ------------------------------------------------------------------------------------------------ *)
(* at-least-once 3: a due row is claimed within at most (number of due rows) consecutive polls         *)
(* ------------------------------------------------------------------------------------------------ *)
Lemma eligible_now : forall c s1 s2 x, now s1 = now s2 -> eligible c s1 x = eligible c s2 x.
Proof. intros c s1 s2 x E. unfold eligible, sql_now. rewrite E. reflexivity. Qed.

Lemma take_filter_len {A} (key : A -> Z) (f : A -> bool) : forall id l r rest,
  take key id l = Some (r, rest) -> (length (filter f rest) <= length (filter f l))%nat.
Proof.
  induction l as [|a l IH]; simpl; intros r rest H; [discriminate|].
  destruct (key a =? id).
  - inversion H; subst. destruct (f r); simpl; lia.
  - destruct (take key id l) as [[x t']|] eqn:T; [|discriminate]. inversion H; subst.
    specialize (IH _ _ eq_refl). simpl. destruct (f a); simpl; lia.
Qed.

Lemma filter_claim_len : forall (E : row -> bool) id ver lockv l,
  (forall x, In x l -> claim_hit id ver x = true -> E x = true /\ E (claimed lockv x) = false) ->
  (length (filter E (claim_rows id ver lockv l)) + length (filter (claim_hit id ver) l) = length (filter E l))%nat.
Proof.
  intros E id ver lockv. induction l as [|a l IH]; simpl; intros H; auto.
  assert (IH' := IH (fun x Hx => H x (or_intror Hx))).
  destruct (claim_hit id ver a) eqn:Hh.
  - destruct (H a (or_introl eq_refl) Hh) as [E1 E2]. rewrite E1, E2. simpl. lia.
  - destruct (E a); simpl; lia.
Qed.

Section Drain.
Variables (c : cfg) (p : nat).
Hypothesis lock_covers_skew : eff_skew c <= lock_ms c.

Lemma claimed_not_eligible : forall s r, eligible c s (claimed (now s + lock_ms c) r) = false.
Proof.
  intros s r. unfold eligible. simpl.
  assert (E : poll_lock_cmp (sec (now s + lock_ms c)) (sec (sql_now c s)) = false).
  { unfold poll_lock_cmp. apply Z.ltb_ge. unfold sec, sql_now. fold (eff_skew c). apply Z.div_le_mono; lia. }
  rewrite E. rewrite andb_false_r. reflexivity.
Qed.

(* one sequential poll when the SELECT finds r': what the state looks like afterwards *)
Lemma poll_effect : forall s r', inv s -> pick c s = Some r' ->
  let s' := fst (do_poll c p s) in
  now s' = now s /\ claims s' = (r_id r', r_ver r') :: claims s /\
  (forall x, In x (rows s) -> r_id x <> r_id r' -> In x (rows s')) /\
  (length (filter (eligible c s) (rows s')) < length (filter (eligible c s) (rows s)))%nat.
Proof.
  intros s r' Hinv P. pose proof (pick_in _ _ _ P) as Hin. pose proof (pick_eligible _ _ _ P) as He.
  destruct Hinv as ((N & _) & _).
  set (lockv := now s + lock_ms c).
  set (s1 := put_pc p (Selected (r_id r') (r_ver r') (r_att r') (r_kind r') lockv) s).
  assert (Hhit : claim_hit (r_id r') (r_ver r') r' = true) by (apply claim_hit_spec; auto).
  assert (Hf : exists r0, find (claim_hit (r_id r') (r_ver r')) (rows s) = Some r0 /\ r0 = r').
  { destruct (find (claim_hit (r_id r') (r_ver r')) (rows s)) as [r0|] eqn:F.
    - exists r0. split; auto. destruct (find_some _ _ F) as [Hi Hh]. apply claim_hit_spec in Hh.
      eapply nodup_keys_inj; eauto. tauto.
    - exfalso. pose proof (find_none _ _ F r' Hin). congruence. }
  destruct Hf as (r0 & F & ->).
  assert (Huniq : forall x, In x (rows s) -> claim_hit (r_id r') (r_ver r') x = true -> x = r').
  { intros x Hx Hh. apply claim_hit_spec in Hh. eapply nodup_keys_inj; eauto. tauto. }
  assert (Hlen : (length (filter (eligible c s) (claim_rows (r_id r') (r_ver r') lockv (rows s)))
                  < length (filter (eligible c s) (rows s)))%nat).
  { pose proof (filter_claim_len (eligible c s) (r_id r') (r_ver r') lockv (rows s)) as L.
    assert (Hpre : forall x, In x (rows s) -> claim_hit (r_id r') (r_ver r') x = true ->
                   eligible c s x = true /\ eligible c s (claimed lockv x) = false).
    { intros x Hx Hh. rewrite (Huniq x Hx Hh). split; auto. apply claimed_not_eligible. }
    specialize (L Hpre).
    assert (1 <= length (filter (claim_hit (r_id r') (r_ver r')) (rows s)))%nat.
    { assert (In r' (filter (claim_hit (r_id r') (r_ver r')) (rows s))) by (apply filter_In; auto).
      destruct (filter (claim_hit (r_id r') (r_ver r')) (rows s)); [contradiction|simpl; lia]. }
    lia. }
  assert (Hother : forall x, In x (rows s) -> r_id x <> r_id r' -> In x (claim_rows (r_id r') (r_ver r') lockv (rows s))).
  { intros x Hx Hne. unfold claim_rows. apply in_map_iff. exists x. split; auto.
    destruct (claim_hit (r_id r') (r_ver r') x) eqn:Hh; auto. apply claim_hit_spec in Hh. tauto. }
  assert (E1 : do_select c p s = (s1, RSel (Some (r_id r')))) by (unfold do_select; rewrite P; reflexivity).
  assert (G : get_pc p s1 = Selected (r_id r') (r_ver r') (r_att r') (r_kind r') lockv) by apply get_put_same.
  assert (F1 : find (claim_hit (r_id r') (r_ver r')) (rows s1) = Some r') by exact F.
  set (s2 := claim_state s1 (r_id r') (r_ver r') lockv (r_ver r')).
  assert (E2 : do_claim c p s1 =
               match r_kind r' with
               | Good => (put_pc p Idle s2, RMsg (r_id r') (r_att r' + 1))
               | BadJson => (put_pc p (MustMove (r_id r')) s2, RCorrupt)
               | BadType => (put_pc p Idle s2, RRaise)
               end).
  { unfold do_claim. rewrite G, F1. reflexivity. }
  unfold do_poll. rewrite E1, E2.
  destruct (r_kind r') eqn:Hk; cbn [fst snd].
  - (* Good *) simpl. repeat split; auto.
  - (* BadJson: claimed, then moved to the DLQ *)
    unfold do_move_corrupt. rewrite get_put_same. cbn [fst]. rewrite move_spec.
    change (rows (put_pc p (MustMove (r_id r')) s2)) with (claim_rows (r_id r') (r_ver r') lockv (rows s)).
    destruct (take_row (r_id r') (claim_rows (r_id r') (r_ver r') lockv (rows s))) as [[rr rest]|] eqn:T.
    + simpl. split; auto. split; auto. unfold take_row in T.
      assert (N2 : NoDup (map r_id (claim_rows (r_id r') (r_ver r') lockv (rows s)))).
      { assert (E : map r_id (claim_rows (r_id r') (r_ver r') lockv (rows s)) = map r_id (rows s)).
        { unfold claim_rows. rewrite map_map. apply map_ext. intros x. destruct (claim_hit (r_id r') (r_ver r') x); auto. }
        rewrite E. exact N. }
      split.
      * intros x Hx Hne. apply (take_rest_iff _ _ _ _ _ x T N2). split; auto.
      * pose proof (take_filter_len r_id (eligible c s) _ _ _ _ T). lia.
    + simpl. repeat split; auto.
  - (* BadType *) simpl. repeat split; auto.
Qed.

Theorem drain_claims_due : forall n s r, inv s ->
  (length (filter (eligible c s) (rows s)) <= n)%nat ->
  In r (rows s) -> eligible c s r = true ->
  exists k, (1 <= k <= n)%nat /\ In (r_id r, r_ver r) (claims (run c (repeat (PollOne p) k) s)).
Proof.
  induction n as [|n IH]; intros s r Hinv Hlen Hin He.
  - exfalso. assert (In r (filter (eligible c s) (rows s))) by (apply filter_In; auto).
    destruct (filter (eligible c s) (rows s)); [contradiction|simpl in Hlen; lia].
  - assert (N : NoDup (map r_id (rows s))) by apply Hinv.
    destruct (select_finds_due c s r N Hin He) as (r' & P & Hin' & He' & Hord).
    destruct (poll_effect s r' Hinv P) as (Hnow & Hcl & Hoth & Hlt).
    destruct (Z.eq_dec (r_id r') (r_id r)) as [E|E].
    + assert (r' = r) by (eapply nodup_keys_inj; eauto). subst r'.
      exists 1%nat. split; [lia|]. simpl. cbn [step fst]. rewrite Hcl. now left.
    + set (s' := fst (do_poll c p s)) in *.
      assert (Hinv' : inv s') by (apply inv_poll; auto).
      assert (Hel : forall x, eligible c s' x = eligible c s x) by (intros; apply eligible_now; auto).
      assert (Hlen' : (length (filter (eligible c s') (rows s')) <= n)%nat).
      { rewrite (filter_ext _ _ Hel). lia. }
      destruct (IH s' r Hinv' Hlen' (Hoth r Hin (not_eq_sym E))) as (k & Hk & Hc); [rewrite Hel; auto|].
      exists (S k). split; [lia|]. simpl. cbn [step fst]. exact Hc.
Qed.
End Drain.

Lemma filter_len_le {A} (f : A -> bool) : forall l, (length (filter f l) <= length l)%nat.
Proof. induction l as [|a l IH]; simpl; auto. destruct (f a); simpl; lia. Qed.

Theorem at_least_once_drain : forall c p s r,
  eff_skew c <= lock_ms c -> inv s -> In r (rows s) -> eligible c s r = true ->
  exists k, (1 <= k <= length (rows s))%nat /\ In (r_id r, r_ver r) (claims (run c (repeat (PollOne p) k) s)).
Proof.
  intros c p s r Hs Hinv Hin He.
  destruct (drain_claims_due c p Hs (length (filter (eligible c s) (rows s))) s r Hinv (le_n _) Hin He) as (k & Hk & Hc).
  exists k. split; auto. pose proof (filter_len_le (eligible c s) (rows s)). lia.
Qed.
