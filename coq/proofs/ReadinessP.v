(* Lemmas about model/Readiness.v: iff-characterisations of every evaluator, for upstream lists of
   any length. *)
From Coq Require Import List Bool Arith ZArith Lia.
Import ListNotations.
From Stab.model Require Import Base StatusM Readiness.

(* facts about the generated status sets, decided on the finite enumeration *)
Lemma halt_not_continuable : forall s, in_halt s = true -> in_continuable s = false.
Proof.
  intros s. generalize (forall_status (fun s => implb (in_halt s) (negb (in_continuable s))) eq_refl s).
  destruct (in_halt s), (in_continuable s); simpl; congruence.
Qed.

Lemma halt_is_complete : forall s, in_halt s = true -> is_complete s = true.
Proof.
  intros s. generalize (forall_status (fun s => implb (in_halt s) (is_complete s)) eq_refl s).
  destruct (in_halt s), (is_complete s); simpl; congruence.
Qed.

Lemma in_halt_is_halt : forall s, in_halt s = is_halt s.
Proof.
  intros s. generalize (forall_status (fun s => Bool.eqb (in_halt s) (is_halt s)) eq_refl s).
  destruct (in_halt s), (is_halt s); simpl; congruence.
Qed.

Lemma in_completed_is_complete : forall s, in_completed s = is_complete s.
Proof.
  intros s. generalize (forall_status (fun s => Bool.eqb (in_completed s) (is_complete s)) eq_refl s).
  destruct (in_completed s), (is_complete s); simpl; congruence.
Qed.

Lemma active_not_complete : forall s, in_active s = true -> is_complete s = false.
Proof.
  intros s. generalize (forall_status (fun s => implb (in_active s) (negb (is_complete s))) eq_refl s).
  destruct (in_active s), (is_complete s); simpl; congruence.
Qed.

(* ---- AND ---- *)
Lemma eval_and_ready_iff ups :
  rr_phase (eval_and ups) = P_READY <-> (forall u, In u ups -> in_continuable (snd u) = true).
Proof.
  unfold eval_and.
  destruct (is_nil (filter halted ups)) eqn:Hf; simpl.
  - apply is_nil_true in Hf. rewrite filter_nil_iff in Hf.
    destruct (is_nil (filter not_continuable ups)) eqn:Hn; simpl.
    + apply is_nil_true in Hn. rewrite filter_nil_iff in Hn. split; [|reflexivity].
      intros _ u Hu. specialize (Hn u Hu). unfold not_continuable in Hn.
      destruct (in_continuable (snd u)); simpl in *; congruence.
    + assert (filter not_continuable ups <> []) as Hne.
      { intro E. rewrite E in Hn. discriminate. }
      apply filter_nonnil_iff in Hne. destruct Hne as [x [Hx Hnc]].
      split.
      * destruct (is_nil (filter nc_active ups)); simpl; discriminate.
      * intros H. specialize (H x Hx). unfold not_continuable in Hnc. rewrite H in Hnc. discriminate.
  - assert (filter halted ups <> []) as Hne.
    { intro E. rewrite E in Hf. discriminate. }
    apply filter_nonnil_iff in Hne. destruct Hne as [x [Hx Hh]].
    split; [discriminate|]. intros H. specialize (H x Hx).
    unfold halted in Hh. apply halt_not_continuable in Hh. congruence.
Qed.

Lemma eval_and_skip_iff ups :
  rr_phase (eval_and ups) = P_SKIP <-> (exists u, In u ups /\ in_halt (snd u) = true).
Proof.
  unfold eval_and.
  destruct (is_nil (filter halted ups)) eqn:Hf; simpl.
  - apply is_nil_true in Hf. rewrite filter_nil_iff in Hf. split.
    + destruct (is_nil (filter not_continuable ups)); simpl; [discriminate|].
      destruct (is_nil (filter nc_active ups)); simpl; discriminate.
    + intros [u [Hu Hh]]. specialize (Hf u Hu). unfold halted in Hf. congruence.
  - split; [|reflexivity]. intros _.
    assert (filter halted ups <> []) as Hne by (intro E; rewrite E in Hf; discriminate).
    apply filter_nonnil_iff in Hne. destruct Hne as [x [Hx Hh]]. exists x. auto.
Qed.

(* ---- helper: existsb / forallb as Prop ---- *)
Lemma existsb_continuable ups :
  existsb continuable ups = true <-> exists u, In u ups /\ in_continuable (snd u) = true.
Proof. rewrite existsb_exists. unfold continuable. tauto. Qed.

(* ---- DISCRIMINATOR ---- *)
Lemma eval_discriminator_ready_iff st ups :
  rr_phase (eval_discriminator st ups) = P_READY <->
  (r_fired st = false /\ exists u, In u ups /\ in_continuable (snd u) = true).
Proof.
  unfold eval_discriminator. destruct (r_fired st); simpl.
  - split; [discriminate|intros [H _]; discriminate].
  - destruct (existsb continuable ups) eqn:E; simpl.
    + apply existsb_continuable in E. tauto.
    + split.
      * destruct (forallb halted ups); simpl; discriminate.
      * intros [_ H]. apply existsb_continuable in H. congruence.
Qed.

Lemma eval_discriminator_fired_not_ready st ups :
  r_fired st = true -> rr_phase (eval_discriminator st ups) = P_NOT_READY /\ rr_active (eval_discriminator st ups) = [].
Proof. intros H. unfold eval_discriminator. rewrite H. auto. Qed.

(* ---- MULTI_MERGE ---- *)
Lemma eval_multi_merge_ready_iff ups :
  rr_phase (eval_multi_merge ups) = P_READY <-> exists u, In u ups /\ in_continuable (snd u) = true.
Proof.
  unfold eval_multi_merge. destruct (existsb continuable ups) eqn:E; simpl.
  - apply existsb_continuable in E. tauto.
  - split.
    + destruct (forallb halted ups); simpl; discriminate.
    + intros H. apply existsb_continuable in H. congruence.
Qed.

(* ---- N_OF_M ---- *)
Lemma eval_n_of_m_ready_iff st ups :
  (0 < r_threshold st)%Z ->
  (rr_phase (eval_n_of_m st ups) = P_READY <->
   (r_fired st = false /\ (r_threshold st <= count_if continuable ups)%Z)).
Proof.
  intros Hpos. unfold eval_n_of_m, count_if.
  destruct (r_threshold st <=? 0)%Z eqn:E0; [apply Z.leb_le in E0; lia|].
  destruct (r_fired st); simpl.
  - split; [discriminate|intros [H _]; discriminate].
  - destruct (r_threshold st <=? Z.of_nat (length (filter continuable ups)))%Z eqn:E1; simpl.
    + apply Z.leb_le in E1. tauto.
    + apply Z.leb_gt in E1. split.
      * destruct (_ <? _)%Z; simpl; [discriminate|].
        destruct (is_nil _); simpl; discriminate.
      * intros [_ H]. lia.
Qed.

Lemma eval_n_of_m_skip_sound st ups :
  (0 < r_threshold st)%Z ->
  rr_phase (eval_n_of_m st ups) = P_SKIP ->
  (count_if continuable ups + count_if other ups < r_threshold st)%Z.
Proof.
  intros Hpos. unfold eval_n_of_m, count_if.
  destruct (r_threshold st <=? 0)%Z eqn:E0; [apply Z.leb_le in E0; lia|].
  destruct (r_fired st); simpl; [discriminate|].
  destruct (r_threshold st <=? Z.of_nat (length (filter continuable ups)))%Z; simpl; [discriminate|].
  destruct (_ <? _)%Z eqn:E2; simpl.
  - intros _. apply Z.ltb_lt in E2. exact E2.
  - destruct (is_nil _); simpl; discriminate.
Qed.

(* ---- OR ---- *)
Lemma eval_or_ready_iff st ups :
  rr_phase (eval_or st ups) = P_READY <->
  match r_activated st with
  | None => forall u, In u ups -> in_continuable (snd u) = true
  | Some act => forall u, In u ups -> mem_nat (fst u) act = true -> in_continuable (snd u) = true
  end.
Proof.
  unfold eval_or. destruct (r_activated st) as [act|].
  - match goal with |- context [is_nil ?f] => destruct (is_nil f) eqn:Hn end.
    + apply is_nil_true in Hn. rewrite filter_nil_iff in Hn. simpl. split; [|reflexivity].
      intros _ u Hu Hm. specialize (Hn u Hu). simpl in Hn. congruence.
    + rewrite eval_and_ready_iff. split.
      * intros H u Hu Hm. apply H. apply filter_In. auto.
      * intros H u Hu. apply filter_In in Hu. destruct Hu. auto.
  - apply eval_and_ready_iff.
Qed.

(* ---- top level: READY without a jump bypass implies the join condition of the property ---- *)
Theorem evaluate_readiness_ready_sound st ups :
  rr_phase (evaluate_readiness st ups false) = P_READY -> join_condition st ups.
Proof.
  unfold evaluate_readiness, join_condition.
  destruct (is_nil ups) eqn:Hn.
  - apply is_nil_true in Hn. subst ups. intros _.
    destruct (r_join st); try (intros u []); try (left; reflexivity).
    + destruct (r_activated st); intros u [].
    + destruct (_ <=? _)%Z; [intros u []|left; reflexivity].
  - destruct (r_join st).
    + apply eval_and_ready_iff.
    + apply eval_or_ready_iff.
    + intros H. right. apply eval_multi_merge_ready_iff. exact H.
    + intros H. right. apply eval_discriminator_ready_iff. exact H.
    + destruct (r_threshold st <=? 0)%Z eqn:E0.
      * unfold eval_n_of_m. rewrite E0. apply eval_and_ready_iff.
      * apply Z.leb_gt in E0. intros H. right. apply eval_n_of_m_ready_iff; [lia|exact H].
Qed.

(* and conversely: when the join condition holds and the upstream list is non-empty the evaluator says
   READY — so the evaluator neither starts early nor refuses a stage whose condition is met *)
Theorem evaluate_readiness_ready_complete st ups :
  join_condition st ups -> rr_phase (evaluate_readiness st ups false) = P_READY.
Proof.
  unfold evaluate_readiness, join_condition.
  destruct (is_nil ups) eqn:Hn; [reflexivity|].
  assert (ups <> []) as Hne by (intro E; subst; discriminate).
  destruct (r_join st).
  - apply eval_and_ready_iff.
  - apply eval_or_ready_iff.
  - intros [E|H]; [congruence|]. apply eval_multi_merge_ready_iff. exact H.
  - intros [E|H]; [congruence|]. apply eval_discriminator_ready_iff. exact H.
  - destruct (r_threshold st <=? 0)%Z eqn:E0.
    + unfold eval_n_of_m. rewrite E0. apply eval_and_ready_iff.
    + apply Z.leb_gt in E0. intros [E|H]; [congruence|]. apply eval_n_of_m_ready_iff; [lia|exact H].
Qed.

(* AND join: a halted upstream is never READY (a stage downstream of a halted stage never runs) *)
Theorem and_join_halted_never_ready ups u :
  In u ups -> in_halt (snd u) = true -> rr_phase (eval_and ups) <> P_READY.
Proof.
  intros Hu Hh H. rewrite eval_and_ready_iff in H. specialize (H u Hu).
  apply halt_not_continuable in Hh. congruence.
Qed.

(* recovery's _can_start agrees with the join condition for AND / N_OF_M (what it re-queues is ready) *)
Lemma can_start_and_sound st ups :
  r_join st = J_AND -> can_start st true false ups = true -> join_condition st ups.
Proof.
  intros Hj. unfold can_start, join_condition. rewrite Hj. simpl.
  rewrite forallb_forall. intros H u Hu. apply (H u Hu).
Qed.
