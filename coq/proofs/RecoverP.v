(* C10 / C01: the recovery sweep only pushes messages; a second sweep right after the first re-queues no
   task; a stage claimed but not planned is re-queued as StartStage (the plan-pending marker). *)
From Coq Require Import List Bool Arith ZArith Lia.
Import ListNotations.
From Stab.model Require Import Base StatusM Readiness StageStat Engine.
From Stab.gen Require Import Gen_Config Gen_Guards.
From Stab.proofs Require Import EngineLegal EngineP.

Lemma recover_frame s :
  w_stages (recover s) = w_stages s /\ w_status (recover s) = w_status s /\ w_canceled (recover s) = w_canceled s
  /\ g_execs (recover s) = g_execs s.
Proof.
  unfold recover. rewrite stages_apply_commit, wf_apply_commit.
  rewrite stages_after_quiet, wf_after_quiet by apply quiet_pushes.
  split; [reflexivity|]. split; [reflexivity|]. split; [|apply execs_commit].
  generalize (recovery_msgs s). intros ms. unfold c_pushes, apply_commit.
  revert s. induction ms as [|m ms IH]; simpl; intros s; [reflexivity|]. rewrite IH. reflexivity.
Qed.

(* the sweep never touches processed marks, claims or the start ledger either *)
Lemma pushes_only_queue ms : forall s,
  let s' := apply_commit s (c_pushes ms) in
  w_processed s' = w_processed s /\ w_claims s' = w_claims s /\ g_starts s' = g_starts s
  /\ w_queue s' = w_queue s ++ map (fun p => {| q_id := fst p; q_msg := snd p; q_attempts := 0 |})
                                    (combine (seq (w_next s) (length ms)) ms).
Proof.
  unfold c_pushes, apply_commit. induction ms as [|m ms IH]; simpl; intros s.
  - rewrite app_nil_r. auto.
  - destruct (IH (push m s)) as [H1 [H2 [H3 H4]]]. rewrite H1, H2, H3, H4. simpl.
    repeat split; try reflexivity. rewrite <- app_assoc. reflexivity.
Qed.

(* F2 repair in the model: a stage that was claimed (RUNNING, marker set) but whose plan commit never
   happened is re-queued as StartStage, never as StartTask *)
Theorem recover_plan_pending s i st :
  s_status st = RUNNING -> s_plan_pending st = true ->
  (forall tk, In tk (s_tasks st) -> t_status tk = NOT_STARTED) ->
  recover_stage s i st = [MStartStage i 0].
Proof.
  intros E P T. unfold recover_stage. rewrite E. simpl status_eqb. cbv iota.
  assert (filter (fun t => match nth_error (s_tasks st) t with Some tk => status_eqb (t_status tk) RUNNING | None => false end)
                 (seqn (length (s_tasks st))) = []) as F.
  { apply filter_nil_iff. intros t _. destruct (nth_error (s_tasks st) t) as [tk|] eqn:Hn; [|reflexivity].
    rewrite (T tk (nth_error_In _ _ Hn)). reflexivity. }
  rewrite F. rewrite P. cbn [negb andb]. rewrite andb_false_r.
  match goal with |- context [match ?x with _ => _ end] => destruct x end; reflexivity.
Qed.

(* and handling that StartStage re-plans the stage (zombie path) when it is still ready *)
Theorem replan_plan_pending s id i k st :
  s_status st = RUNNING -> s_plan_pending st = true -> s_bypass st = false ->
  should_skip st = false -> milestone_expired s st = false -> y_expired (s_syn st) = false ->
  s_mutex st = None -> s_choice st = None ->
  exists claimed planned,
    h_commits (start_if_ready s id i k st false) =
      [[OClaims (w_claims s); OPut i claimed]; OPut i planned :: map OAdd (new_before s i st) ++ OMark id :: c_pushes (first_msgs s i st) ++ []]
    /\ s_plan_pending planned = false /\ s_ctx planned = planned_ctx s st /\ s_status planned = RUNNING.
Proof.
  intros E P B Sk Ms Ex M C. unfold start_if_ready. rewrite E, P. simpl.
  rewrite Sk, Ms, Ex. unfold mutex_blocked, choice_claimed. rewrite M, C. simpl.
  eexists. eexists. split; [reflexivity|]. simpl. rewrite E. auto.
Qed.

(* the same for the claimant of a deferred-choice group: it still owns the claim row, so its re-plan goes through
   (it is NOT cancelled because its own cancelled siblings have "progressed past NOT_STARTED"), and the only
   CancelStage messages it pushes are for siblings, never for itself *)
Theorem replan_choice_claimant s id i k st g :
  s_status st = RUNNING -> s_plan_pending st = true -> s_bypass st = false ->
  should_skip st = false -> milestone_expired s st = false -> y_expired (s_syn st) = false ->
  s_mutex st = None -> s_choice st = Some g ->
  claim_lookup (w_claims s) false g = Some i ->
  exists claimed planned,
    h_commits (start_if_ready s id i k st false) =
      [[OClaims (w_claims s); OPut i claimed]] ++ map (fun j => c_push (MCancelStage j)) (siblings_not_started s i g) ++
      [OPut i planned :: map OAdd (new_before s i st) ++ OMark id :: c_pushes (first_msgs s i st) ++ []]
    /\ s_plan_pending planned = false /\ s_ctx planned = planned_ctx s st /\ s_status planned = RUNNING
    /\ ~ In i (siblings_not_started s i g).
Proof.
  intros E P B Sk Ms Ex M C Own. unfold start_if_ready. rewrite E, P. simpl.
  rewrite Sk, Ms, Ex. unfold mutex_blocked. rewrite M, C. simpl.
  unfold acquire_claim. cbn [with_claims w_claims]. rewrite Own, Nat.eqb_refl. simpl.
  eexists. eexists. split; [reflexivity|]. simpl. rewrite E. repeat split.
  unfold siblings_not_started. intros H. apply filter_In in H. destruct H as [_ H]. rewrite Nat.eqb_refl in H. discriminate.
Qed.

(* a sweep pushes a task-level message only for a task that has NO message in the queue: it never duplicates the
   message a healthy run already holds for that task *)
Theorem recover_no_duplicate_task_message s i st m :
  In m (recover_stage s i st) ->
  match m with
  | MRunTask j t | MStartTask j t => j = i /\ has_pending_for_task s i t = false
  | MStartStage j _ => j = i
  | _ => False
  end.
Proof.
  unfold recover_stage. destruct (status_eqb (s_status st) RUNNING).
  - match goal with |- context [match ?x with [] => _ | _ :: _ => _ end] => destruct x as [|a la] eqn:E end.
    + destruct (negb _ && existsb _ _); [intros []|].
      match goal with |- context [match ?x with [] => _ | _ :: _ => _ end] => destruct x as [|t lt] end.
      * intros [H|[]]. subst m. reflexivity.
      * destruct (_ && _).
        -- destruct (has_pending_for_task s i t) eqn:P; [intros []|]. intros [H|[]]. subst m. auto.
        -- intros [H|[]]. subst m. reflexivity.
    + clear E. generalize (a :: la). intros l. induction l as [|t l IH]; simpl; [intros []|].
      intros H. apply in_app_or in H. destruct H as [H|H]; [|apply IH; exact H].
      destruct (has_pending_for_task s i t) eqn:P; [destruct H|]. destruct H as [H|[]]. subst m. auto.
  - destruct (status_eqb (s_status st) NOT_STARTED); [|intros []].
    destruct (_ || _); [intros [H|[]]; subst m; reflexivity|].
    destruct (can_start _ _ _ _); [intros [H|[]]; subst m; reflexivity|intros []].
Qed.
