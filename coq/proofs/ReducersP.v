(* ReducersP: facts about the model of reducers.py (coq/model/Reducers.v) used by C16. *)
From Coq Require Import List Bool Arith ZArith Lia Permutation.
Import ListNotations.
From Stab.model Require Import Base Reducers.
Local Open Scope Z_scope.

(* ------------------------------------------------------------------------------------------ *)
(* equality on atoms is Leibniz equality                                                       *)
(* ------------------------------------------------------------------------------------------ *)
Lemma list_eqb_eq {A} (eqb : A -> A -> bool) :
  (forall a b, eqb a b = true <-> a = b) -> forall l m, list_eqb eqb l m = true <-> l = m.
Proof.
  intros Heq l. induction l as [|x l IH]; intros [|y m]; simpl; split; try congruence.
  - intros H. apply andb_true_iff in H as [H1 H2]. apply Heq in H1. apply IH in H2. congruence.
  - intros H. inversion H; subst. apply andb_true_iff. split; [now apply Heq|now apply IH].
Qed.

Lemma pair_eqb_eq p q : pair_eqb p q = true <-> p = q.
Proof.
  destruct p as [a b], q as [c d]. unfold pair_eqb. simpl. rewrite andb_true_iff, Nat.eqb_eq, Z.eqb_eq.
  split; [intros [-> ->]; reflexivity|intros H; inversion H; auto].
Qed.

Lemma atom_eqb_eq a b : atom_eqb a b = true <-> a = b.
Proof.
  destruct a as [|x|d], b as [|y|e]; simpl; split; try congruence; try reflexivity.
  - intros H. apply Z.eqb_eq in H. congruence.
  - intros H. inversion H. apply Z.eqb_refl.
  - intros H. apply (list_eqb_eq pair_eqb pair_eqb_eq) in H. congruence.
  - intros H. inversion H. now apply (list_eqb_eq pair_eqb pair_eqb_eq).
Qed.

Lemma existsb_atom_eqb i l : existsb (atom_eqb i) l = true <-> In i l.
Proof.
  rewrite existsb_exists. split.
  - intros [x [Hx He]]. apply atom_eqb_eq in He. now subst.
  - intros H. exists i. split; [assumption|now apply atom_eqb_eq].
Qed.

Lemma existsb_atom_eqb_false i l : existsb (atom_eqb i) l = false <-> ~ In i l.
Proof.
  rewrite <- existsb_atom_eqb. destruct (existsb (atom_eqb i) l); split; congruence.
Qed.

(* ------------------------------------------------------------------------------------------ *)
(* dict-as-association-list                                                                    *)
(* ------------------------------------------------------------------------------------------ *)
Lemma cget_cset_same k v c : cget k (cset k v c) = Some v.
Proof.
  induction c as [|[k' v'] c IH]; simpl.
  - now rewrite Nat.eqb_refl.
  - destruct (Nat.eqb k k') eqn:E; simpl; [now rewrite Nat.eqb_refl|now rewrite E].
Qed.

Lemma cget_cset_other k k' v c : k <> k' -> cget k' (cset k v c) = cget k' c.
Proof.
  intros Hne. induction c as [|[k0 v0] c IH]; simpl.
  - destruct (Nat.eqb k' k) eqn:E; [apply Nat.eqb_eq in E; congruence|reflexivity].
  - destruct (Nat.eqb k k0) eqn:E; simpl.
    + apply Nat.eqb_eq in E. subst k0.
      destruct (Nat.eqb k' k) eqn:E2; [apply Nat.eqb_eq in E2; congruence|reflexivity].
    + destruct (Nat.eqb k' k0); [reflexivity|exact IH].
Qed.

Lemma cget_cset k k' v c : cget k' (cset k v c) = if Nat.eqb k' k then Some v else cget k' c.
Proof.
  destruct (Nat.eqb k' k) eqn:E.
  - apply Nat.eqb_eq in E. subst. apply cget_cset_same.
  - apply Nat.eqb_neq in E. apply cget_cset_other. congruence.
Qed.

Lemma cget_Some_In k v c : cget k c = Some v -> In (k, v) c.
Proof.
  induction c as [|[k' v'] c IH]; simpl; [discriminate|].
  destruct (Nat.eqb k k') eqn:E.
  - apply Nat.eqb_eq in E. intros H. inversion H. subst. now left.
  - intros H. right. now apply IH.
Qed.

Lemma cget_None_notin k c : cget k c = None <-> ~ In k (map fst c).
Proof.
  induction c as [|[k' v'] c IH]; simpl.
  - tauto.
  - destruct (Nat.eqb k k') eqn:E.
    + apply Nat.eqb_eq in E. subst. split; [discriminate|intros H; exfalso; apply H; now left].
    + apply Nat.eqb_neq in E. rewrite IH. split; [intros H [Hk|Hk]; [congruence|tauto]|tauto].
Qed.

Lemma cget_in_keys k c : cget k c <> None <-> In k (map fst c).
Proof.
  rewrite cget_None_notin. destruct (in_dec Nat.eq_dec k (map fst c)); tauto.
Qed.

(* with unique keys, the entries of a dict are exactly its lookups *)
Lemma cget_of_In k v c : NoDup (map fst c) -> In (k, v) c -> cget k c = Some v.
Proof.
  induction c as [|[k' v'] c IH]; simpl; [tauto|].
  intros Hnd [H|H].
  - inversion H. subst. now rewrite Nat.eqb_refl.
  - inversion Hnd as [|? ? Hni Hnd']. subst.
    destruct (Nat.eqb k k') eqn:E.
    + apply Nat.eqb_eq in E. subst. exfalso. apply Hni. apply in_map_iff. exists (k', v). auto.
    + now apply IH.
Qed.

Lemma cupdate_get k c other :
  cget k (cupdate c other) = match cget k (cupdate [] other) with Some v => Some v | None => cget k c end.
Proof.
  unfold cupdate. revert c. induction other as [|[k0 v0] o IH] using rev_ind; intros c; simpl.
  - reflexivity.
  - rewrite !fold_left_app. simpl. rewrite !cget_cset.
    destruct (Nat.eqb k k0); [reflexivity|apply IH].
Qed.

(* ------------------------------------------------------------------------------------------ *)
(* sum: order-insensitive on every input (a non-number gives TypeError whatever the order)      *)
(* ------------------------------------------------------------------------------------------ *)
Definition int_or_none (v : value) : bool :=
  match v with VAtom ANone | VAtom (AInt _) => true | _ => false end.
Definition int_of (v : value) : Z := match v with VAtom (AInt z) => z | _ => 0 end.
Definition zsum (vs : list value) : Z := fold_right (fun v acc => int_of v + acc) 0 vs.

Lemma red_sum_from_char t vs :
  red_sum_from t vs = if forallb int_or_none vs then ROk (t + zsum vs) else RErr TypeErr.
Proof.
  revert t. induction vs as [|v vs IH]; intros t; simpl.
  - f_equal. lia.
  - destruct v as [[|z|d]|l]; simpl; try reflexivity.
    + rewrite IH. destruct (forallb int_or_none vs); [f_equal; lia|reflexivity].
    + rewrite IH. destruct (forallb int_or_none vs); [f_equal; lia|reflexivity].
Qed.

Lemma forallb_perm {A} (f : A -> bool) l l' : Permutation l l' -> forallb f l = forallb f l'.
Proof.
  induction 1; simpl; try congruence.
  destruct (f x), (f y); reflexivity.
Qed.

Lemma zsum_perm l l' : Permutation l l' -> zsum l = zsum l'.
Proof. induction 1; simpl; lia. Qed.

Lemma red_sum_perm xs ys : Permutation xs ys -> red_sum xs = red_sum ys.
Proof.
  intros H. unfold red_sum. rewrite !red_sum_from_char, (forallb_perm _ _ _ H), (zsum_perm _ _ H).
  reflexivity.
Qed.

(* what sum computes on numbers *)
Lemma red_sum_ints vs : forallb int_or_none vs = true -> red_sum vs = ROk (zsum vs).
Proof. intros H. unfold red_sum. now rewrite red_sum_from_char, H. Qed.

(* ------------------------------------------------------------------------------------------ *)
(* max / min over integers (None skipped)                                                      *)
(* ------------------------------------------------------------------------------------------ *)
Definition ints (vs : list value) : list Z :=
  flat_map (fun v => match v with VAtom (AInt z) => [z] | _ => [] end) vs.
Definition zop (gt : bool) : Z -> Z -> Z := if gt then Z.max else Z.min.
Definition zext (gt : bool) (l : list Z) : option Z :=
  match l with [] => None | z :: zs => Some (fold_left (zop gt) zs z) end.

Lemma zop_comm gt a b : zop gt a b = zop gt b a.
Proof. destruct gt; simpl; lia. Qed.
Lemma zop_assoc gt a b c : zop gt (zop gt a b) c = zop gt a (zop gt b c).
Proof. destruct gt; simpl; lia. Qed.

Lemma fold_zop_perm gt l l' : Permutation l l' -> forall c, fold_left (zop gt) l c = fold_left (zop gt) l' c.
Proof.
  induction 1; intros c; simpl; auto.
  - f_equal. rewrite !zop_assoc. f_equal. apply zop_comm.
  - now rewrite IHPermutation1.
Qed.

Lemma zext_perm gt l l' : Permutation l l' -> zext gt l = zext gt l'.
Proof.
  induction 1; simpl; auto.
  - f_equal. now apply fold_zop_perm.
  - f_equal. f_equal. apply zop_comm.
  - congruence.
Qed.

Lemma filter_not_none_ints vs :
  forallb int_or_none vs = true -> filter not_none vs = map (fun z => VAtom (AInt z)) (ints vs).
Proof.
  induction vs as [|v vs IH]; simpl; [reflexivity|].
  destruct v as [[|z|d]|l]; simpl; try discriminate; intros H.
  - now apply IH.
  - f_equal. now apply IH.
Qed.

Lemma extremum_from_ints gt c zs :
  extremum_from gt (VAtom (AInt c)) (map (fun z => VAtom (AInt z)) zs)
  = ROk (VAtom (AInt (fold_left (zop gt) zs c))).
Proof.
  revert c. induction zs as [|z zs IH]; intros c; simpl; [reflexivity|].
  destruct gt; simpl.
  - rewrite Z.gtb_ltb. destruct (Z.ltb_spec c z); rewrite IH.
    + now replace (Z.max c z) with z by lia.
    + now replace (Z.max c z) with c by lia.
  - destruct (Z.ltb_spec z c); rewrite IH.
    + now replace (Z.min c z) with z by lia.
    + now replace (Z.min c z) with c by lia.
Qed.

Lemma red_extremum_ints gt vs :
  forallb int_or_none vs = true ->
  red_extremum gt vs = match zext gt (ints vs) with Some z => ROk (VAtom (AInt z)) | None => RErr ValueErr end.
Proof.
  intros H. unfold red_extremum. rewrite (filter_not_none_ints _ H).
  destruct (ints vs) as [|z zs]; simpl; [reflexivity|apply extremum_from_ints].
Qed.

Lemma ints_perm xs ys : Permutation xs ys -> Permutation (ints xs) (ints ys).
Proof. intros H. unfold ints. now apply Permutation_flat_map. Qed.

Lemma red_extremum_perm gt xs ys :
  forallb int_or_none xs = true -> Permutation xs ys -> red_extremum gt xs = red_extremum gt ys.
Proof.
  intros Hi Hp. rewrite (red_extremum_ints gt xs Hi).
  rewrite (red_extremum_ints gt ys) by (now rewrite <- (forallb_perm _ _ _ Hp)).
  now rewrite (zext_perm gt _ _ (ints_perm _ _ Hp)).
Qed.

(* the extremum really is one: a bound that is attained *)
Lemma fold_zop_bound (gt : bool) (zs : list Z) : forall (c x : Z),
  In x (c :: zs) -> if gt then x <= fold_left (zop gt) zs c else fold_left (zop gt) zs c <= x.
Proof.
  induction zs as [|z zs IH]; intros c x Hx.
  - destruct Hx as [->|[]]. simpl. destruct gt; lia.
  - simpl fold_left. assert (H1 := IH (zop gt c z) (zop gt c z) (or_introl eq_refl)).
    destruct Hx as [->|[->|Hx]].
    + destruct gt; simpl in *; lia.
    + destruct gt; simpl in *; lia.
    + apply IH. now right.
Qed.

Lemma fold_zop_attained (gt : bool) (zs : list Z) (c : Z) : In (fold_left (zop gt) zs c) (c :: zs).
Proof.
  revert c. induction zs as [|z zs IH]; intros c; simpl; [now left|].
  destruct (IH (zop gt c z)) as [H|H]; [|right; now right].
  rewrite <- H. destruct gt; simpl; [destruct (Z.max_spec c z) as [[_ ->]|[_ ->]]|destruct (Z.min_spec c z) as [[_ ->]|[_ ->]]]; auto.
Qed.

(* ------------------------------------------------------------------------------------------ *)
(* collect / append / extend                                                                   *)
(* ------------------------------------------------------------------------------------------ *)
Lemma red_collect_perm xs ys : Permutation xs ys -> Permutation (red_collect xs) (red_collect ys).
Proof. intros H. unfold red_collect. now apply Permutation_flat_map. Qed.

Lemma red_extend_perm xs ys : Permutation xs ys -> Permutation (red_extend xs) (red_extend ys).
Proof. intros H. unfold red_extend. now apply Permutation_flat_map. Qed.

(* ------------------------------------------------------------------------------------------ *)
(* merge                                                                                       *)
(* ------------------------------------------------------------------------------------------ *)
Lemma dict_get_set k k' v d : dict_get k' (dict_set k v d) = if Nat.eqb k' k then Some v else dict_get k' d.
Proof.
  induction d as [|[k0 v0] d IH]; simpl.
  - reflexivity.
  - destruct (Nat.ltb k k0) eqn:Elt; simpl.
    + reflexivity.
    + destruct (Nat.eqb k k0) eqn:Eeq; simpl.
      * apply Nat.eqb_eq in Eeq. subst k0.
        destruct (Nat.eqb k' k) eqn:E; reflexivity.
      * rewrite IH. destruct (Nat.eqb k' k0) eqn:E0; [|reflexivity].
        apply Nat.eqb_eq in E0. subst k0.
        destruct (Nat.eqb k' k) eqn:E; [|reflexivity].
        apply Nat.eqb_eq in E. subst. now rewrite Nat.eqb_refl in Eeq.
Qed.

(* the last binding of k in a raw pair list *)
Definition find_last (k : nat) (d : list (nat * Z)) : option Z :=
  fold_left (fun acc kv => if Nat.eqb k (fst kv) then Some (snd kv) else acc) d None.

Lemma find_last_app k d e :
  find_last k (d ++ e) = match find_last k e with Some z => Some z | None => find_last k d end.
Proof.
  unfold find_last. rewrite fold_left_app. generalize (fold_left (fun acc kv => if Nat.eqb k (fst kv) then Some (snd kv) else acc) d None).
  induction e as [|[k0 v0] e IH] using rev_ind; intros o; simpl; [reflexivity|].
  rewrite !fold_left_app. simpl. destruct (Nat.eqb k k0); [reflexivity|apply IH].
Qed.

Lemma dict_get_update k out d :
  dict_get k (dict_update out d) = match find_last k d with Some z => Some z | None => dict_get k out end.
Proof.
  unfold dict_update. induction d as [|[k0 v0] d IH] using rev_ind; simpl; [reflexivity|].
  rewrite fold_left_app, find_last_app. simpl. rewrite dict_get_set.
  unfold find_last at 1. simpl. destruct (Nat.eqb k k0); [reflexivity|exact IH].
Qed.

Definition dict_of (v : value) : list (nat * Z) := match v with VAtom (ADict d) => d | _ => [] end.
Definition defines (k : nat) (v : value) : bool :=
  match find_last k (dict_of v) with Some _ => true | None => false end.

(* the value merge() ends up with for key k *)
Definition klast (k : nat) (vs : list value) : option Z :=
  fold_left (fun acc v => match find_last k (dict_of v) with Some z => Some z | None => acc end) vs None.

Lemma red_merge_get_from k vs out :
  dict_get k (fold_left (fun out v => match v with VAtom (ADict d) => dict_update out d | _ => out end) vs out)
  = match klast k vs with Some z => Some z | None => dict_get k out end.
Proof.
  unfold klast. induction vs as [|v vs IH] using rev_ind; simpl; [reflexivity|].
  rewrite !fold_left_app. simpl.
  destruct v as [[|z|d]|l]; simpl; try exact IH.
  rewrite dict_get_update. destruct (find_last k d); [reflexivity|exact IH].
Qed.

Lemma red_merge_get k vs : dict_get k (red_merge vs) = klast k vs.
Proof. unfold red_merge. rewrite red_merge_get_from. now destruct (klast k vs). Qed.

Lemma klast_filter k vs : klast k vs = klast k (filter (defines k) vs).
Proof.
  unfold klast. induction vs as [|v vs IH] using rev_ind; simpl; [reflexivity|].
  rewrite filter_app, fold_left_app. simpl. unfold defines at 2.
  destruct (find_last k (dict_of v)) eqn:E; simpl.
  - rewrite fold_left_app. simpl. now rewrite E.
  - rewrite app_nil_r. exact IH.
Qed.

Lemma filter_perm {A} (f : A -> bool) l l' : Permutation l l' -> Permutation (filter f l) (filter f l').
Proof.
  induction 1; simpl; auto.
  - destruct (f x); auto.
  - destruct (f x), (f y); auto. apply perm_swap.
  - eapply perm_trans; eauto.
Qed.

(* branch dicts are key-disjoint: no key is bound by two of the values *)
Definition key_disjoint (vs : list value) : Prop :=
  forall k, (length (filter (defines k) vs) <= 1)%nat.

Lemma red_merge_perm xs ys :
  Permutation xs ys -> key_disjoint xs -> forall k, dict_get k (red_merge xs) = dict_get k (red_merge ys).
Proof.
  intros Hp Hd k. rewrite !red_merge_get, (klast_filter k xs), (klast_filter k ys).
  assert (Hf := filter_perm (defines k) _ _ Hp). specialize (Hd k).
  destruct (filter (defines k) xs) as [|a [|b r]] eqn:E.
  - apply Permutation_nil in Hf. now rewrite Hf.
  - destruct (filter (defines k) ys) as [|a' [|b' r']] eqn:E'.
    + apply Permutation_sym, Permutation_nil in Hf. discriminate.
    + apply Permutation_length_1 in Hf. now subst.
    + apply Permutation_length in Hf. simpl in Hf. lia.
  - simpl in Hd. lia.
Qed.

(* ------------------------------------------------------------------------------------------ *)
(* apply_output_reducers                                                                       *)
(* ------------------------------------------------------------------------------------------ *)
Lemma branch_values_perm key b1 b2 : Permutation b1 b2 -> Permutation (branch_values key b1) (branch_values key b2).
Proof. intros H. unfold branch_values. now apply Permutation_flat_map. Qed.

Lemma branch_values_In key v bs : In v (branch_values key bs) <-> exists o, In o bs /\ cget key o = Some v.
Proof.
  unfold branch_values. rewrite in_flat_map. split.
  - intros [o [Ho Hv]]. exists o. split; [assumption|]. destruct (cget key o); simpl in Hv; [destruct Hv as [->|[]]; reflexivity|tauto].
  - intros [o [Ho Hv]]. exists o. split; [assumption|]. rewrite Hv. now left.
Qed.

Definition order_insensitive (rn : rname) : bool :=
  match rn with RSum | RMax | RMin => true | _ => false end.

Lemma apply_reducer_perm rn xs ys :
  order_insensitive rn = true -> forallb int_or_none xs = true -> Permutation xs ys ->
  apply_reducer rn xs = apply_reducer rn ys.
Proof.
  intros Hr Hi Hp. destruct rn; simpl in Hr; try discriminate; simpl.
  - now rewrite (red_sum_perm _ _ Hp).
  - now apply red_extremum_perm.
  - now apply red_extremum_perm.
Qed.

Lemma apply_output_reducers_from_perm reds b1 b2 :
  Permutation b1 b2 ->
  (forall key rn, In (key, rn) reds -> order_insensitive rn = true) ->
  (forall key rn o v, In (key, rn) reds -> In o b1 -> cget key o = Some v -> int_or_none v = true) ->
  forall result, apply_output_reducers_from result reds b1 = apply_output_reducers_from result reds b2.
Proof.
  intros Hp. induction reds as [|[key rn] reds IH]; intros Hr Hi result; simpl; [reflexivity|].
  assert (Hrn : order_insensitive rn = true) by (apply (Hr key); now left).
  assert (Hv := branch_values_perm key _ _ Hp).
  assert (Hints : forallb int_or_none (branch_values key b1) = true).
  { apply forallb_forall. intros v Hin. apply branch_values_In in Hin as [o [Ho Hc]].
    apply (Hi key rn o v); auto. now left. }
  assert (IH' : forall r, apply_output_reducers_from r reds b1 = apply_output_reducers_from r reds b2).
  { apply IH; intros; [eapply Hr|eapply Hi]; try right; eauto. }
  destruct rn; simpl in Hrn; try discriminate.
  all: destruct (branch_values key b1) as [|v1 r1] eqn:E1.
  all: try (apply Permutation_nil in Hv; rewrite Hv; apply IH').
  all: destruct (branch_values key b2) as [|v2 r2] eqn:E2;
       [apply Permutation_sym, Permutation_nil in Hv; discriminate|].
  all: rewrite (apply_reducer_perm _ (v1 :: r1) (v2 :: r2)) by (auto).
  all: destruct (apply_reducer _ (v2 :: r2)); [apply IH'|reflexivity].
Qed.

(* keys of the reducer result: exactly the reducer keys some branch produced *)
Lemma apply_output_reducers_from_keys reds bs : forall result out,
  apply_output_reducers_from result reds bs = ROk out ->
  forall k, cget k out <> None <->
            (cget k result <> None \/ (In k (map fst reds) /\ branch_values k bs <> [])).
Proof.
  induction reds as [|[key rn] reds IH]; intros result out H k; simpl in *.
  - inversion H. subst. tauto.
  - destruct (branch_values key bs) as [|v vs] eqn:E.
    + assert (H' : apply_output_reducers_from result reds bs = ROk out) by (destruct rn; try discriminate; exact H).
      rewrite (IH _ _ H' k). split; [intros [?|[? ?]]; auto|].
      intros [?|[[Hk|Hk] Hb]]; auto. subst. congruence.
    + destruct (apply_reducer rn (v :: vs)) as [w|e] eqn:Ea.
      * assert (H' : apply_output_reducers_from (cset key w result) reds bs = ROk out) by (destruct rn; try discriminate; exact H).
        rewrite (IH _ _ H' k), cget_cset. destruct (Nat.eqb k key) eqn:Ek.
        -- apply Nat.eqb_eq in Ek. subst. split; [intros _|intros _; left; discriminate].
           right. split; [now left|congruence].
        -- apply Nat.eqb_neq in Ek. split; [intros [?|[? ?]]; auto|].
           intros [?|[[Hk|Hk] Hb]]; auto; try congruence.
      * destruct rn; discriminate.
Qed.

(* ------------------------------------------------------------------------------------------ *)
(* every branch is taken into account                                                          *)
(* ------------------------------------------------------------------------------------------ *)
Lemma red_extremum_spec gt vs z :
  forallb int_or_none vs = true -> red_extremum gt vs = ROk (VAtom (AInt z)) ->
  In z (ints vs) /\ forall x, In x (ints vs) -> if gt then x <= z else z <= x.
Proof.
  intros Hi H. rewrite (red_extremum_ints gt vs Hi) in H.
  destruct (ints vs) as [|c zs]; simpl in H; [discriminate|]. inversion H. subst z. split.
  - apply fold_zop_attained.
  - intros x Hx. now apply fold_zop_bound.
Qed.

Lemma red_collect_In vs x :
  In x (red_collect vs) <-> exists v, In v vs /\ (v = VAtom x \/ exists l, v = VList l /\ In x l).
Proof.
  unfold red_collect. rewrite in_flat_map. split.
  - intros [v [Hv Hx]]. exists v. split; [assumption|]. destruct v as [a|l]; simpl in Hx.
    + destruct Hx as [->|[]]. now left.
    + right. exists l. auto.
  - intros [v [Hv [->|[l [-> Hl]]]]]; [exists (VAtom x)|exists (VList l)]; simpl; auto.
Qed.
