(* C14: lemmas about model/Retry.v (the queue round trip of a retry) and about the RunTask handler of model/Engine.v. *)
From Coq Require Import List Bool Arith ZArith Lia String.
Import ListNotations.
From Stab.model Require Import Base StatusM Readiness StageStat Engine Retry.
From Stab.gen Require Import Gen_Config Gen_Guards Gen_Queue Gen_Messages Gen_Retry.
From Stab.proofs Require Import EngineP EngineLegal.

(* ------------------------------------------------------------------------------------------ *)
(* Part 1: the round trip (model/Retry.v)                                                       *)
(* ------------------------------------------------------------------------------------------ *)

(* what the first delivery of ANY freshly pushed row shows: the row's attempts column + 1; the carried value is gone *)
Lemma poll_fresh_row via m :
  poll (push_row via m) = Some ({| r_carried := m_attempts m; r_attempts := 1 |}, {| m_attempts := 1 |}).
Proof. destruct via; reflexivity. Qed.

Lemma first_seen_is_one : first_seen = Some 1%Z.
Proof. reflexivity. Qed.

(* C14_round_trip: the count seen by the next delivery does not depend on the count seen now *)
Lemma round_trip_forgets seen :
  round_trip seen = if retry_guard seen default_max_attempts then first_seen else None.
Proof.
  unfold round_trip, decide. destruct (retry_guard seen default_max_attempts); [|reflexivity].
  rewrite poll_fresh_row. reflexivity.
Qed.

Lemma round_trip_not_increasing : exists seen, round_trip seen = Some 1%Z /\ (1 < seen)%Z.
Proof. exists 5%Z. split; reflexivity. Qed.

(* the chain on the code as it is: n deliveries, n executions, never terminal *)
Lemma chain_unbounded n : chain round_trip default_max_attempts n 1%Z = (n, StillRetrying).
Proof.
  induction n as [|n IH]; [reflexivity|].
  cbn [chain]. rewrite round_trip_forgets.
  change (retry_guard 1 default_max_attempts) with true. cbn iota. rewrite first_seen_is_one, IH. reflexivity.
Qed.

(* the repaired delivery function: attempts grow by one per retry *)
Definition grows_by_one (deliver : Z -> option Z) : Prop := forall a, deliver a = Some (a + 1)%Z.

Lemma retry_guard_lt a m : retry_guard a m = true <-> (a + 1 < m)%Z.
Proof. unfold retry_guard. apply Z.ltb_lt. Qed.

Definition expected_execs (budget seen : Z) : nat := Z.to_nat (Z.max 1 (budget - seen)).

Lemma chain_bounded deliver budget :
  grows_by_one deliver ->
  forall fuel seen,
    (fst (chain deliver budget fuel seen) <= expected_execs budget seen)%nat /\
    (expected_execs budget seen <= fuel -> chain deliver budget fuel seen = (expected_execs budget seen, Terminal))%nat.
Proof.
  intros Hd. unfold expected_execs. induction fuel as [|f IH]; intros seen.
  - split; [simpl; lia|]. intros H. exfalso. lia.
  - cbn [chain]. destruct (retry_guard seen budget) eqn:G.
    + apply retry_guard_lt in G. rewrite Hd. destruct (IH (seen + 1)%Z) as [IH1 IH2].
      cbn [fst snd]. split.
      * replace (Z.to_nat (Z.max 1 (budget - seen))) with (S (Z.to_nat (Z.max 1 (budget - (seen + 1))))) by lia. lia.
      * intros H.
        replace (Z.to_nat (Z.max 1 (budget - seen))) with (S (Z.to_nat (Z.max 1 (budget - (seen + 1))))) in * by lia.
        rewrite IH2 by lia. reflexivity.
    + assert (~ (seen + 1 < budget)%Z) as G' by (intros H; apply retry_guard_lt in H; congruence).
      cbn [fst]. replace (Z.to_nat (Z.max 1 (budget - seen))) with 1%nat by lia. split; [lia|reflexivity].
Qed.

Lemma carried_grows : grows_by_one carried_delivery.
Proof. intros a. reflexivity. Qed.

(* redelivery of one row: attempts seen grow with the column, and the attempts filter ends it *)
Lemma redeliver_spec k : forall r,
  redeliver k r = if (r_attempts r + Z.of_nat k <? queue_max_attempts)%Z
                  then Some (r_attempts r + Z.of_nat k + 1)%Z else None.
Proof.
  induction k as [|k IH]; intros r.
  - cbn [redeliver]. unfold poll. change (poll_att_cmp (r_attempts r) queue_max_attempts) with (r_attempts r <? queue_max_attempts)%Z.
    replace (r_attempts r + Z.of_nat 0)%Z with (r_attempts r) by lia.
    destruct (r_attempts r <? queue_max_attempts)%Z; [|reflexivity].
    change (field_overwritten "attempts") with true. cbn iota. unfold poll_seen_attempts. reflexivity.
  - cbn [redeliver]. unfold poll. change (poll_att_cmp (r_attempts r) queue_max_attempts) with (r_attempts r <? queue_max_attempts)%Z.
    destruct (r_attempts r <? queue_max_attempts)%Z eqn:E.
    + rewrite IH. cbn [r_attempts]. change claim_att_inc with 1%Z.
      replace (r_attempts r + 1 + Z.of_nat k)%Z with (r_attempts r + Z.of_nat (S k))%Z by lia. reflexivity.
    + apply Z.ltb_ge in E. destruct (r_attempts r + Z.of_nat (S k) <? queue_max_attempts)%Z eqn:E2; [|reflexivity].
      apply Z.ltb_lt in E2. lia.
Qed.
