(* C14: lemmas about model/Retry.v (the queue round trip of a retry) and about the RunTask handler of model/Engine.v. *)
From Coq Require Import List Bool Arith ZArith Lia.
Import ListNotations.
From Stab.model Require Import Base StatusM Readiness StageStat Engine Retry.
From Stab.gen Require Import Gen_Config Gen_Guards Gen_Queue Gen_Messages Gen_Retry.
From Stab.proofs Require Import EngineP EngineLegal EngineEx.
Local Open Scope nat_scope.

(* ------------------------------------------------------------------------------------------ *)
(* Part 1: the round trip (model/Retry.v)                                                       *)
(* ------------------------------------------------------------------------------------------ *)

(* what the first delivery of ANY freshly pushed row shows: the row's attempts column + 1; the carried value is gone *)
Lemma poll_fresh_row via m :
  poll (push_row via m) = Some ({| r_carried := m_attempts m; r_attempts := 1 |}, {| m_attempts := 1 |}).
Proof. destruct via; reflexivity. Qed.

Lemma first_seen_is_one : first_seen = Some 1%Z.
Proof. reflexivity. Qed.

(* C14_round_trip: the count seen by the next delivery does not depend on the count seen now *)
Lemma round_trip_forgets seen :
  round_trip seen = if retry_guard seen default_max_attempts then first_seen else None.
Proof.
  unfold round_trip, decide. destruct (retry_guard seen default_max_attempts); [|reflexivity].
  rewrite poll_fresh_row. reflexivity.
Qed.

Lemma round_trip_not_increasing : exists seen, round_trip seen = Some 1%Z /\ (1 < seen)%Z.
Proof. exists 5%Z. split; reflexivity. Qed.

(* the chain on the code as it is: n deliveries, n executions, never terminal *)
Lemma chain_unbounded n : chain round_trip default_max_attempts n 1%Z = (n, StillRetrying).
Proof.
  induction n as [|n IH]; [reflexivity|].
  cbn [chain]. rewrite round_trip_forgets.
  change (retry_guard 1 default_max_attempts) with true. cbn iota. rewrite first_seen_is_one, IH. reflexivity.
Qed.

(* the repaired delivery function: attempts grow by one per retry *)
Definition grows_by_one (deliver : Z -> option Z) : Prop := forall a, deliver a = Some (a + 1)%Z.

Lemma retry_guard_lt a m : retry_guard a m = true <-> (a + 1 < m)%Z.
Proof. unfold retry_guard. apply Z.ltb_lt. Qed.

Definition expected_execs (budget seen : Z) : nat := Z.to_nat (Z.max 1 (budget - seen)).

Lemma chain_bounded deliver budget :
  grows_by_one deliver ->
  forall fuel seen,
    (fst (chain deliver budget fuel seen) <= expected_execs budget seen)%nat /\
    (expected_execs budget seen <= fuel -> chain deliver budget fuel seen = (expected_execs budget seen, Terminal))%nat.
Proof.
  intros Hd. unfold expected_execs. induction fuel as [|f IH]; intros seen.
  - split; [simpl; lia|]. intros H. exfalso. lia.
  - cbn [chain]. destruct (retry_guard seen budget) eqn:G.
    + apply retry_guard_lt in G. rewrite Hd. destruct (IH (seen + 1)%Z) as [IH1 IH2].
      cbn [fst snd]. split.
      * replace (Z.to_nat (Z.max 1 (budget - seen))) with (S (Z.to_nat (Z.max 1 (budget - (seen + 1))))) by lia. lia.
      * intros H.
        replace (Z.to_nat (Z.max 1 (budget - seen))) with (S (Z.to_nat (Z.max 1 (budget - (seen + 1))))) in * by lia.
        rewrite IH2 by lia. reflexivity.
    + assert (~ (seen + 1 < budget)%Z) as G' by (intros H; apply retry_guard_lt in H; congruence).
      cbn [fst]. replace (Z.to_nat (Z.max 1 (budget - seen))) with 1%nat by lia. split; [lia|reflexivity].
Qed.

Lemma carried_grows : grows_by_one carried_delivery.
Proof. intros a. reflexivity. Qed.

(* redelivery of one row: attempts seen grow with the column, and the attempts filter ends it *)
Lemma redeliver_spec k : forall r,
  redeliver k r = if (r_attempts r + Z.of_nat k <? queue_max_attempts)%Z
                  then Some (r_attempts r + Z.of_nat k + 1)%Z else None.
Proof.
  induction k as [|k IH]; intros r.
  - cbn [redeliver]. unfold poll. change (poll_att_cmp (r_attempts r) queue_max_attempts) with (r_attempts r <? queue_max_attempts)%Z.
    replace (r_attempts r + Z.of_nat 0)%Z with (r_attempts r) by lia.
    destruct (r_attempts r <? queue_max_attempts)%Z; [|reflexivity].
    replace (field_overwritten _) with true by reflexivity. cbn iota. unfold poll_seen_attempts. reflexivity.
  - cbn [redeliver]. unfold poll. change (poll_att_cmp (r_attempts r) queue_max_attempts) with (r_attempts r <? queue_max_attempts)%Z.
    destruct (r_attempts r <? queue_max_attempts)%Z eqn:E.
    + rewrite IH. cbn [r_attempts]. change claim_att_inc with 1%Z.
      replace (r_attempts r + 1 + Z.of_nat k)%Z with (r_attempts r + Z.of_nat (S k))%Z by lia. reflexivity.
    + apply Z.ltb_ge in E. destruct (r_attempts r + Z.of_nat (S k) <? queue_max_attempts)%Z eqn:E2; [|reflexivity].
      apply Z.ltb_lt in E2. lia.
Qed.

(* ------------------------------------------------------------------------------------------ *)
(* Part 2: model/Engine.v                                                                      *)
(* ------------------------------------------------------------------------------------------ *)
(* ---- kv facts ---- *)
Lemma kv_get_set_same k v m : kv_get k (kv_set k v m) = Some v.
Proof.
  induction m as [|[k' v'] m IH]; simpl.
  - rewrite Nat.eqb_refl. reflexivity.
  - destruct (k <? k') eqn:E1; simpl.
    + rewrite Nat.eqb_refl. reflexivity.
    + destruct (k =? k') eqn:E2; simpl.
      * rewrite Nat.eqb_refl. reflexivity.
      * rewrite E2. exact IH.
Qed.

Lemma kv_get_set_other k k' v m : k <> k' -> kv_get k (kv_set k' v m) = kv_get k m.
Proof.
  intros Hn. induction m as [|[k2 v2] m IH]; simpl.
  - destruct (k =? k') eqn:E; [apply Nat.eqb_eq in E; congruence|reflexivity].
  - destruct (k' <? k2) eqn:E1; simpl.
    + destruct (k =? k') eqn:E; [apply Nat.eqb_eq in E; congruence|reflexivity].
    + destruct (k' =? k2) eqn:E2; simpl.
      * apply Nat.eqb_eq in E2. subst k2.
        destruct (k =? k') eqn:E; [apply Nat.eqb_eq in E; congruence|reflexivity].
      * destruct (k =? k2); [reflexivity|exact IH].
Qed.

(* the last binding of k in an update list *)
Fixpoint last_binding (k : nat) (c : kv) : option Z :=
  match c with
  | [] => None
  | (k', v) :: r => match last_binding k r with Some w => Some w | None => if k =? k' then Some v else None end
  end.

Lemma kv_get_update k c : forall m,
  kv_get k (kv_update m c) = match last_binding k c with Some v => Some v | None => kv_get k m end.
Proof.
  unfold kv_update. induction c as [|[k' v] c IH]; intros m; simpl; [reflexivity|].
  rewrite IH. destruct (last_binding k c); [reflexivity|].
  destruct (k =? k') eqn:E.
  - apply Nat.eqb_eq in E. subst. apply kv_get_set_same.
  - apply kv_get_set_other. intros ->. rewrite Nat.eqb_refl in E. discriminate.
Qed.


(* the one commit of a retry / of a RUNNING re-poll *)
Definition store_ctx (i : nat) (st : stage) (c : kv) : op := OPut i (st_data st (kv_update (s_ctx st) c) (s_outs st)).

Definition retry_commit (i t : nat) (st : stage) (c : kv) : commit :=
  match c with [] => [OPush (MRunTask i t)] | _ => [store_ctx i st c; OPush (MRunTask i t)] end.

Lemma handle_exception_transient s id i t st a c :
  handle_exception s id i t st a (RTransient c) =
  if retry_guard a default_max_attempts then [retry_commit i t st c] else mark_terminal id i t st.
Proof. unfold handle_exception. destruct (retry_guard a default_max_attempts); [|reflexivity]. destruct c; reflexivity. Qed.

Lemma mark_terminal_shape id i t st :
  mark_terminal id i t st = [[OPut i (st_exc st); OMark id; OPush (MCompleteTask i t (failure_status (s_cof st) (s_fp st) TERMINAL))]].
Proof. reflexivity. Qed.

Lemma process_result_running s id i t st tk c :
  process_result s id i t st tk (RRunning c) = [[store_ctx i st c; OPush (MRunTask i t)]].
Proof. reflexivity. Qed.

(* RunTask on a RUNNING task of a live workflow executes the task and hands the result to the two functions above *)
Lemma run_task_executes orc s id i t a st tk :
  get_stage s i = Some st -> nth_error (s_tasks st) t = Some tk -> t_status tk = RUNNING ->
  w_canceled s = false -> is_complete (w_status s) = false -> status_eqb (w_status s) PAUSED = false ->
  handle_run_task orc s id i t a =
  {| h_pre := Some (i, t);
     h_commits := let r := orc i t (count_execs s i t) in
                  match r with
                  | RTransient _ | RPermanent => handle_exception s id i t st a r
                  | _ => process_result s id i t st tk r end;
     h_raised := false |}.
Proof.
  intros Hs Ht Hr Hc Hw Hp. unfold handle_run_task. rewrite Hs, Ht, Hr, Hc, Hw, Hp. reflexivity.
Qed.

Record retry_ready (s : state) (id i t : nat) : Prop := {
  rr_row : find_row s id = Some {| q_id := id; q_msg := MRunTask i t; q_attempts := 0 |};
  rr_ids : Forall (fun r => q_id r < w_next s) (w_queue s);
  rr_marks : Forall (fun p => p < w_next s) (w_processed s);
  rr_unmarked : mem_nat id (w_processed s) = false;
  rr_task : exists st tk, get_stage s i = Some st /\ nth_error (s_tasks st) t = Some tk /\ t_status tk = RUNNING;
  rr_flag : w_canceled s = false;
  rr_live : is_complete (w_status s) = false;
  rr_unpaused : status_eqb (w_status s) PAUSED = false
}.

Definition transient_forever (orc : oracle) (i t : nat) : Prop := forall n, exists c, orc i t n = RTransient c.

Lemma step_shape orc s id i t :
  retry_ready s id i t -> transient_forever orc i t ->
  exists st c,
    get_stage s i = Some st /\
    step orc s (Deliver id true) =
    apply_commits [retry_commit i t st c; [OMark id]; [OAck id]] (ghost_exec i t (bump_attempts id s)).
Proof.
  intros R Ho. destruct R as [Hrow Hids Hmarks Hun [st [tk [Hs [Ht Hr]]]] Hc Hw Hp].
  destruct (Ho (count_execs s i t)) as [c Hc'].
  exists st, c. split; [exact Hs|].
  cbn [step]. unfold delivery_commits. rewrite Hrow. cbn [q_attempts q_msg].
  change (queue_max_attempts <=? 0)%Z with false. cbn iota.
  change (w_processed (bump_attempts id s)) with (w_processed s). rewrite Hun.
  unfold handle. cbn [q_msg q_id q_attempts].
  rewrite (run_task_executes orc (bump_attempts id s) id i t (0 + 1)%Z st tk Hs Ht Hr Hc Hw Hp).
  cbn [h_pre h_commits h_raised d_poll d_pre d_rest].
  change (count_execs (bump_attempts id s) i t) with (count_execs s i t). rewrite Hc'. cbn zeta iota.
  rewrite handle_exception_transient. change (retry_guard (0 + 1) default_max_attempts) with true. cbn iota.
  reflexivity.
Qed.

Definition after_retry (s : state) (id i t : nat) (st : stage) (c : kv) : state :=
  apply_commits [retry_commit i t st c; [OMark id]; [OAck id]] (ghost_exec i t (bump_attempts id s)).

Definition bump_row (id : nat) (r : qrow) : qrow :=
  if q_id r =? id then {| q_id := q_id r; q_msg := q_msg r; q_attempts := q_attempts r + 1 |} else r.

Lemma after_retry_fields s id i t st c :
  let s' := after_retry s id i t st c in
  w_queue s' = filter (fun r => negb (q_id r =? id))
                      (map (bump_row id) (w_queue s) ++ [{| q_id := w_next s; q_msg := MRunTask i t; q_attempts := 0 |}]) /\
  w_next s' = S (w_next s) /\
  w_processed s' = (if mem_nat id (w_processed s) then w_processed s else id :: w_processed s) /\
  w_stages s' = match c with [] => w_stages s | _ => list_set (w_stages s) i (st_data st (kv_update (s_ctx st) c) (s_outs st)) end /\
  w_canceled s' = w_canceled s /\ w_status s' = w_status s /\ g_execs s' = (i, t) :: g_execs s.
Proof. destruct c; cbn; repeat split. Qed.

Lemma find_none_ids (q : list qrow) n : Forall (fun r => q_id r < n) q -> find (fun r => q_id r =? n) q = None.
Proof.
  induction q as [|r q IH]; simpl; intros H; [reflexivity|]. inversion H; subst.
  destruct (q_id r =? n) eqn:E; [apply Nat.eqb_eq in E; lia|]. apply IH. assumption.
Qed.

Lemma find_app_none {A} (f : A -> bool) l1 l2 : find f l1 = None -> find f (l1 ++ l2) = find f l2.
Proof. induction l1 as [|a l1 IH]; simpl; [reflexivity|]. destruct (f a); [discriminate|]. exact IH. Qed.

Lemma bump_row_id id r : q_id (bump_row id r) = q_id r.
Proof. unfold bump_row. destruct (q_id r =? id); reflexivity. Qed.

Lemma Forall_ids_bump id n q : Forall (fun r => q_id r < n) q -> Forall (fun r => q_id r < n) (map (bump_row id) q).
Proof. intros H. apply Forall_map. eapply Forall_impl; [|exact H]. intros r Hr. simpl. rewrite bump_row_id. exact Hr. Qed.

Lemma Forall_filter {A} (P : A -> Prop) f l : Forall P l -> Forall P (filter f l).
Proof. induction l as [|a l IH]; simpl; intros H; [constructor|]. inversion H; subst. destruct (f a); [constructor|]; auto. Qed.

Lemma mem_nat_lt n l : Forall (fun p => p < n) l -> mem_nat n l = false.
Proof.
  unfold mem_nat. induction l as [|a l IH]; simpl; intros H; [reflexivity|]. inversion H; subst.
  destruct (n =? a) eqn:E; [apply Nat.eqb_eq in E; lia|]. apply IH. assumption.
Qed.

Lemma find_row_id s id r : find_row s id = Some r -> q_id r = id /\ In r (w_queue s).
Proof. unfold find_row. intros H. apply find_some in H. destruct H as [H1 H2]. apply Nat.eqb_eq in H2. auto. Qed.

Lemma retry_step orc s id i t :
  retry_ready s id i t -> transient_forever orc i t ->
  let s' := step orc s (Deliver id true) in
  retry_ready s' (w_next s) i t /\ g_execs s' = (i, t) :: g_execs s /\ w_status s' = w_status s /\ w_next s' = S (w_next s).
Proof.
  intros R Ho s'. destruct (step_shape orc s id i t R Ho) as [st [c [Hs E]]].
  unfold s'. rewrite E. clear E s'. fold (after_retry s id i t st c).
  destruct (after_retry_fields s id i t st c) as [Eq [En [Ep [Est [Ec [Ew Ex]]]]]].
  destruct R as [Hrow Hids Hmarks Hun [st0 [tk [Hs0 [Ht Hr]]]] Hc Hw Hp].
  rewrite Hs in Hs0. inversion Hs0; subst st0. clear Hs0.
  destruct (find_row_id _ _ _ Hrow) as [_ Hin].
  assert (id < w_next s) as Hlt. { rewrite Forall_forall in Hids. apply (Hids _ Hin). }
  rewrite Hun in Ep.
  split; [|auto].
  constructor.
  - unfold find_row. rewrite Eq, filter_app. rewrite find_app_none.
    + simpl. destruct (w_next s =? id) eqn:E; [apply Nat.eqb_eq in E; lia|]. simpl. rewrite Nat.eqb_refl. reflexivity.
    + apply find_none_ids. apply Forall_filter, Forall_ids_bump, Hids.
  - rewrite Eq, En, filter_app. apply Forall_app. split.
    + apply Forall_filter, Forall_ids_bump. eapply Forall_impl; [|exact Hids]. simpl. intros; lia.
    + apply Forall_filter. constructor; [simpl; lia|constructor].
  - rewrite Ep, En. constructor; [lia|]. eapply Forall_impl; [|exact Hmarks]. simpl. intros; lia.
  - rewrite Ep. apply mem_nat_lt. constructor; [exact Hlt|exact Hmarks].
  - unfold get_stage. rewrite Est. destruct c as [|p c].
    + exists st, tk. auto.
    + exists (st_data st (kv_update (s_ctx st) (p :: c)) (s_outs st)), tk. split; [|split; [exact Ht|exact Hr]].
      apply nth_list_set_same with st. exact Hs.
  - rewrite Ec. exact Hc.
  - rewrite Ew. exact Hw.
  - rewrite Ew. exact Hp.
Qed.

(* ---- the unbounded run ---- *)
Lemma count_execs_cons s i t p l :
  g_execs s = p :: l -> count_execs s i t = (if (fst p =? i) && (snd p =? t) then 1 else 0) + length (filter (fun p => (fst p =? i) && (snd p =? t)) l).
Proof. unfold count_execs. intros ->. simpl. destruct ((fst p =? i) && (snd p =? t)); reflexivity. Qed.

Theorem retry_forever orc i t (Ho : transient_forever orc i t) n : forall s id,
  retry_ready s id i t ->
  exists acts, length acts = n /\
    let s' := run orc s acts in
    count_execs s' i t = n + count_execs s i t /\ w_status s' = w_status s /\ exists id', retry_ready s' id' i t.
Proof.
  induction n as [|n IH]; intros s id R.
  - exists []. simpl. repeat split. exists id. exact R.
  - destruct (retry_step orc s id i t R Ho) as [R' [Ex [Ew _]]].
    destruct (IH _ _ R') as [acts [Hl [Hc [Hw [id' R'']]]]].
    exists (Deliver id true :: acts). split; [simpl; congruence|].
    cbn [run fold_left]. fold (run orc (step orc s (Deliver id true)) acts).
    split; [|split; [congruence|exists id'; exact R'']].
    rewrite Hc. rewrite (count_execs_cons _ i t _ _ Ex). simpl. rewrite !Nat.eqb_refl. simpl. unfold count_execs. lia.
Qed.

Definition one_task_workflow : state := init_state [ex_stage [] 1] None.
Definition warm_up : list action := [Submit; Deliver 1 true; Deliver 2 true; Deliver 3 true].

Lemma warm_up_ready orc : retry_ready (run orc one_task_workflow warm_up) 4 0 0 /\ w_status (run orc one_task_workflow warm_up) = RUNNING
   /\ count_execs (run orc one_task_workflow warm_up) 0 0 = 0.
Proof.
  split; [|split; vm_compute; reflexivity].
  constructor; try (vm_compute; reflexivity).
  - vm_compute. repeat constructor.
  - vm_compute. repeat constructor.
  - vm_compute. eexists. eexists. split; [reflexivity|]. split; reflexivity.
Qed.

Lemma run_app orc s a b : run orc s (a ++ b) = run orc (run orc s a) b.
Proof. unfold run. apply fold_left_app. Qed.

Definition task_status (s : state) (i t : nat) : option status :=
  match get_stage s i with Some st => option_map t_status (nth_error (s_tasks st) t) | None => None end.

Theorem unbounded_engine orc (Ho : transient_forever orc 0 0) n :
  exists acts, let s := run orc one_task_workflow acts in
    n <= count_execs s 0 0 /\ task_status s 0 0 = Some RUNNING /\ w_status s = RUNNING.
Proof.
  destruct (warm_up_ready orc) as [R [Hw Hc]].
  destruct (retry_forever orc 0 0 Ho n _ _ R) as [acts [_ [Hcnt [Hst [id' R']]]]].
  exists (warm_up ++ acts). cbn zeta. rewrite run_app. split; [lia|]. split; [|congruence].
  destruct R' as [_ _ _ _ [st [tk [Hs [Ht Hr]]]] _ _ _]. unfold task_status. rewrite Hs, Ht. simpl. congruence.
Qed.

(* ------------------------------------------------------------------------------------------ *)
(* redelivery of the SAME row                                                                  *)
(* ------------------------------------------------------------------------------------------ *)
Definition row_safe (o : op) : bool := match o with OBump _ | OAck _ => false | _ => true end.

Lemma find_app_some {A} (f : A -> bool) l1 l2 x : find f l1 = Some x -> find f (l1 ++ l2) = Some x.
Proof. induction l1 as [|a l1 IH]; simpl; [discriminate|]. destruct (f a); auto. Qed.

Lemma find_row_safe_op s id r o : row_safe o = true -> find_row s id = Some r -> find_row (apply_op s o) id = Some r.
Proof.
  destruct o; simpl; try discriminate; intros _ H; try exact H.
  - unfold mutate_stage. destruct (get_stage s i); exact H.
  - unfold find_row in *. simpl. apply find_app_some. exact H.
Qed.

Lemma find_row_safe_commit c : forall s id r,
  forallb row_safe c = true -> find_row s id = Some r -> find_row (apply_commit s c) id = Some r.
Proof.
  unfold apply_commit. induction c as [|o c IH]; simpl; intros s id r H Hr; [exact Hr|].
  apply andb_true_iff in H. destruct H as [Ho Hc]. apply IH; [exact Hc|]. apply find_row_safe_op; assumption.
Qed.

Lemma find_row_none_op s id o : (forall j, o <> OPush j) -> find_row s id = None -> find_row (apply_op s o) id = None.
Proof.
  intros Hp. destruct o; simpl; intros H; try exact H.
  - unfold mutate_stage. destruct (get_stage s i); exact H.
  - exfalso. eapply Hp. reflexivity.
  - unfold find_row in *. simpl. induction (w_queue s) as [|r q IH]; simpl in *; [reflexivity|].
    destruct (q_id r =? id) eqn:E; [discriminate|].
    destruct (q_id r =? id0); simpl; rewrite E; apply IH; exact H.
  - unfold find_row in *. simpl. induction (w_queue s) as [|r q IH]; simpl in *; [reflexivity|].
    destruct (q_id r =? id) eqn:E; [discriminate|].
    destruct (negb (q_id r =? id0)); simpl; [rewrite E|]; apply IH; exact H.
Qed.

Lemma find_row_bump s id r :
  find_row s id = Some r ->
  find_row (bump_attempts id s) id = Some {| q_id := q_id r; q_msg := q_msg r; q_attempts := q_attempts r + 1 |}.
Proof.
  unfold find_row, bump_attempts. simpl. induction (w_queue s) as [|a q IH]; simpl; [discriminate|].
  destruct (q_id a =? id) eqn:E; simpl.
  - intros H. inversion H; subst. rewrite E. reflexivity.
  - rewrite E. exact IH.
Qed.

Lemma find_row_ack s id : find_row (ack id s) id = None.
Proof.
  unfold find_row, ack. simpl. induction (w_queue s) as [|a q IH]; simpl; [reflexivity|].
  destruct (q_id a =? id) eqn:E; simpl; [exact IH|]. rewrite E. exact IH.
Qed.

(* every commit RunTask can produce leaves existing queue rows alone *)
Lemma run_task_row_safe orc s id i t a :
  Forall (fun c => forallb row_safe c = true) (h_commits (handle_run_task orc s id i t a)).
Proof.
  unfold handle_run_task.
  destruct (get_stage s i) as [st|]; [|constructor].
  destruct (nth_error (s_tasks st) t) as [tk|]; [|constructor].
  destruct (negb (run_task_guard (t_status tk))); [repeat constructor|].
  destruct (w_canceled s); [repeat constructor|].
  destruct (is_complete (w_status s)); [repeat constructor|].
  destruct (status_eqb (w_status s) PAUSED); [repeat constructor|].
  cbn [h_commits]. destruct (orc i t (count_execs s i t)) as [o| | | |c|c| |tg| | | |]; cbn zeta iota;
    try (unfold process_result; repeat constructor; fail).
  - rewrite handle_exception_transient. destruct (retry_guard a default_max_attempts); [|repeat constructor].
    destruct c; repeat constructor.
  - unfold process_result. destruct (s_buffered st); repeat constructor.
Qed.

Definition on_row (id : nat) (a : action) : Prop :=
  match a with Deliver id' _ | DeliverCut id' _ => id' = id | _ => False end.

Definition attempts_left (s : state) (id : nat) : nat :=
  match find_row s id with Some r => Z.to_nat (queue_max_attempts - q_attempts r) | None => 0 end.

Definition run_task_row (s : state) (id : nat) : Prop :=
  forall r, find_row s id = Some r -> exists i t, q_msg r = MRunTask i t.

Definition row_or_gone (s : state) (id : nat) (r : qrow) : Prop := find_row s id = Some r \/ find_row s id = None.

Lemma next_op s o : w_next s <= w_next (apply_op s o).
Proof. destruct o; simpl; try lia. unfold mutate_stage. destruct (get_stage s i); simpl; lia. Qed.

Lemma next_commit c : forall s, w_next s <= w_next (apply_commit s c).
Proof. unfold apply_commit. induction c as [|o c IH]; simpl; intros s; [lia|]. specialize (IH (apply_op s o)). pose proof (next_op s o). lia. Qed.

Lemma row_or_gone_op s id r o :
  id < w_next s -> row_safe o = true \/ o = OAck id -> row_or_gone s id r -> row_or_gone (apply_op s o) id r.
Proof.
  intros Hlt [Ho|Ho] [H|H].
  - left. apply find_row_safe_op; assumption.
  - right. destruct o; try discriminate; simpl; try exact H.
    + unfold mutate_stage. destruct (get_stage s i); exact H.
    + unfold find_row in *. simpl. rewrite find_app_none by exact H. simpl.
      destruct (w_next s =? id) eqn:E; [apply Nat.eqb_eq in E; lia|reflexivity].
  - subst o. right. apply find_row_ack.
  - subst o. right. apply find_row_ack.
Qed.

Definition safe_or_ack (id : nat) (c : commit) : Prop := forallb row_safe c = true \/ c = [OAck id].

Lemma row_or_gone_commit id r c : forall s,
  id < w_next s -> safe_or_ack id c -> row_or_gone s id r -> row_or_gone (apply_commit s c) id r.
Proof.
  intros s Hlt [Hc|Hc] H.
  - revert s Hlt H. unfold apply_commit. induction c as [|o c IH]; simpl; intros s Hlt H; [exact H|].
    apply andb_true_iff in Hc. destruct Hc as [Ho Hc]. apply IH; [exact Hc| |].
    + pose proof (next_op s o). lia.
    + apply row_or_gone_op; auto.
  - subst c. unfold apply_commit. simpl. apply (row_or_gone_op s id r (OAck id)); auto.
Qed.

Lemma row_or_gone_commits id r cs : forall s,
  id < w_next s -> Forall (safe_or_ack id) cs -> row_or_gone s id r -> row_or_gone (apply_commits cs s) id r.
Proof.
  induction cs as [|c cs IH]; simpl; intros s Hlt H Hr; [exact Hr|]. inversion H; subst.
  apply IH; [pose proof (next_commit c s); lia|assumption|]. apply row_or_gone_commit; assumption.
Qed.

Lemma next_commits cs : forall s, w_next s <= w_next (apply_commits cs s).
Proof. induction cs as [|c cs IH]; simpl; intros s; [lia|]. specialize (IH (apply_commit s c)). pose proof (next_commit c s). lia. Qed.

Lemma Forall_firstn {A} (P : A -> Prop) l k : Forall P l -> Forall P (firstn k l).
Proof. revert k. induction l as [|a l IH]; intros [|k] H; simpl; try constructor; inversion H; subst; auto. Qed.

Lemma execs_pre p s : length (g_execs (apply_pre p s)) <= S (length (g_execs s)).
Proof. destruct p as [[i t]|]; simpl; lia. Qed.

(* the commits after the poll of a RunTask row are row-safe or the row's own ack *)
Lemma delivery_rest_safe orc s id do_ack d r :
  find_row s id = Some r -> (exists i t, q_msg r = MRunTask i t) ->
  delivery_commits orc s id do_ack = Some d ->
  d_poll d = [OBump id] /\ Forall (safe_or_ack id) (d_rest d) /\ (q_attempts r < queue_max_attempts)%Z.
Proof.
  intros Hr [i [t Hm]]. unfold delivery_commits. rewrite Hr.
  destruct (queue_max_attempts <=? q_attempts r)%Z eqn:E; [discriminate|]. apply Z.leb_gt in E.
  destruct (mem_nat id (w_processed (bump_attempts id s))).
  - intros H. inversion H. simpl. split; [reflexivity|]. split; [|exact E].
    destruct do_ack; [|constructor]. constructor; [right; reflexivity|constructor].
  - intros H. inversion H. simpl. split; [reflexivity|]. split; [|exact E].
    apply Forall_app. split.
    + unfold handle. cbn [q_msg]. rewrite Hm. eapply Forall_impl; [|apply run_task_row_safe]. intros c Hc. left. exact Hc.
    + destruct (h_raised _); [constructor|]. constructor; [left; reflexivity|].
      destruct do_ack; [|constructor]. constructor; [right; reflexivity|constructor].
Qed.

Lemma same_row_action orc s id a :
  id < w_next s -> run_task_row s id -> on_row id a ->
  let s' := step orc s a in
  id < w_next s' /\ run_task_row s' id /\
  length (g_execs s') + attempts_left s' id <= length (g_execs s) + attempts_left s id.
Proof.
  intros Hlt Hrun Hon s'.
  assert (forall d k, find_row s id <> None ->
            (forall r, find_row s id = Some r ->
               d_poll d = [OBump id] /\ Forall (safe_or_ack id) (d_rest d) /\ (q_attempts r < queue_max_attempts)%Z) ->
            let s2 := apply_commits (firstn k (d_rest d)) (apply_pre (d_pre d) (apply_commit s (d_poll d))) in
            id < w_next s2 /\ run_task_row s2 id /\
            length (g_execs s2) + attempts_left s2 id <= length (g_execs s) + attempts_left s id) as Core.
  { intros d k Hex Hd s2. destruct (find_row s id) as [r|] eqn:Hr; [|congruence].
    destruct (Hd r eq_refl) as [Hp [Hs Ha]]. unfold s2. rewrite Hp.
    set (r1 := {| q_id := q_id r; q_msg := q_msg r; q_attempts := q_attempts r + 1 |}).
    assert (find_row (apply_pre (d_pre d) (apply_commit s [OBump id])) id = Some r1) as H1.
    { replace (find_row (apply_pre (d_pre d) (apply_commit s [OBump id])) id) with (find_row (bump_attempts id s) id)
        by (destruct (d_pre d) as [[? ?]|]; reflexivity).
      apply find_row_bump. exact Hr. }
    assert (id < w_next (apply_pre (d_pre d) (apply_commit s [OBump id]))) as H2
      by (destruct (d_pre d) as [[? ?]|]; exact Hlt).
    pose proof (row_or_gone_commits id r1 (firstn k (d_rest d)) _ H2 (Forall_firstn _ _ k Hs) (or_introl H1)) as H3.
    pose proof (next_commits (firstn k (d_rest d)) (apply_pre (d_pre d) (apply_commit s [OBump id]))) as H4.
    split; [lia|]. split.
    - intros r' Hr'. destruct H3 as [H3|H3]; [|congruence]. rewrite H3 in Hr'. inversion Hr'; subst r'. simpl. apply Hrun. exact Hr.
    - rewrite execs_commits. pose proof (execs_pre (d_pre d) (apply_commit s [OBump id])) as H5.
      rewrite execs_commit in H5. unfold attempts_left. rewrite Hr.
      destruct H3 as [H3|H3]; rewrite H3; [unfold r1; cbn [q_attempts]|]; lia. }
  destruct a; simpl in Hon; try contradiction; subst id0; unfold s'; cbn [step].
  - destruct (delivery_commits orc s id do_ack) as [d|] eqn:Hd.
    2:{ split; [exact Hlt|]. split; [exact Hrun|lia]. }
    destruct (find_row s id) as [r|] eqn:Hr.
    2:{ unfold delivery_commits in Hd. rewrite Hr in Hd. discriminate. }
    rewrite <- (firstn_all (d_rest d)). apply Core; [congruence|].
    intros r' E. assert (r' = r) by congruence. subst r'. eapply delivery_rest_safe; eauto.
  - destruct k as [|k']. { split; [exact Hlt|]. split; [exact Hrun|lia]. }
    destruct (delivery_commits orc s id true) as [d|] eqn:Hd.
    2:{ split; [exact Hlt|]. split; [exact Hrun|lia]. }
    destruct (find_row s id) as [r|] eqn:Hr.
    2:{ unfold delivery_commits in Hd. rewrite Hr in Hd. discriminate. }
    apply Core; [congruence|].
    intros r' E. assert (r' = r) by congruence. subst r'. eapply delivery_rest_safe; eauto.
Qed.

Theorem same_row_bounded orc id acts : forall s,
  id < w_next s -> run_task_row s id -> Forall (on_row id) acts ->
  length (g_execs (run orc s acts)) <= length (g_execs s) + attempts_left s id.
Proof.
  unfold run. induction acts as [|a acts IH]; simpl; intros s Hlt Hrun H; [lia|].
  inversion H; subst. destruct (same_row_action orc s id a Hlt Hrun H2) as [H1 [H4 H5]].
  specialize (IH _ H1 H4 H3). lia.
Qed.

(* a row the attempts filter hides is never delivered again *)
Lemma hidden_row_noop orc s id r a :
  find_row s id = Some r -> (queue_max_attempts <= q_attempts r)%Z -> on_row id a -> step orc s a = s.
Proof.
  intros Hr Ha Hon. destruct a; simpl in Hon; try contradiction; subst; cbn [step]; unfold delivery_commits; rewrite Hr.
  - apply Z.leb_le in Ha. rewrite Ha. reflexivity.
  - apply Z.leb_le in Ha. rewrite Ha. destruct k; reflexivity.
Qed.

(* ------------------------------------------------------------------------------------------ *)
(* saved progress                                                                              *)
(* ------------------------------------------------------------------------------------------ *)
Definition stage_ctx (s : state) (i : nat) : option kv := option_map s_ctx (get_stage s i).

Definition has_row (s : state) (id : nat) (m : msg) : Prop :=
  exists r, find_row s id = Some r /\ q_msg r = m /\ q_attempts r = 0%Z.

(* what a result that keeps the task running carries *)
Definition kept_ctx (r : tresult) : option kv :=
  match r with RTransient c | RRunning c => Some c | _ => None end.

Lemma kv_update_nil m : kv_update m [] = m.
Proof. reflexivity. Qed.

(* P1: the delivery of a RunTask row whose task fails transiently (within the budget) or reports RUNNING: the handler's
   commits are exactly ONE commit holding both the context store and the push of the next RunTask *)
Lemma delivery_keeps_progress orc s id do_ack r0 i t st tk c :
  find_row s id = Some r0 -> q_msg r0 = MRunTask i t -> (q_attempts r0 < queue_max_attempts)%Z ->
  mem_nat id (w_processed s) = false ->
  get_stage s i = Some st -> nth_error (s_tasks st) t = Some tk -> t_status tk = RUNNING ->
  w_canceled s = false -> is_complete (w_status s) = false -> status_eqb (w_status s) PAUSED = false ->
  kept_ctx (orc i t (count_execs s i t)) = Some c ->
  (forall c', orc i t (count_execs s i t) = RTransient c' -> retry_guard (q_attempts r0 + 1) default_max_attempts = true) ->
  exists one : commit,
    delivery_commits orc s id do_ack =
      Some {| d_poll := [OBump id]; d_pre := Some (i, t);
              d_rest := one :: [OMark id] :: (if do_ack then [[OAck id]] else []) |} /\
    (one = retry_commit i t st c \/ one = [store_ctx i st c; OPush (MRunTask i t)]).
Proof.
  intros Hr Hm Ha Hun Hs Ht Hrun Hc Hw Hp Hk Hg.
  unfold delivery_commits. rewrite Hr.
  destruct (queue_max_attempts <=? q_attempts r0)%Z eqn:E; [apply Z.leb_le in E; lia|].
  change (w_processed (bump_attempts id s)) with (w_processed s). rewrite Hun.
  unfold handle. cbn [q_msg q_id q_attempts]. rewrite Hm.
  rewrite (run_task_executes orc (bump_attempts id s) id i t (q_attempts r0 + 1)%Z st tk Hs Ht Hrun Hc Hw Hp).
  cbn [h_pre h_commits h_raised].
  change (count_execs (bump_attempts id s) i t) with (count_execs s i t).
  destruct (orc i t (count_execs s i t)) as [o| | | |c0|c0| |tg| | | |] eqn:Ho; try discriminate; simpl in Hk; inversion Hk; subst c0; cbn zeta iota.
  - exists [store_ctx i st c; OPush (MRunTask i t)]. split; [reflexivity|]. right. reflexivity.
  - rewrite handle_exception_transient, (Hg c eq_refl). exists (retry_commit i t st c). split; [reflexivity|]. left. reflexivity.
Qed.

(* P2: what that one commit does, on any state in which stage i exists *)
Lemma store_and_push_effect s i t st c st1 :
  get_stage s i = Some st1 ->
  let s' := apply_commit s [store_ctx i st c; OPush (MRunTask i t)] in
  stage_ctx s' i = Some (kv_update (s_ctx st) c) /\
  w_queue s' = w_queue s ++ [{| q_id := w_next s; q_msg := MRunTask i t; q_attempts := 0 |}].
Proof.
  intros Hs. cbn zeta. split; [|reflexivity].
  unfold stage_ctx, get_stage. unfold get_stage in Hs.
  change (w_stages (apply_commit s [store_ctx i st c; OPush (MRunTask i t)]))
    with (list_set (w_stages s) i (st_data st (kv_update (s_ctx st) c) (s_outs st))).
  rewrite (nth_list_set_same _ _ _ _ Hs). reflexivity.
Qed.

Lemma retry_commit_effect s i t st c :
  get_stage s i = Some st ->
  let s' := apply_commit s (retry_commit i t st c) in
  stage_ctx s' i = Some (kv_update (s_ctx st) c) /\
  w_queue s' = w_queue s ++ [{| q_id := w_next s; q_msg := MRunTask i t; q_attempts := 0 |}].
Proof.
  intros Hs. destruct c as [|p c].
  - cbn zeta. split; [|reflexivity]. unfold stage_ctx.
    change (get_stage (apply_commit s (retry_commit i t st [])) i) with (get_stage s i). rewrite Hs. reflexivity.
  - apply (store_and_push_effect s i t st (p :: c) st Hs).
Qed.

(* what the next execution reads: every key of the update with its last value, every other key as before *)
Lemma kept_values k c m :
  kv_get k (kv_update m c) = match last_binding k c with Some v => Some v | None => kv_get k m end.
Proof. apply kv_get_update. Qed.


Lemma find_new_row (q : list qrow) n id m :
  Forall (fun r => q_id r < n) q -> id < n ->
  find (fun r => q_id r =? n) (filter (fun r => negb (q_id r =? id)) (map (bump_row id) q ++ [{| q_id := n; q_msg := m; q_attempts := 0 |}]))
  = Some {| q_id := n; q_msg := m; q_attempts := 0 |}.
Proof.
  intros Hq Hlt. rewrite filter_app, find_app_none.
  - simpl. destruct (n =? id) eqn:E; [apply Nat.eqb_eq in E; lia|]. simpl. rewrite Nat.eqb_refl. reflexivity.
  - apply find_none_ids. apply Forall_filter, Forall_ids_bump, Hq.
Qed.

Lemma find_new_row_noack (q : list qrow) n id m :
  Forall (fun r => q_id r < n) q ->
  find (fun r => q_id r =? n) (map (bump_row id) q ++ [{| q_id := n; q_msg := m; q_attempts := 0 |}])
  = Some {| q_id := n; q_msg := m; q_attempts := 0 |}.
Proof.
  intros Hq. rewrite find_app_none.
  - simpl. rewrite Nat.eqb_refl. reflexivity.
  - apply find_none_ids. apply Forall_ids_bump, Hq.
Qed.

(* P3: a crash anywhere inside the delivery: the retry RunTask row is durable only together with the saved context *)
Lemma progress_atomic_under_cut orc s id r0 i t st tk c k :
  find_row s id = Some r0 -> q_msg r0 = MRunTask i t -> (q_attempts r0 < queue_max_attempts)%Z ->
  mem_nat id (w_processed s) = false ->
  get_stage s i = Some st -> nth_error (s_tasks st) t = Some tk -> t_status tk = RUNNING ->
  w_canceled s = false -> is_complete (w_status s) = false -> status_eqb (w_status s) PAUSED = false ->
  kept_ctx (orc i t (count_execs s i t)) = Some c ->
  (forall c', orc i t (count_execs s i t) = RTransient c' -> retry_guard (q_attempts r0 + 1) default_max_attempts = true) ->
  Forall (fun r => q_id r < w_next s) (w_queue s) ->
  let s' := step orc s (DeliverCut id k) in
  (has_row s' (w_next s) (MRunTask i t) /\ stage_ctx s' i = Some (kv_update (s_ctx st) c)) \/
  (find_row s' (w_next s) = None /\ w_stages s' = w_stages s).
Proof.
  intros Hr Hm Ha Hun Hs Ht Hrun Hc Hw Hp Hk Hg Hids s'.
  destruct (delivery_keeps_progress orc s id true r0 i t st tk c Hr Hm Ha Hun Hs Ht Hrun Hc Hw Hp Hk Hg) as [one [Hd Hone]].
  destruct (find_row_id _ _ _ Hr) as [Hid Hin].
  assert (id < w_next s) as Hlt. { rewrite <- Hid. rewrite Forall_forall in Hids. apply (Hids _ Hin). }
  assert (find_row s (w_next s) = None) as Hnone by (apply find_none_ids; exact Hids).
  unfold s'. cbn [step]. destruct k as [|k]; [right; split; [exact Hnone|reflexivity]|].
  rewrite Hd. cbn [d_rest d_poll d_pre].
  destruct k as [|k].
  { right. split; [|reflexivity]. cbn. unfold find_row. cbn. apply find_none_ids. apply Forall_ids_bump. exact Hids. }
  left. cbn [firstn apply_commits].
  set (s1 := apply_pre (Some (i, t)) (apply_commit s [OBump id])).
  assert (get_stage s1 i = Some st) as Hs1 by exact Hs.
  assert (stage_ctx (apply_commit s1 one) i = Some (kv_update (s_ctx st) c) /\
          w_queue (apply_commit s1 one) = map (bump_row id) (w_queue s) ++ [{| q_id := w_next s; q_msg := MRunTask i t; q_attempts := 0 |}]) as [Hctx Hq].
  { destruct Hone as [-> | ->].
    - apply (retry_commit_effect s1 i t st c Hs1).
    - apply (store_and_push_effect s1 i t st c st Hs1). }
  destruct k as [|[|k]]; cbn [firstn apply_commits].
  - split; [|exact Hctx]. exists {| q_id := w_next s; q_msg := MRunTask i t; q_attempts := 0 |}.
    split; [|split; reflexivity]. unfold find_row. rewrite Hq. apply find_new_row_noack. exact Hids.
  - split.
    + exists {| q_id := w_next s; q_msg := MRunTask i t; q_attempts := 0 |}.
      split; [|split; reflexivity]. unfold find_row.
      change (w_queue (apply_commit (apply_commit s1 one) [OMark id])) with (w_queue (apply_commit s1 one)).
      rewrite Hq. apply find_new_row_noack. exact Hids.
    + exact Hctx.
  - rewrite firstn_nil. cbn [apply_commits].
    split.
    + exists {| q_id := w_next s; q_msg := MRunTask i t; q_attempts := 0 |}.
      split; [|split; reflexivity]. unfold find_row.
      change (w_queue (apply_commit (apply_commit (apply_commit s1 one) [OMark id]) [OAck id]))
        with (filter (fun r => negb (q_id r =? id)) (w_queue (apply_commit s1 one))).
      rewrite Hq. apply find_new_row; assumption.
    + exact Hctx.
Qed.

Definition id_lt_next (s : state) (id : nat) : bool := id <? w_next s.
