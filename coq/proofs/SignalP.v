(* C18: what SignalStage and the suspend path of RunTask do, as facts about the commits they produce. *)
From Coq Require Import List Bool Arith ZArith Lia.
Import ListNotations.
From Stab.model Require Import Base StatusM Readiness StageStat Engine.
From Stab.gen Require Import Gen_Config Gen_Guards.
From Stab.proofs Require Import EngineLegal.

(* a persistent signal is never dropped: it is delivered (stage SUSPENDED) or buffered (any other status),
   in one commit together with the message's processed mark *)
Theorem persistent_signal_not_lost s id i n st :
  get_stage s i = Some st ->
  (s_status st = SUSPENDED ->
     exists st' m, h_commits (handle_signal_stage s id i n true) = [[OPut i st'; OMark id; OPush m]]
                   /\ s_status st' = RUNNING /\ s_signal st' = Some n /\ s_buffered st' = s_buffered st
                   /\ (m = MStartStage i 0 \/ exists t, m = MRunTask i t /\ exists tk, nth_error (s_tasks st) t = Some tk /\ t_status tk = SUSPENDED
                                                         /\ exists tk', nth_error (s_tasks st') t = Some tk' /\ t_status tk' = RUNNING)) /\
  (s_status st <> SUSPENDED ->
     exists st', h_commits (handle_signal_stage s id i n true) = [[OPut i st'; OMark id]]
                 /\ s_status st' = s_status st /\ s_buffered st' = s_buffered st ++ [n] /\ s_tasks st' = s_tasks st
                 /\ s_signal st' = s_signal st).
Proof.
  intros Hs. unfold handle_signal_stage. rewrite Hs. split.
  - intros E. assert (status_eqb (s_status st) SUSPENDED = true) as E2 by (rewrite E; reflexivity). rewrite E2.
    match goal with |- context [find ?p ?l] => destruct (find p l) as [[ti tk]|] eqn:F end.
    + apply find_combine_nth in F. destruct F as [Hn Hp]. simpl in Hp. apply status_eqb_eq in Hp.
      eexists. eexists. split; [reflexivity|]. simpl. repeat split.
      right. exists ti. split; [reflexivity|]. exists tk. split; [exact Hn|]. split; [exact Hp|].
      unfold task_set. rewrite Hn. eexists. split; [eapply nth_list_set_same; exact Hn|reflexivity].
    + eexists. eexists. split; [reflexivity|]. simpl. repeat split. left. reflexivity.
  - intros E. destruct (status_eqb (s_status st) SUSPENDED) eqn:E2; [apply status_eqb_eq in E2; contradiction|].
    eexists. split; [reflexivity|]. simpl. repeat split.
Qed.

(* a transient signal changes the state iff the stage is SUSPENDED when it is handled *)
Theorem transient_signal_dropped s id i n st :
  get_stage s i = Some st -> s_status st <> SUSPENDED ->
  h_commits (handle_signal_stage s id i n false) = [[OMark id]].
Proof.
  intros Hs E. unfold handle_signal_stage. rewrite Hs.
  destruct (status_eqb (s_status st) SUSPENDED) eqn:E2; [apply status_eqb_eq in E2; contradiction|reflexivity].
Qed.

(* on suspend, a buffered signal is consumed and the task re-run in the SAME commit; exactly one signal
   leaves the buffer *)
Theorem suspend_consumes_one_buffered s id i t st tk sig rest :
  s_buffered st = sig :: rest ->
  exists st', process_result s id i t st tk RSuspend = [[OPut i st'; OMark id; OPush (MRunTask i t)]]
              /\ s_buffered st' = rest /\ s_signal st' = Some sig /\ s_status st' = RUNNING.
Proof. intros H. unfold process_result. rewrite H. eexists. split; [reflexivity|]. simpl. auto. Qed.

(* without a buffered signal the stage and the task become SUSPENDED durably and NO continuation is pushed *)
Theorem suspend_waits s id i t st tk :
  s_buffered st = [] ->
  exists st', process_result s id i t st tk RSuspend = [[OPut i st'; OMark id]]
              /\ s_status st' = SUSPENDED /\ s_buffered st' = [].
Proof. intros H. unfold process_result. rewrite H. eexists. split; [reflexivity|]. simpl. auto. Qed.

(* a SUSPENDED stage is written only by SignalStage, CancelStage or a jump: every other handler either
   ignores it or (RunTask) would need one of its tasks to be RUNNING *)
Theorem suspended_stage_untouched_start_stage s id i k st :
  get_stage s i = Some st -> s_status st = SUSPENDED ->
  Forall (fun c => forallb quiet c = true) (h_commits (handle_start_stage s id i k)).
Proof.
  intros Hs E. unfold handle_start_stage. rewrite Hs.
  destruct (parent_not_started s st). { constructor; [reflexivity|constructor]. }
  assert (start_stage_late (s_status st) = true) as L by (rewrite E; reflexivity).
  assert (start_stage_fresh (s_status st) = false) as Fr by (rewrite E; reflexivity).
  match goal with |- context [match rr_phase ?r with _ => _ end] => destruct (rr_phase r) end.
  - unfold start_if_ready.
    assert (forall b : bool, s_status (if b then st_ctl st false (s_jump_count st) (s_buffered st) (s_signal st) else st) = SUSPENDED) as Hb
      by (intros [|]; exact E).
    rewrite (Hb (s_bypass st)). simpl. constructor.
  - rewrite L. constructor.
  - constructor; [reflexivity|constructor].
  - rewrite L. constructor.
Qed.

Theorem suspended_stage_untouched_complete_stage s id i st :
  get_stage s i = Some st -> s_status st = SUSPENDED ->
  h_commits (handle_complete_stage s id i) = [].
Proof. intros Hs E. unfold handle_complete_stage. rewrite Hs, E. reflexivity. Qed.

Theorem suspended_stage_untouched_skip s id i st :
  get_stage s i = Some st -> s_status st = SUSPENDED -> h_commits (handle_skip_stage s id i) = [].
Proof. intros Hs E. unfold handle_skip_stage. rewrite Hs, E. reflexivity. Qed.
