From Coq Require Import List Bool Arith ZArith Lia.
Import ListNotations.
From Stab.model Require Import Base StatusM StageStat.

Lemma has_In s l : has s l = true <-> In s l.
Proof.
  unfold has. rewrite existsb_exists. split.
  - intros [x [Hx He]]. apply status_eqb_eq in He. subst. exact Hx.
  - intros H. exists s. split; [exact H|apply status_eqb_refl].
Qed.

(* A workflow reported SUCCEEDED has every top-level stage in a continuable status, unless the STOPPED
   override path was taken (a stage stopped with failPipeline=false and nothing else incomplete). *)
Theorem final_succeeded_sound stages ov rc mx :
  determine_final_status stages ov rc mx = Final SUCCEEDED ->
  (forall s, In s stages -> in_continuable (fst s) = true)
  \/ (In STOPPED (map fst stages) /\ ~ In TERMINAL (map fst stages) /\ ~ In CANCELED (map fst stages)
      /\ other_branches_incomplete stages = false /\ ov = false).
Proof.
  unfold determine_final_status.
  destruct (forallb in_continuable (map fst stages)) eqn:Ha.
  - intros _. left. rewrite forallb_forall in Ha. intros s Hs. apply Ha. apply in_map. exact Hs.
  - destruct (has TERMINAL (map fst stages)) eqn:Ht; [discriminate|].
    destruct (has CANCELED (map fst stages)) eqn:Hc; [discriminate|].
    destruct (has STOPPED (map fst stages)) eqn:Hs; simpl.
    + destruct (other_branches_incomplete stages) eqn:Ho; simpl.
      * destruct (mx <=? rc)%Z; discriminate.
      * destruct ov; [discriminate|]. intros _. right.
        repeat split; try reflexivity.
        -- apply has_In. exact Hs.
        -- intro H. apply has_In in H. congruence.
        -- intro H. apply has_In in H. congruence.
    + destruct (mx <=? rc)%Z; discriminate.
Qed.

(* A workflow with a terminally failed top-level stage is reported TERMINAL as soon as it is finalised
   (never SUCCEEDED, never CANCELED, never re-queued). *)
Theorem final_terminal_reported stages ov rc mx :
  In TERMINAL (map fst stages) -> determine_final_status stages ov rc mx = Final TERMINAL.
Proof.
  intros H. unfold determine_final_status.
  destruct (forallb in_continuable (map fst stages)) eqn:Ha.
  - rewrite forallb_forall in Ha. specialize (Ha TERMINAL H). discriminate.
  - apply has_In in H. rewrite H. reflexivity.
Qed.

Theorem final_canceled_reported stages ov rc mx :
  In CANCELED (map fst stages) -> ~ In TERMINAL (map fst stages) ->
  determine_final_status stages ov rc mx = Final CANCELED.
Proof.
  intros H Hn. unfold determine_final_status.
  destruct (forallb in_continuable (map fst stages)) eqn:Ha.
  - rewrite forallb_forall in Ha. specialize (Ha CANCELED H). discriminate.
  - destruct (has TERMINAL (map fst stages)) eqn:Ht; [apply has_In in Ht; contradiction|].
    apply has_In in H. rewrite H. reflexivity.
Qed.

(* the final status is always a completed status *)
Theorem final_is_complete stages ov rc mx s :
  determine_final_status stages ov rc mx = Final s -> is_complete s = true.
Proof.
  unfold determine_final_status.
  destruct (forallb _ _); [intros H; inversion H; reflexivity|].
  destruct (has TERMINAL _); [intros H; inversion H; reflexivity|].
  destruct (has CANCELED _); [intros H; inversion H; reflexivity|].
  destruct (has STOPPED _ && _).
  - destruct ov; intros H; inversion H; reflexivity.
  - destruct (mx <=? rc)%Z; intros H; inversion H; reflexivity.
Qed.

(* determine_status never reports a completed-and-continuable status while a core component (before
   stage or task) is incomplete or waiting *)
Lemma existsb_app {A} (f : A -> bool) l1 l2 : existsb f (l1 ++ l2) = existsb f l1 || existsb f l2.
Proof. induction l1; simpl; [reflexivity|]. rewrite IHl1. apply orb_assoc. Qed.

Theorem determine_status_not_early self cof fp before tasks after :
  in_continuable (determine_status self cof fp before tasks after) = true ->
  (before ++ tasks <> [] ->
     forallb core_done (before ++ tasks) = true \/ (cof = true /\ In TERMINAL (before ++ tasks))).
Proof.
  unfold determine_status. intros H Hne.
  destruct (is_nil (before ++ tasks)) eqn:Hn; [apply is_nil_true in Hn; contradiction|].
  destruct (has TERMINAL (before ++ tasks)) eqn:Ht.
  - right. unfold failure_status in H. destruct cof; [split; [reflexivity|apply has_In; exact Ht]|].
    destruct fp; simpl in H; discriminate.
  - left.
    destruct (has STOPPED _); [discriminate|].
    destruct (has CANCELED _); [discriminate|].
    destruct (has PAUSED _); [discriminate|].
    destruct (has BUFFERED _); [discriminate|].
    destruct (has SUSPENDED _); [discriminate|].
    destruct (existsb incomplete _); [discriminate|].
    destruct (forallb core_done (before ++ tasks)); [reflexivity|simpl in H; discriminate].
Qed.

Theorem determine_status_after_not_early self cof fp before tasks after :
  in_continuable (determine_status self cof fp before tasks after) = true ->
  before ++ tasks <> [] -> has TERMINAL (before ++ tasks) = false ->
  existsb incomplete after = false.
Proof.
  unfold determine_status. intros H Hne Ht.
  destruct (is_nil (before ++ tasks)) eqn:Hn; [apply is_nil_true in Hn; contradiction|].
  rewrite Ht in H.
  destruct (has STOPPED _); [discriminate|].
  destruct (has CANCELED _); [discriminate|].
  destruct (has PAUSED _); [discriminate|].
  destruct (has BUFFERED _); [discriminate|].
  destruct (has SUSPENDED _); [discriminate|].
  destruct (existsb incomplete (before ++ tasks)); [discriminate|].
  destruct (forallb core_done _); simpl in H; [|discriminate].
  destruct after as [|a after']; [reflexivity|]. change (negb (is_nil (a :: after'))) with true in H. cbn [andb] in H.
  destruct (has TERMINAL (a :: after')); [discriminate|].
  destruct (has STOPPED (a :: after')); [discriminate|].
  destruct (has CANCELED (a :: after')); [discriminate|].
  destruct (existsb incomplete (a :: after')); [discriminate|reflexivity].
Qed.
