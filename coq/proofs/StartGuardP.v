(* C03 at engine level: which stage writes StartStage handling performs, and under which readiness verdict. *)
From Coq Require Import List Bool Arith ZArith Lia.
Import ListNotations.
From Stab.model Require Import Base StatusM Readiness StageStat Engine.
From Stab.gen Require Import Gen_Config Gen_Guards.
From Stab.proofs Require Import ReadinessP EngineLegal.

Definition puts_commit (c : commit) : list (nat * stage) :=
  flat_map (fun o => match o with OPut i st => [(i, st)] | _ => [] end) c.
Definition puts (cs : list commit) : list (nat * stage) := flat_map puts_commit cs.

Lemma puts_commit_app a b : puts_commit (a ++ b) = puts_commit a ++ puts_commit b.
Proof. unfold puts_commit. apply flat_map_app. Qed.

Lemma puts_quiet c : forallb quiet c = true -> puts_commit c = [].
Proof.
  induction c as [|o c IH]; simpl; intros H; [reflexivity|]. apply andb_true_iff in H. destruct H as [Ho Hc].
  rewrite (IH Hc). destruct o; simpl in *; try discriminate; reflexivity.
Qed.

Lemma puts_adds l : puts_commit (map OAdd l) = [].
Proof. induction l; simpl; auto. Qed.

Lemma puts_quiet_chain cs : Forall (fun c => forallb quiet c = true) cs -> puts cs = [].
Proof. induction cs as [|c cs IH]; simpl; intros H; [reflexivity|]. inversion H; subst. rewrite puts_quiet, IH; auto. Qed.

Lemma puts_app a b : puts (a ++ b) = puts a ++ puts b.
Proof. unfold puts. apply flat_map_app. Qed.

Lemma ready_implies_join_or_bypass st ups b :
  rr_phase (evaluate_readiness st ups b) = P_READY -> b = true \/ join_condition st ups.
Proof. destruct b; [left; reflexivity|right; apply evaluate_readiness_ready_sound; assumption]. Qed.

(* every stage write of a StartStage handling targets that stage, and it becomes RUNNING only from
   NOT_STARTED and only when the readiness verdict is READY *)
Theorem start_stage_writes s id i k st :
  get_stage s i = Some st ->
  forall j st', In (j, st') (puts (h_commits (handle_start_stage s id i k))) ->
    j = i /\
    (s_status st' = s_status st \/ s_status st' = TERMINAL \/
     (s_status st' = RUNNING /\ s_status st = NOT_STARTED /\
      rr_phase (evaluate_readiness (rstage_of st) (upstream s st) (s_bypass st)) = P_READY)).
Proof.
  intros Hs j st'. unfold handle_start_stage. rewrite Hs.
  destruct (parent_not_started s st). { simpl. intros []. }
  set (r := evaluate_readiness _ _ _).
  assert (forall j st',
            In (j, st') (puts (h_commits (if start_stage_late (s_status st) then ok []
                        else if start_stage_waits r (upstream s st) then ok []
                        else if wait_exhausted k max_stage_wait_retries
                             then if can_transition (s_status st) TERMINAL
                                  then ok [txn [c_put i (st_set st TERMINAL (s_started st) true (s_fired st) (s_branches st) true (s_ctx st) (s_outs st) (s_tasks st)); c_push (MCompleteStage i)]]
                                  else ok [txn [c_put i (st_exc st); c_push (MCompleteStage i)]]
                             else ok [c_push (MStartStage i (k + 1))]))) ->
            j = i /\ (s_status st' = s_status st \/ s_status st' = TERMINAL)) as Hw.
  { clear j st'. intros j st'.
    destruct (start_stage_late (s_status st)); [intros []|].
    destruct (start_stage_waits r (upstream s st)); [intros []|].
    destruct (wait_exhausted k max_stage_wait_retries).
    - destruct (can_transition (s_status st) TERMINAL); simpl; intros [H|[]]; inversion H; subst; auto.
    - simpl. intros []. }
  destruct (rr_phase r) eqn:Hph.
  - (* READY *)
    unfold start_if_ready.
    set (st1 := if s_bypass st then st_ctl st false (s_jump_count st) (s_buffered st) (s_signal st) else st).
    assert (s_status st1 = s_status st) as E1 by (unfold st1; destruct (s_bypass st); reflexivity).
    set (zombie := status_eqb (s_status st1) RUNNING && (s_plan_pending st1 || (is_nil (s_tasks st1) && is_nil (children s i)))).
    destruct (negb (start_stage_fresh (s_status st1)) && negb zombie) eqn:E0; [intros []|].
    destruct (should_skip st1). { simpl. intros []. }
    destruct (milestone_expired s st1). { simpl. intros []. }
    destruct (mutex_blocked s i st1). { simpl. intros []. }
    destruct (status_eqb (s_status st1) NOT_STARTED && choice_claimed s i st1). { simpl. intros []. }
    destruct (y_expired (s_syn st1)). { simpl. intros []. }
    match goal with |- context [negb (fst ?m)] => destruct (fst m) end; cbn [negb]. 2:{ simpl. intros []. }
    match goal with |- context [negb (fst ?c)] => destruct (fst c) end; cbn [negb]. 2:{ simpl. intros []. }
    cbn [h_commits ok]. rewrite !puts_app.
    rewrite (puts_quiet_chain (match s_choice st1 with Some g => _ | None => [] end))
      by (destruct (s_choice st1); [apply quiet_chain_map_push|constructor]).
    cbn [puts flat_map app]. rewrite !app_nil_r.
    intros H. apply in_app_or in H. destruct H as [H|H].
    + (* claim commit *)
      unfold puts_commit in H. simpl in H. destruct H as [H|H].
      * inversion H; subst. split; [reflexivity|].
        destruct zombie eqn:Z.
        -- left. simpl. exact E1.
        -- right. right. simpl.
           assert (start_stage_fresh (s_status st1) = true) as F.
           { destruct (start_stage_fresh (s_status st1)); [reflexivity|]. simpl in E0. discriminate. }
           apply start_stage_fresh_spec in F. rewrite <- E1. auto.
      * destruct zombie; simpl in H; destruct H.
    + (* plan commit *)
      unfold txn, c_put, c_mark in H. cbn [concat app] in H.
      change (OPut i ?x :: ?r) with ([OPut i x] ++ r) in H.
      rewrite !puts_commit_app, puts_adds in H. simpl in H.
      destruct H as [H|H].
      * inversion H; subst. split; [reflexivity|].
        destruct zombie eqn:Z.
        -- left. simpl. exact E1.
        -- right. right. simpl.
           assert (start_stage_fresh (s_status st1) = true) as F.
           { destruct (start_stage_fresh (s_status st1)); [reflexivity|]. simpl in E0. discriminate. }
           apply start_stage_fresh_spec in F. rewrite <- E1. auto.
      * rewrite puts_commit_app, puts_quiet in H by apply quiet_pushes. destruct H.
  - intros H. apply Hw in H. tauto.
  - simpl. intros [].
  - intros H. apply Hw in H. tauto.
Qed.

(* hence: a stage leaves NOT_STARTED for RUNNING only if its join condition holds over the upstream statuses
   read by that very handler invocation, or it is the explicit target of a jump (bypass flag) *)
Corollary start_stage_guard s id i k st j st' :
  get_stage s i = Some st ->
  In (j, st') (puts (h_commits (handle_start_stage s id i k))) ->
  s_status st' = RUNNING -> s_status st = NOT_STARTED ->
  s_bypass st = true \/ join_condition (rstage_of st) (upstream s st).
Proof.
  intros Hs Hin Hr Hn. destruct (start_stage_writes s id i k st Hs j st' Hin) as [_ [H|[H|[_ [_ H]]]]].
  - congruence.
  - congruence.
  - apply ready_implies_join_or_bypass. exact H.
Qed.

(* a StartStage for a synthetic (before / after) stage whose parent is NOT_STARTED in the state this handling read - the
   parent was re-armed by a jump after the message was queued - writes no stage and queues nothing: the message is only
   marked processed.  Hence no StartStage handling takes a child out of NOT_STARTED ahead of its parent. *)
Theorem start_stage_child_waits_for_parent s id i k st p ps :
  get_stage s i = Some st -> y_parent (s_syn st) = Some p -> get_stage s p = Some ps -> s_status ps = NOT_STARTED ->
  handle_start_stage s id i k = ok [c_mark id].
Proof.
  intros Hs Hp Hps Hn. unfold handle_start_stage. rewrite Hs.
  unfold parent_not_started. rewrite Hp, Hps, Hn. reflexivity.
Qed.

Corollary start_stage_child_started_under_started_parent s id i k st p ps j st' :
  get_stage s i = Some st -> y_parent (s_syn st) = Some p -> get_stage s p = Some ps ->
  In (j, st') (puts (h_commits (handle_start_stage s id i k))) ->
  s_status ps <> NOT_STARTED.
Proof.
  intros Hs Hp Hps Hin Hn.
  rewrite (start_stage_child_waits_for_parent s id i k st p ps Hs Hp Hps Hn) in Hin. simpl in Hin. exact Hin.
Qed.

(* StartTask writes a stage (starts or skips a task) only when every before stage of that stage is complete: a duplicate
   StartTask of the previous loop iteration cannot run a parent's task ahead of its re-armed before stages *)
Theorem start_task_after_before_stages s id i t j st' b :
  In (j, st') (puts (h_commits (handle_start_task s id i t))) ->
  In b (kids s i OwnBefore) -> is_complete (status_at s b) = true.
Proof.
  unfold handle_start_task. destruct (get_stage s i) as [st|]; [|intros []].
  destruct (nth_error (s_tasks st) t) as [tk|]; [|intros []].
  destruct (status_eqb (s_status st) NOT_STARTED); [simpl; intros []|].
  destruct (before_incomplete s i) eqn:B; [simpl; intros []|].
  intros _ Hb. unfold before_incomplete in B.
  destruct (is_complete (status_at s b)) eqn:C; [reflexivity|].
  assert (existsb (fun j0 => negb (is_complete (status_at s j0))) (kids s i OwnBefore) = true) as X.
  { apply existsb_exists. exists b. split; [exact Hb|rewrite C; reflexivity]. }
  rewrite X in B. discriminate.
Qed.
