(* Facts about the regenerated transition table (models/status.py). All are decided by computation on
   the finite enumeration [all_statuses] and lifted with forall_status / forall_status2 — a proof over
   the whole (finite) domain, re-run against the table the source contains now. *)
From Coq Require Import List Bool.
Import ListNotations.
From Stab.model Require Import Base StatusM.

Lemma completed_no_exit : forall s, is_complete s = true -> valid_transitions s = [].
Proof.
  intros s. generalize (forall_status (fun s => implb (is_complete s) (is_nil (valid_transitions s))) eq_refl s).
  destruct (is_complete s); simpl; [|discriminate]. intros H _. apply is_nil_true. exact H.
Qed.

Lemma can_transition_refl : forall s, can_transition s s = true.
Proof. intros s. unfold can_transition. rewrite status_eqb_refl. reflexivity. Qed.

Lemma completed_final : forall a b, is_complete a = true -> can_transition a b = true -> a = b.
Proof.
  intros a b Hc. unfold can_transition. destruct (status_eqb a b) eqn:E.
  - intros _. apply status_eqb_eq. exact E.
  - rewrite (completed_no_exit a Hc). simpl. discriminate.
Qed.

Lemma table_domain_total : forall s, In s transition_table_domain.
Proof. destruct s; simpl; tauto. Qed.

Lemma table_domain_nodup : NoDup transition_table_domain.
Proof. repeat constructor; simpl; intuition discriminate. Qed.

(* nothing re-enters NOT_STARTED through the table except from BUFFERED: re-arming a finished stage is
   therefore never a table transition — it is the explicit jump / restart exception of the property *)
Lemma into_not_started : forall a, can_transition a NOT_STARTED = true -> a = NOT_STARTED \/ a = BUFFERED.
Proof.
  intros a. generalize (forall_status (fun a => implb (can_transition a NOT_STARTED)
      (status_eqb a NOT_STARTED || status_eqb a BUFFERED)) eq_refl a).
  destruct (can_transition a NOT_STARTED); simpl; [|discriminate].
  intros H _. apply orb_true_iff in H. destruct H as [H|H]; apply status_eqb_eq in H; auto.
Qed.

(* halt statuses are completed; continuable statuses other than REDIRECT are completed *)
Lemma halt_complete : forall s, is_halt s = true -> is_complete s = true.
Proof.
  intros s. generalize (forall_status (fun s => implb (is_halt s) (is_complete s)) eq_refl s).
  destruct (is_halt s), (is_complete s); simpl; congruence.
Qed.

Lemma only_running_reaches_success : forall a b,
  can_transition a b = true -> a <> b -> (b = SUCCEEDED \/ b = FAILED_CONTINUE) -> a = RUNNING \/ a = REDIRECT.
Proof.
  intros a b H Hne Hb.
  generalize (forall_status2 (fun a b => implb (can_transition a b && negb (status_eqb a b)
      && (status_eqb b SUCCEEDED || status_eqb b FAILED_CONTINUE)) (status_eqb a RUNNING || status_eqb a REDIRECT)) eq_refl a b).
  rewrite H. destruct (status_eqb a b) eqn:E; [apply status_eqb_eq in E; contradiction|]. simpl.
  destruct Hb as [-> | ->]; simpl; intros H2; apply orb_true_iff in H2; destruct H2 as [H2|H2];
    apply status_eqb_eq in H2; auto.
Qed.
