(* Synthetic stages (before / after / on-failure children): where they are created, and the ordering the handlers
   enforce between a parent's tasks and its children. *)
From Coq Require Import List Bool Arith ZArith Lia.
Import ListNotations.
From Stab.model Require Import Base StatusM Readiness StageStat Engine.
From Stab.gen Require Import Gen_Config Gen_Guards.
From Stab.proofs Require Import EngineLegal.

Definition nadd (o : op) : bool := match o with OAdd _ => false | _ => true end.
Definition is_mark (id : nat) (o : op) : bool := match o with OMark k => k =? id | _ => false end.
Definition puts_stage (i : nat) (o : op) : bool := match o with OPut k _ => k =? i | _ => false end.

(* a commit either creates no stage, or it also records the message as processed and stores the stage the new
   rows belong to, and every new row is fresh (NOT_STARTED, no task started) and a child of that stage *)
Definition adds_ok (id : nat) (c : commit) : Prop :=
  forallb nadd c = true \/
  exists i, existsb (is_mark id) c = true /\ existsb (puts_stage i) c = true /\
            forall ch, In (OAdd ch) c -> stage_fresh ch /\ y_parent (s_syn ch) = Some i.

Lemma nadd_pushes ms : forallb nadd (c_pushes ms) = true.
Proof. unfold c_pushes. induction ms; simpl; auto. Qed.

Lemma nadd_app a b : forallb nadd (a ++ b) = forallb nadd a && forallb nadd b.
Proof. apply forallb_app. Qed.

Ltac noadd :=
  repeat first
    [ reflexivity
    | apply Forall_nil
    | apply Forall_cons
    | left
    | progress (cbn [txn concat app c_put c_mark c_push c_wf c_cancel c_mutate forallb nadd negb andb])
    | rewrite app_nil_r
    | rewrite nadd_pushes
    | rewrite nadd_app ].

Definition ADDS id (h : hres) : Prop := Forall (adds_ok id) (h_commits h).

Lemma mk_children_parent k base parent o ts ch :
  In ch (mk_children_from k base parent o ts) -> y_parent (s_syn ch) = Some parent.
Proof.
  revert k. induction ts as [|t ts IH]; intros k H; simpl in H; [destruct H|].
  destruct H as [H|H]; [subst ch; reflexivity|apply IH with (S k); exact H].
Qed.

Lemma in_adds_map ch l q : In (OAdd ch) (map OAdd l ++ q) -> forallb nadd q = true -> In ch l.
Proof.
  intros H Hq. apply in_app_or in H. destruct H as [H|H].
  - apply in_map_iff in H. destruct H as [x [E Hx]]. inversion E; subst. exact Hx.
  - exfalso. rewrite forallb_forall in Hq. specialize (Hq _ H). discriminate.
Qed.

(* the commit  store(parent) ; add(children of parent) ; mark ; pushes *)
Lemma adds_ok_plan id i p (adds : list stage) ms :
  Forall stage_fresh adds -> (forall ch, In ch adds -> y_parent (s_syn ch) = Some i) ->
  adds_ok id (txn [c_put i p; map OAdd adds; c_mark id; c_pushes ms]).
Proof.
  intros Hf Hp. right. exists i. cbn [txn concat app c_put c_mark].
  split; [|split].
  - simpl. rewrite existsb_app. simpl. rewrite Nat.eqb_refl. rewrite orb_true_r. reflexivity.
  - simpl. rewrite Nat.eqb_refl. reflexivity.
  - intros ch H. simpl in H. destruct H as [H|H]; [discriminate|].
    assert (In ch adds) as Hin.
    { apply (in_adds_map ch adds (OMark id :: c_pushes ms ++ [])); [exact H|]. simpl. rewrite app_nil_r. apply nadd_pushes. }
    split; [|apply Hp; exact Hin]. rewrite Forall_forall in Hf. apply Hf. exact Hin.
Qed.

Lemma adds_start_stage s id i k : ADDS id (handle_start_stage s id i k).
Proof.
  unfold ADDS, handle_start_stage. destruct (get_stage s i) as [st|]; [|noadd].
  destruct (parent_not_started s st); [unfold ok; cbn [h_commits]; noadd|].
  match goal with |- context [match rr_phase ?r with _ => _ end] => destruct (rr_phase r) end.
  - unfold start_if_ready.
    match goal with |- context [if ?c then ok [] else _] => destruct c end; [noadd|].
    destruct (should_skip _); [unfold ok; cbn [h_commits]; noadd|].
    destruct (milestone_expired _ _); [unfold ok; cbn [h_commits]; noadd|].
    destruct (mutex_blocked _ _ _); [unfold ok; cbn [h_commits]; noadd|].
    destruct (_ && choice_claimed _ _ _); [unfold ok; cbn [h_commits]; noadd|].
    destruct (y_expired _); [unfold ok; cbn [h_commits]; noadd|].
    match goal with |- context [negb (fst ?m)] => destruct (fst m) end; cbn [negb]; [|unfold ok; cbn [h_commits]; noadd].
    match goal with |- context [negb (fst ?c)] => destruct (fst c) end; cbn [negb]; [|unfold ok; cbn [h_commits]; noadd].
    unfold ok; cbn [h_commits]. apply Forall_app. split.
    + constructor; [|constructor]. left. rewrite nadd_app. simpl.
      match goal with |- context [if ?z then [] else _] => destruct z end; reflexivity.
    + apply Forall_app. split.
      * match goal with |- context [match ?c with Some _ => _ | None => [] end] => destruct c end; [|constructor].
        induction (siblings_not_started _ _ _); simpl; constructor; auto. left. reflexivity.
      * constructor; [|constructor]. apply adds_ok_plan.
        -- unfold new_before. destruct (kids s i OwnBefore); [apply mk_children_fresh|constructor].
        -- intros ch H. unfold new_before in H. destruct (kids s i OwnBefore); [|destruct H].
           apply (mk_children_parent _ _ _ _ _ _ H).
  - destruct (start_stage_late _); [noadd|]. destruct (start_stage_waits _ _); [noadd|].
    destruct (wait_exhausted _ _); [destruct (can_transition _ _)|]; unfold ok; cbn [h_commits]; noadd.
  - unfold ok; cbn [h_commits]; noadd.
  - destruct (start_stage_late _); [noadd|]. destruct (start_stage_waits _ _); [noadd|].
    destruct (wait_exhausted _ _); [destruct (can_transition _ _)|]; unfold ok; cbn [h_commits]; noadd.
Qed.

Lemma adds_join_tracking id s i ds : Forall (adds_ok id) (join_tracking s i ds).
Proof.
  unfold join_tracking. induction ds as [|d ds IH]; simpl; [constructor|].
  apply Forall_app. split; [|exact IH].
  destruct (get_stage s d) as [dst|]; [|constructor].
  destruct (s_join dst); try (constructor; fail); destruct (mem_nat i (s_branches dst)); repeat constructor.
Qed.

Lemma if_children_parent (b : bool) base i o ts ch :
  In ch (if b then mk_children base i o ts else []) -> y_parent (s_syn ch) = Some i.
Proof. destruct b; [apply mk_children_parent|intros []]. Qed.

Lemma adds_complete_stage s id i : ADDS id (handle_complete_stage s id i).
Proof.
  unfold ADDS, handle_complete_stage. destruct (get_stage s i) as [st|]; [|noadd].
  destruct (status_eqb _ NOT_STARTED); [unfold ok; cbn [h_commits]; noadd|].
  destruct (negb _). { destruct (is_halt _); unfold ok; cbn [h_commits]; noadd. }
  cbn zeta.
  match goal with |- context [if ?c then ok [txn [c_put i (st_touch st); _; _; _]] else _] => destruct c end.
  { unfold ok; cbn [h_commits]. constructor; [|constructor]. apply adds_ok_plan.
    - apply if_fresh, mk_children_fresh'.
    - intros ch H. apply (if_children_parent _ _ _ _ _ _ H). }
  match goal with |- context [if ?c then ok [c_mark id] else _] => destruct c end; [unfold ok; cbn [h_commits]; noadd|].
  match goal with |- context [if ?c then ok [txn [c_put i (st_touch (with_onfail st true)); _; _; _]] else _] => destruct c end.
  { unfold ok; cbn [h_commits]. constructor; [|constructor]. apply adds_ok_plan.
    - apply if_fresh, mk_children_fresh'.
    - intros ch H. apply (if_children_parent _ _ _ _ _ _ H). }
  match goal with |- context [status_eqb ?x RUNNING] => destruct (status_eqb x RUNNING) end; [unfold ok; cbn [h_commits]; noadd|].
  destruct (negb _); [noadd|].
  destruct (_ || _ || _); unfold ok; cbn [h_commits].
  - apply Forall_app. split; [apply adds_join_tracking|]. noadd.
  - noadd.
Qed.

Ltac simple_noadd h := unfold ADDS, h; repeat (match goal with |- context [match ?x with _ => _ end] => destruct x end);
                       unfold ok, raised; cbn [h_commits]; noadd.

Lemma adds_start_workflow s id : ADDS id (handle_start_workflow s id). Proof. simple_noadd handle_start_workflow. Qed.
Lemma adds_complete_workflow s id k : ADDS id (handle_complete_workflow s id k). Proof. simple_noadd handle_complete_workflow. Qed.
Lemma adds_cancel_workflow s id : ADDS id (handle_cancel_workflow s id). Proof. simple_noadd handle_cancel_workflow. Qed.
Lemma adds_skip_stage s id i : ADDS id (handle_skip_stage s id i). Proof. simple_noadd handle_skip_stage. Qed.
Lemma adds_cancel_stage s id i : ADDS id (handle_cancel_stage s id i). Proof. simple_noadd handle_cancel_stage. Qed.
Lemma adds_start_task s id i t : ADDS id (handle_start_task s id i t). Proof. simple_noadd handle_start_task. Qed.
Lemma adds_complete_task s id i t x : ADDS id (handle_complete_task s id i t x). Proof. simple_noadd handle_complete_task. Qed.
Lemma adds_signal s id i n p : ADDS id (handle_signal_stage s id i n p). Proof. simple_noadd handle_signal_stage. Qed.
Lemma adds_pause_task s id i t : ADDS id (handle_pause_task s id i t). Proof. simple_noadd handle_pause_task. Qed.
Lemma adds_resume_stage s id i : ADDS id (handle_resume_stage s id i). Proof. simple_noadd handle_resume_stage. Qed.
Lemma adds_restart_stage s id i : ADDS id (handle_restart_stage s id i). Proof. simple_noadd handle_restart_stage. Qed.
Lemma adds_continue_parent s id i o k : ADDS id (handle_continue_parent s id i o k). Proof. simple_noadd handle_continue_parent. Qed.

Lemma adds_run_task orc s id i t a : ADDS id (handle_run_task orc s id i t a).
Proof.
  unfold ADDS, handle_run_task. destruct (get_stage s i) as [st|]; [|noadd].
  destruct (nth_error _ t) as [tk|]; [|noadd].
  destruct (negb _); [unfold ok; cbn [h_commits]; noadd|].
  destruct (w_canceled s); [unfold ok; cbn [h_commits]; noadd|].
  destruct (is_complete _); [unfold ok; cbn [h_commits]; noadd|].
  destruct (status_eqb _ PAUSED); [unfold ok; cbn [h_commits]; noadd|].
  cbn [h_commits].
  destruct (orc i t (count_execs s i t)); unfold process_result, handle_exception, mark_terminal; try noadd.
  - destruct (retry_guard _ _); [destruct ctx|]; noadd.
  - destruct (s_buffered st); noadd.
Qed.

Lemma nadd_map_mut {A} (f : A -> op) l : (forall x, nadd (f x) = true) -> forallb nadd (map f l) = true.
Proof. intros H. induction l; simpl; [reflexivity|]. rewrite H, IHl. reflexivity. Qed.

Lemma nadd_concat cs : Forall (fun c => forallb nadd c = true) cs -> forallb nadd (concat cs) = true.
Proof. induction 1 as [|c cs Hc _ IH]; simpl; [reflexivity|]. rewrite nadd_app, Hc, IH. reflexivity. Qed.

Lemma nadd_muts (l : list nat) (f : stage -> stage) : Forall (fun c => forallb nadd c = true) (map (fun j => c_mutate j f) l).
Proof. induction l; simpl; constructor; auto. Qed.

Lemma adds_jump s id i tg c : ADDS id (handle_jump s id i tg c).
Proof.
  unfold ADDS, handle_jump. destruct (get_stage s i) as [src|]; [|noadd].
  destruct (w_canceled s); [unfold ok; cbn [h_commits]; noadd|].
  destruct (get_stage s tg) as [tgt|]; [|unfold ok; cbn [h_commits]; noadd].
  destruct (jump_exhausted _ _); [unfold ok; cbn [h_commits]; noadd|].
  unfold ok; cbn [h_commits]. constructor; [|constructor]. left.
  unfold txn. apply nadd_concat. repeat (apply Forall_app; split).
  - match goal with |- Forall _ (flat_map _ ?l) => generalize l end. intros l0.
    induction l0 as [|j l0 IH]; simpl; [constructor|].
    constructor; [reflexivity|]. apply Forall_app. split; [apply nadd_muts|exact IH].
  - apply nadd_muts.
  - match goal with |- context [if ?a then [] else _] => destruct a end; [constructor|].
    match goal with |- context [if ?a then _ else _] => destruct a end.
    + constructor; [reflexivity|apply nadd_muts].
    + constructor; [reflexivity|constructor].
  - constructor; [reflexivity|]. apply Forall_app. split; [apply nadd_muts|]. repeat constructor.
Qed.

(* every commit of every handler: a stage row is created only together with the processed mark of the message
   being handled and the store of its parent (so a crash cut cannot separate them: no duplicated, no partial set
   of synthetic stages), and it is created fresh *)
Theorem adds_handle orc s r : ADDS (q_id r) (handle orc s r).
Proof.
  unfold handle. destruct (q_msg r).
  - apply adds_start_workflow.
  - apply adds_complete_workflow.
  - apply adds_cancel_workflow.
  - apply adds_start_stage.
  - apply adds_complete_stage.
  - apply adds_skip_stage.
  - apply adds_cancel_stage.
  - apply adds_start_task.
  - apply adds_run_task.
  - apply adds_complete_task.
  - apply adds_jump.
  - apply adds_signal.
  - apply adds_pause_task.
  - apply adds_resume_stage.
  - apply adds_restart_stage.
  - apply adds_continue_parent.
Qed.

(* ---- ordering between a parent's tasks and its children ---- *)

(* ContinueParentStage starts the parent's first task only in the BEFORE phase and only when every before stage
   ended in a continuable status *)
Ltac not_in_simple Hin := simpl in Hin; repeat (destruct Hin as [Hin|Hin]; [discriminate|]); try destruct Hin.

Theorem continue_parent_start_task s id i o k t c :
  In c (h_commits (handle_continue_parent s id i o k)) -> In (OPush (MStartTask i t)) c ->
  o = OwnBefore /\ t = 0 /\ forallb in_continuable (map (status_at s) (kids s i OwnBefore)) = true
  /\ existsb in_halt (map (status_at s) (kids s i OwnBefore)) = false.
Proof.
  unfold handle_continue_parent. destruct (get_stage s i) as [st|]; [|intros []].
  destruct (existsb in_halt _) eqn:Eh.
  { destruct (negb _); simpl; [intros []|]. intros [Hc|[]] Hin. subst c. not_in_simple Hin. }
  destruct (forallb in_continuable _) eqn:Ec; cbn [negb].
  2:{ destruct (_ <=? _)%Z; [destruct (negb _); [simpl; intros []|]|]; simpl.
      - intros [Hc|[]] Hin. subst c. not_in_simple Hin.
      - intros [Hc|[]] Hin. subst c. not_in_simple Hin. }
  destruct o.
  - destruct (s_tasks st).
    + destruct (filter (initial_at s) _).
      * simpl. intros [Hc|[]] Hin. subst c. not_in_simple Hin.
      * destruct (filter _ (_ :: _)) eqn:F; simpl; [intros []|]. intros [Hc|[]] Hin. subst c.
        cbn [txn concat app c_mark c_pushes] in Hin. simpl in Hin. destruct Hin as [Hin|Hin]; [discriminate|].
        rewrite app_nil_r in Hin. destruct Hin as [Hin|Hin]; [discriminate|].
        apply in_map_iff in Hin. destruct Hin as [m [E Hm]]. apply in_map_iff in Hm. destruct Hm as [j [E2 _]]. subst m. discriminate.
    + simpl. intros [Hc|[]] Hin. subst c. simpl in Hin. destruct Hin as [Hin|[Hin|[]]]; [discriminate|].
      inversion Hin; subst. auto.
  - simpl. intros [Hc|[]] Hin. subst c. not_in_simple Hin.
Qed.

(* StartStage handling starts the stage's first task directly only when the stage has no initial before stage,
   neither persisted nor planned in this very commit *)
Theorem first_msgs_start_task s i st t :
  In (MStartTask i t) (first_msgs s i st) ->
  filter (initial_at s) (kids s i OwnBefore) = [] /\ new_initial (length (w_stages s)) (new_before s i st) = [].
Proof.
  unfold first_msgs. destruct (_ ++ _) as [|b bs] eqn:E.
  - intros _. apply app_eq_nil in E. exact E.
  - intros H. apply in_map_iff in H. destruct H as [j [Hj _]]. discriminate.
Qed.

(* ---- CompleteStage: which status it stores ---- *)
Definition stage_status_of (s : state) (i : nat) (st : stage) : status :=
  determine_status (s_status st) (s_cof st) (s_fp st) (map (status_at s) (kids s i OwnBefore))
                   (map t_status (s_tasks st)) (map (status_at s) (kids s i OwnAfter)).

(* every store of the stage itself by CompleteStage either keeps its status (planning after / on-failure stages) or
   sets exactly determine_status over the stage's tasks and the CURRENT statuses of its before / after stages
   (with the _blocking_failure conversion) *)
Theorem complete_stage_stores s id i st c p :
  get_stage s i = Some st -> In c (h_commits (handle_complete_stage s id i)) -> In (OPut i p) c ->
  s_status p = s_status st \/
  s_status p = (let x := stage_status_of s i st in
                if status_eqb x FAILED_CONTINUE && y_blocking (s_syn st) then TERMINAL else x).
Proof.
  intros Hs. unfold handle_complete_stage. rewrite Hs.
  destruct (status_eqb _ NOT_STARTED). { simpl. intros [H|[]] Hin. subst c. simpl in Hin. destruct Hin as [H|[]]; discriminate. }
  destruct (negb _).
  { destruct (is_halt _); simpl; [|intros []]. intros [H|[]] Hin. subst c. simpl in Hin. destruct Hin as [H|[H|[]]]; discriminate. }
  cbn zeta. fold (stage_status_of s i st).
  match goal with |- context [if ?c then ok [txn [c_put i (st_touch st); _; _; _]] else _] => destruct c end.
  { simpl. intros [H|[]] Hin. subst c. cbn [txn concat app c_put c_mark] in Hin. simpl in Hin.
    destruct Hin as [H|Hin]; [inversion H; subst p; left; reflexivity|].
    exfalso. apply in_app_or in Hin. destruct Hin as [Hin|Hin].
    - apply in_map_iff in Hin. destruct Hin as [x [E _]]. discriminate.
    - simpl in Hin. destruct Hin as [H|Hin]; [discriminate|]. rewrite app_nil_r in Hin.
      apply in_map_iff in Hin. destruct Hin as [x [E _]]. discriminate. }
  match goal with |- context [if ?c then ok [c_mark id] else _] => destruct c end.
  { simpl. intros [H|[]] Hin. subst c. simpl in Hin. destruct Hin as [H|[]]; discriminate. }
  match goal with |- context [if ?c then ok [txn [c_put i (st_touch (with_onfail st true)); _; _; _]] else _] => destruct c end.
  { simpl. intros [H|[]] Hin. subst c. cbn [txn concat app c_put c_mark] in Hin. simpl in Hin.
    destruct Hin as [H|Hin]; [inversion H; subst p; left; reflexivity|].
    exfalso. apply in_app_or in Hin. destruct Hin as [Hin|Hin].
    - apply in_map_iff in Hin. destruct Hin as [x [E _]]. discriminate.
    - simpl in Hin. destruct Hin as [H|Hin]; [discriminate|]. rewrite app_nil_r in Hin.
      apply in_map_iff in Hin. destruct Hin as [x [E _]]. discriminate. }
  destruct (status_eqb (stage_status_of s i st) RUNNING).
  { simpl. intros [H|[]] Hin. subst c. simpl in Hin. destruct Hin as [H|[]]; discriminate. }
  set (st2 := if negb (is_nil _) then with_onfail st true else st).
  assert (y_blocking (s_syn st2) = y_blocking (s_syn st)) as Eb by (unfold st2; destruct (negb (is_nil _)); reflexivity).
  rewrite Eb.
  set (x2 := if status_eqb (stage_status_of s i st) FAILED_CONTINUE && y_blocking (s_syn st) then TERMINAL else stage_status_of s i st).
  destruct (negb (can_transition (s_status st2) x2)); [intros []|].
  destruct (status_eqb x2 SUCCEEDED || status_eqb x2 FAILED_CONTINUE || status_eqb x2 SKIPPED).
  - cbn [h_commits ok]. intros Hc Hin. apply in_app_or in Hc. destruct Hc as [Hc|Hc].
    + (* join tracking writes only OMut *)
      exfalso. unfold join_tracking in Hc. apply in_flat_map in Hc. destruct Hc as [d [_ Hd]].
      destruct (get_stage s d) as [dst|]; [|destruct Hd].
      destruct (s_join dst); try (destruct Hd; fail); destruct (mem_nat i (s_branches dst)); try (destruct Hd; fail);
        (destruct Hd as [Hd|[]]; subst c; simpl in Hin; destruct Hin as [H|[]]; discriminate).
    + destruct Hc as [Hc|[]]. subst c. cbn [txn concat app c_put c_mark] in Hin. simpl in Hin.
      destruct Hin as [H|Hin]; [inversion H; subst p; right; reflexivity|].
      exfalso. destruct Hin as [H|Hin]; [discriminate|]. rewrite app_nil_r in Hin.
      apply in_map_iff in Hin. destruct Hin as [x [E _]]. discriminate.
  - simpl. intros [H|[]] Hin. subst c. simpl in Hin.
    destruct Hin as [H|[H|[H|[]]]]; try discriminate. inversion H; subst p. right. reflexivity.
Qed.

(* ---- recovery: a planned parent whose before stages are unfinished is left alone ---- *)
Theorem recover_leaves_waiting_parent s i st :
  s_status st = RUNNING -> s_plan_pending st = false ->
  (forall tk, In tk (s_tasks st) -> t_status tk <> RUNNING) ->
  existsb (fun j => negb (is_complete (status_at s j))) (kids s i OwnBefore) = true ->
  recover_stage s i st = [].
Proof.
  intros E P T K. unfold recover_stage. rewrite E. simpl status_eqb. cbv iota.
  assert (filter (fun t => match nth_error (s_tasks st) t with Some tk => status_eqb (t_status tk) RUNNING | None => false end)
                 (seqn (length (s_tasks st))) = []) as F.
  { apply filter_nil_iff. intros t _. destruct (nth_error (s_tasks st) t) as [tk|] eqn:Hn; [|reflexivity].
    specialize (T tk (nth_error_In _ _ Hn)). destruct (status_eqb (t_status tk) RUNNING) eqn:Q; [|reflexivity].
    apply status_eqb_eq in Q. contradiction. }
  rewrite F, P, K. reflexivity.
Qed.
