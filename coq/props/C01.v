(* C01 — Crash anywhere, restart with recovery: same outcome as an uninterrupted run.
   PROVED
     C01_crash_is_prefix        a crash during a delivery leaves exactly the effects of a prefix of that delivery's
                                commits (each commit is atomic; nothing of a later commit is visible)
     C01_claim_plan_recovered   the F2 window (crash between StartStage's claim and plan commits): recovery re-queues
                                StartStage — never StartTask — for a stage still carrying the plan-pending marker, and
                                handling it re-plans the stage with the merged ancestor outputs and clears the marker
     C01_crash_commits_legal    (from C06) every commit before the crash point and every commit of the recovery is a
                                legal status change
   OPEN: C01_outcome / C01_single_step_reexec (same final statuses and upstream data, only the in-flight step
     re-executed) need the token invariant; they are decided by the correspondence: a crash at EVERY commit of the
     families' runs (+ pairs of crashes and crashes during recovery in the thorough tier), restart, recovery, drain,
     compared commit by commit with the model and by monitors with the uninterrupted run. *)
From Coq Require Import List Bool Arith ZArith.
Import ListNotations.
From Stab.model Require Import Base StatusM Readiness StageStat Engine.
From Stab.proofs Require Import SynP EngineLegal RecoverP EngineEx.

Theorem C01_crash_is_prefix : forall orc s id k d,
  delivery_commits orc s id true = Some d ->
  step orc s (DeliverCut id (S k)) = apply_commits (firstn k (d_rest d)) (apply_pre (d_pre d) (apply_commit s (d_poll d)))
  /\ step orc s (DeliverCut id 0) = s
  /\ step orc s (Deliver id true) = apply_commits (d_rest d) (apply_pre (d_pre d) (apply_commit s (d_poll d))).
Proof. intros orc s id k d H. simpl. rewrite H. auto. Qed.

Theorem C01_claim_plan_recovered : forall s id i k st,
  s_status st = RUNNING -> s_plan_pending st = true ->
  (forall tk, In tk (s_tasks st) -> t_status tk = NOT_STARTED) ->
  recover_stage s i st = [MStartStage i 0] /\
  (s_bypass st = false -> should_skip st = false -> milestone_expired s st = false -> y_expired (s_syn st) = false ->
   s_mutex st = None -> s_choice st = None ->
   exists claimed planned,
     h_commits (start_if_ready s id i k st false) =
       [[OClaims (w_claims s); OPut i claimed]; OPut i planned :: map OAdd (new_before s i st) ++ OMark id :: c_pushes (first_msgs s i st) ++ []]
     /\ s_plan_pending planned = false /\ s_ctx planned = planned_ctx s st /\ s_status planned = RUNNING).
Proof.
  intros s id i k st E P T. split; [apply recover_plan_pending; assumption|].
  intros B Sk Ms Ex M C. apply replan_plan_pending; assumption.
Qed.

(* the claimant of a deferred-choice group, cut between its claim and plan commits, is re-planned after recovery:
   it still owns the claim row, it is not cancelled on account of the siblings it cancelled itself, and it never
   pushes CancelStage for itself *)
Theorem C01_choice_claimant_replanned : forall s id i k st g,
  s_status st = RUNNING -> s_plan_pending st = true -> s_bypass st = false ->
  should_skip st = false -> milestone_expired s st = false -> y_expired (s_syn st) = false ->
  s_mutex st = None -> s_choice st = Some g ->
  claim_lookup (w_claims s) false g = Some i ->
  exists claimed planned,
    h_commits (start_if_ready s id i k st false) =
      [[OClaims (w_claims s); OPut i claimed]] ++ map (fun j => c_push (MCancelStage j)) (siblings_not_started s i g) ++
      [OPut i planned :: map OAdd (new_before s i st) ++ OMark id :: c_pushes (first_msgs s i st) ++ []]
    /\ s_plan_pending planned = false /\ s_ctx planned = planned_ctx s st /\ s_status planned = RUNNING
    /\ ~ In i (siblings_not_started s i g).
Proof. exact replan_choice_claimant. Qed.

(* synthetic (before / after / on-failure) stages are created atomically with their parent's plan: in EVERY commit of
   EVERY handler, in every state, a stage row is added only together with the processed mark of the message being
   handled and the store of the stage the new rows belong to, and the new rows are fresh children of that stage -
   a crash cut falls before or after the whole set, and a redelivery after it is a duplicate (C02_dup_noop) *)
Theorem C01_synthetic_stages_atomic : forall orc s r c,
  In c (h_commits (handle orc s r)) ->
  forallb nadd c = true \/
  exists i, existsb (is_mark (q_id r)) c = true /\ existsb (puts_stage i) c = true /\
            forall ch, In (OAdd ch) c -> stage_fresh ch /\ y_parent (s_syn ch) = Some i.
Proof. intros orc s r c H. pose proof (adds_handle orc s r) as A. unfold ADDS in A. rewrite Forall_forall in A. apply (A c H). Qed.

Theorem C01_crash_commits_legal : forall orc s id k,
  running_task_in_running_stage s -> ~ delivers_jump s (DeliverCut id k) ->
  pairwise_legal s (step_trace orc s (DeliverCut id k)).
Proof. intros. apply commit_legal; assumption. Qed.

(* non-vacuity: crash between B's claim and plan commits, recover, drain: same statuses as uninterrupted, and B's
   task saw A's output (planned context of B contains key 1) *)
Example C01_witness :
  let pre := run ok_oracle ex_chain [Submit; Deliver 1 true; Deliver 2 true; Deliver 3 true; Deliver 4 true;
                                     Deliver 5 true; Deliver 6 true] in
  let crashed := step ok_oracle pre (DeliverCut 7 2) in
  map s_status (w_stages crashed) = [SUCCEEDED; RUNNING] /\
  map s_plan_pending (w_stages crashed) = [false; true] /\
  recovery_msgs crashed = [MStartStage 1 0] /\
  let final := drain ok_oracle 80 (recover crashed) in
  statuses final = statuses (drain ok_oracle 80 pre) /\
  map s_ctx (w_stages final) = map s_ctx (w_stages (drain ok_oracle 80 pre)) /\
  map s_ctx (w_stages final) = [[]; [(1, 7%Z)]].
Proof. vm_compute. repeat split. Qed.

(* non-vacuity for the synthetic-stage theorem: the parent's plan commit is the third commit of its StartStage
   delivery (poll, claim, plan): cut before it no child row exists, cut after it the before stage exists AND its
   StartStage is queued; the run ends with all four stages SUCCEEDED *)
Example C01_synthetic_witness :
  let pre := run ok_oracle ex_syn [Submit; Deliver 1 true] in
  length (w_stages (step ok_oracle pre (DeliverCut 2 2))) = 2 /\
  length (w_stages (step ok_oracle pre (DeliverCut 2 3))) = 3 /\
  map q_msg (w_queue (step ok_oracle pre (DeliverCut 2 3))) = [MStartStage 0 0; MStartStage 2 0] /\
  statuses (drain ok_oracle 200 pre) = (SUCCEEDED, [SUCCEEDED; SUCCEEDED; SUCCEEDED; SUCCEEDED]).
Proof. vm_compute. repeat split. Qed.

Print Assumptions C01_crash_is_prefix.
Print Assumptions C01_claim_plan_recovered.
Print Assumptions C01_crash_commits_legal.
Print Assumptions C01_synthetic_stages_atomic.
Print Assumptions C01_choice_claimant_replanned.
