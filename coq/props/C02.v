(* C02 — Redelivery and reordering never change the result or repeat finished work.
   PROVED
     C02_dup_noop             a message whose processed mark is durable: any later delivery changes nothing but the
                              row's attempt counter / the ack (no handler runs, no stage, task, workflow, ledger change)
     C02_no_rearm_without_jump a stage that has left NOT_STARTED never returns to NOT_STARTED in any commit of any
                              handler other than JumpToStage (so within one loop iteration it is started at most once:
                              the start commit requires NOT_STARTED, see C03_start_stage_only) — corollary of
                              C06_commit_legal and the transition table
     C02_completed_survives   over every non-jump step (any delivery, cut, sweep, request) every completed workflow /
                              stage / task status is kept
     C02_no_reexec            the task a step executes was RUNNING when the handler read it: a task whose result has
                              been recorded (any status other than RUNNING) is never the one executed; with
                              C02_completed_survives it stays recorded until a jump re-arms it
   OPEN (correspondence + monitors only): C02_outcome (same outcome as in-order exactly-once delivery) needs the
     token invariant.
     KNOWN FINDING F10: a stale CompleteTask(REDIRECT) wedges the next loop iteration (known_findings.json). *)
From Coq Require Import List Bool Arith ZArith.
Import ListNotations.
From Stab.model Require Import Base StatusM Readiness StageStat Engine.
From Stab.gen Require Import Gen_Config.
From Stab.proofs Require Import StatusP EngineP EngineLegal EngineSteps EngineEx EngineIds EnginePush.

Theorem C02_dup_noop : forall orc s id do_ack r,
  find_row s id = Some r -> (q_attempts r < queue_max_attempts)%Z -> mem_nat id (w_processed s) = true ->
  let s' := step orc s (Deliver id do_ack) in
  w_stages s' = w_stages s /\ w_status s' = w_status s /\ w_canceled s' = w_canceled s /\ g_execs s' = g_execs s
  /\ w_processed s' = w_processed s /\ w_next s' = w_next s /\ w_claims s' = w_claims s.
Proof. exact processed_delivery_frame. Qed.

Theorem C02_no_rearm_without_jump : forall orc s a,
  running_task_in_running_stage s -> ~ delivers_jump s a ->
  pairwise_legal s (step_trace orc s a) /\
  (forall l w l' w' i st st', legal l w l' w' -> nth_error l i = Some st -> nth_error l' i = Some st' ->
     s_status st <> NOT_STARTED -> s_status st <> BUFFERED -> s_status st' <> NOT_STARTED).
Proof.
  intros orc s a Inv Hj. split; [apply commit_legal; assumption|].
  intros l w l' w' i st st' [Hs _] Hn Hn' H1 H2 H3.
  assert (stage_legal st st') as [Hc _].
  { clear - Hs Hn Hn'. revert i Hn Hn'. induction Hs; intros [|i] Hn Hn'; simpl in *; try discriminate.
    - inversion Hn; inversion Hn'; subst. assumption.
    - eapply IHHs; eassumption. }
  rewrite H3 in Hc. apply into_not_started in Hc. tauto.
Qed.

Theorem C02_completed_survives : forall orc s a,
  running_task_in_running_stage s -> ~ delivers_jump s a -> completed_kept s (step orc s a).
Proof. exact completed_survives_step. Qed.

Theorem C02_no_reexec : forall orc s a i t st tk,
  get_stage s i = Some st -> nth_error (s_tasks st) t = Some tk -> t_status tk <> RUNNING ->
  g_execs (step orc s a) = g_execs s \/ exists p, g_execs (step orc s a) = p :: g_execs s /\ p <> (i, t).
Proof. exact recorded_result_not_reexecuted. Qed.

(* whole runs, no premise on the state: for tasks that never suspend and never jump, every completed workflow / stage /
   task status survives EVERY run (deliveries in any order, redeliveries, crash cuts, sweeps, cancels, signals,
   unpauses) from any state without pending re-arm messages - in particular from the initial state. `_partial`:
   suspending / jumping tasks and operator restarts are covered per step only (C02_completed_survives). *)
Theorem C02_completed_survives_run_partial : forall orc acts s,
  never_suspends orc -> never_jumps orc -> forallb plain acts = true -> no_rearm_msgs s ->
  completed_kept s (run orc s acts).
Proof. intros orc acts s. apply completed_survives_run_plain. Qed.

(* once a message's handling has committed (its id carries a processed mark) it stays processed in EVERY continuation
   of the run, and any later delivery of that row - whatever happened in between - changes no stage, status, flag,
   claim, mark or ledger entry *)
Theorem C02_processed_forever : forall orc s id acts do_ack r,
  mem_nat id (w_processed s) = true ->
  let s1 := run orc s acts in
  mem_nat id (w_processed s1) = true /\
  (find_row s1 id = Some r -> (q_attempts r < queue_max_attempts)%Z ->
   let s' := step orc s1 (Deliver id do_ack) in
   w_stages s' = w_stages s1 /\ w_status s' = w_status s1 /\ w_canceled s' = w_canceled s1 /\ g_execs s' = g_execs s1
   /\ w_processed s' = w_processed s1 /\ w_next s' = w_next s1 /\ w_claims s' = w_claims s1).
Proof.
  intros orc s id acts do_ack r H s1.
  assert (mem_nat id (w_processed s1) = true) as H1 by (apply processed_run_mono; exact H).
  split; [exact H1|]. intros Hr Ha. apply processed_delivery_frame with r; assumption.
Qed.

(* An invariant of EVERY run - any workflow, any task behaviour, any list of deliveries in any order, redeliveries,
   crash cuts, sweeps, cancels, signals, pauses, restarts - proved by induction over the action list with no premise:
   queue row ids are unique and below the allocator, and so is every processed mark. *)
Theorem C02_ids_invariant : forall orc stages wmax acts, ids_ok (run orc (init_state stages wmax) acts).
Proof. intros. apply ids_run, ids_init. Qed.

(* Hence, in every reachable state, a message pushed now is never born "already processed" and never shares its id
   with a row in the queue: the durable duplicate check (C02_dup_noop) can only ever suppress a redelivery of a row
   whose own handling committed. *)
Theorem C02_fresh_message_not_deduplicated : forall orc stages wmax acts m,
  let s := run orc (init_state stages wmax) acts in
  let s' := push m s in
  exists r, In r (w_queue s') /\ q_id r = w_next s /\ q_msg r = m /\ mem_nat (q_id r) (w_processed s') = false
            /\ forall r', In r' (w_queue s) -> q_id r' <> q_id r.
Proof. intros. apply fresh_row_unmarked. apply C02_ids_invariant. Qed.

(* non-vacuity: redeliver the already-processed StartWorkflow row (left un-acked) late in a run *)
Example C02_witness :
  let s1 := run ok_oracle ex_chain [Submit; Deliver 1 false; Deliver 2 true; Deliver 3 true] in
  mem_nat 1 (w_processed s1) = true /\
  statuses (step ok_oracle s1 (Deliver 1 true)) = statuses s1 /\
  statuses (drain ok_oracle 60 s1) = (SUCCEEDED, [SUCCEEDED; SUCCEEDED]).
Proof. vm_compute. repeat split. Qed.

Print Assumptions C02_dup_noop.
Print Assumptions C02_no_rearm_without_jump.
Print Assumptions C02_completed_survives.
Print Assumptions C02_no_reexec.
Print Assumptions C02_completed_survives_run_partial.
Print Assumptions C02_processed_forever.
Print Assumptions C02_ids_invariant.
Print Assumptions C02_fresh_message_not_deduplicated.
