(* C03 — A stage never runs before its dependencies allow it.
   PROVED
     C03_ready_iff            evaluate_readiness (no jump bypass) says READY exactly when the join condition of the
                              stage's join type holds over the upstream statuses (AND / OR / MULTI_MERGE /
                              DISCRIMINATOR / N_OF_M), for upstream lists of any length
     C03_halted_upstream      AND join: with a halted upstream the verdict is never READY
     C03_start_guard          engine: in ANY StartStage handling (any state, so any schedule / duplicate / early or
                              late message), a stage write that takes the stage from NOT_STARTED to RUNNING occurs
                              only when the stage carries the jump-bypass flag or its join condition holds over the
                              upstream statuses read by that handling
     C03_start_stage_only     every stage write of a StartStage handling targets that stage and leaves its status
                              unchanged, makes it TERMINAL (wait budget exhausted) or is the start above
     C03_tasks_run_in_running (with the invariant RUNNING task => RUNNING stage, see C06) RunTask executes a task
                              only if the task is RUNNING (guard regenerated from run_task/handler.py)
   C03_child_never_started_before_parent  a StartStage handling writes a stage of a synthetic child only when the
                              child's parent is not NOT_STARTED in the state it read
   C03_task_never_started_before_before_stages  StartTask writes a stage only when every before stage of it is complete
   C03_no_execution_in_not_started_stage  whole-run invariant (EngineNS): no task executes in a NOT_STARTED stage, ever
   OPEN: that no OTHER handler moves a NOT_STARTED stage to RUNNING is part of C06_commit_legal's case analysis
         (Signal: from SUSPENDED; suspend-with-buffered-signal: from RUNNING) but is not restated here. *)
From Coq Require Import List Bool Arith ZArith.
Import ListNotations.
From Stab.model Require Import Base StatusM Readiness StageStat Engine.
From Stab.proofs Require Import ReadinessP StartGuardP EngineP EngineEx SynP EngineNS.

Theorem C03_ready_iff : forall st ups,
  rr_phase (evaluate_readiness st ups false) = P_READY <-> join_condition st ups.
Proof. intros st ups. split; [apply evaluate_readiness_ready_sound|apply evaluate_readiness_ready_complete]. Qed.

Theorem C03_halted_upstream : forall ups u,
  In u ups -> in_halt (snd u) = true -> rr_phase (eval_and ups) <> P_READY.
Proof. exact and_join_halted_never_ready. Qed.

Theorem C03_start_guard : forall s id i k st j st',
  get_stage s i = Some st ->
  In (j, st') (puts (h_commits (handle_start_stage s id i k))) ->
  s_status st' = RUNNING -> s_status st = NOT_STARTED ->
  s_bypass st = true \/ join_condition (rstage_of st) (upstream s st).
Proof. exact start_stage_guard. Qed.

Theorem C03_start_stage_only : forall s id i k st,
  get_stage s i = Some st ->
  forall j st', In (j, st') (puts (h_commits (handle_start_stage s id i k))) ->
    j = i /\ (s_status st' = s_status st \/ s_status st' = TERMINAL \/
              (s_status st' = RUNNING /\ s_status st = NOT_STARTED /\
               rr_phase (evaluate_readiness (rstage_of st) (upstream s st) (s_bypass st)) = P_READY)).
Proof. exact start_stage_writes. Qed.

Theorem C03_tasks_run_in_running : forall orc s id i t a p,
  h_pre (handle_run_task orc s id i t a) = Some p ->
  exists st tk, get_stage s i = Some st /\ nth_error (s_tasks st) t = Some tk /\ Gen_Guards.run_task_guard (t_status tk) = true.
Proof.
  intros orc s id i t a p H. apply pre_run_task in H. destruct H as [_ [_ [st [tk [H1 [H2 [H3 _]]]]]]]. eauto.
Qed.

(* synthetic stages: a parent's first task is started by ContinueParentStage only in the BEFORE phase and only when
   every before stage ended in a continuable status; StartStage handling starts it directly only when the stage has
   no initial before stage (persisted, or planned in that very commit) *)
Theorem C03_parent_tasks_after_before_stages : forall s id i o k t c,
  In c (h_commits (handle_continue_parent s id i o k)) -> In (OPush (MStartTask i t)) c ->
  o = OwnBefore /\ t = 0 /\ forallb in_continuable (map (status_at s) (kids s i OwnBefore)) = true
  /\ existsb in_halt (map (status_at s) (kids s i OwnBefore)) = false.
Proof. exact continue_parent_start_task. Qed.

Theorem C03_start_stage_before_stages_first : forall s i st t,
  In (MStartTask i t) (first_msgs s i st) ->
  filter (initial_at s) (kids s i OwnBefore) = [] /\ new_initial (length (w_stages s)) (new_before s i st) = [].
Proof. exact first_msgs_start_task. Qed.

(* a synthetic stage is never started ahead of its parent: a StartStage handling that finds the parent NOT_STARTED
   (re-armed by a jump after the message was queued, or a recovery duplicate) writes no stage at all (repo c3e26e6) *)
Theorem C03_child_never_started_before_parent : forall s id i k st p ps j st',
  get_stage s i = Some st -> y_parent (s_syn st) = Some p -> get_stage s p = Some ps ->
  In (j, st') (puts (h_commits (handle_start_stage s id i k))) ->
  s_status ps <> NOT_STARTED.
Proof. exact start_stage_child_started_under_started_parent. Qed.

(* ... nor a parent's task ahead of its before stages: StartTask writes a stage only when every before stage of that stage
   is complete in the state it read (a duplicate StartTask left over from the previous loop iteration is ignored) *)
Theorem C03_task_never_started_before_before_stages : forall s id i t j st' b,
  In (j, st') (puts (h_commits (handle_start_task s id i t))) ->
  In b (kids s i OwnBefore) -> is_complete (status_at s b) = true.
Proof. exact start_task_after_before_stages. Qed.

(* An invariant of EVERY run (any workflow submitted with all tasks NOT_STARTED; any delivery order, redeliveries, crash
   cuts, sweeps, cancels, signals, pauses, jumps and operator restarts), by induction over the action list: a stage that
   is NOT_STARTED has only NOT_STARTED tasks.  It holds only since StartTask refuses a NOT_STARTED stage (c9af2a4). *)
Theorem C03_not_started_stage_has_no_started_task : forall orc stages wmax acts,
  Forall (fun st => Forall (fun tk => t_status tk = NOT_STARTED) (s_tasks st)) stages ->
  ns_ok (run orc (init_state stages wmax) acts).
Proof. intros. apply ns_run, ns_init. assumption. Qed.

(* Hence no task is ever executed in a stage that has not started: in every reachable state, when RunTask executes a
   task its stage has left NOT_STARTED - which (C03_start_guard) happens only under the stage's join condition or an
   explicit jump.  This closes the chain "a stage never runs before its dependencies allow it" for ALL handlers. *)
Theorem C03_no_execution_in_not_started_stage : forall orc stages wmax acts id i t a p,
  Forall (fun st => Forall (fun tk => t_status tk = NOT_STARTED) (s_tasks st)) stages ->
  let s := run orc (init_state stages wmax) acts in
  h_pre (handle_run_task orc s id i t a) = Some p ->
  exists st, get_stage s i = Some st /\ s_status st <> NOT_STARTED.
Proof.
  intros orc stages wmax acts id i t a p Hi s H.
  apply pre_run_task in H. destruct H as [_ [_ [st [tk [H1 [H2 [H3 _]]]]]]].
  exists st. split; [exact H1|].
  apply (started_task_in_started_stage s i st t tk); [apply C03_not_started_stage_has_no_started_task; exact Hi|exact H1|exact H2|].
  unfold Gen_Guards.run_task_guard in H3. intros E. rewrite E in H3. discriminate.
Qed.

(* non-vacuity: a diamond-free chain: B is NOT READY while A runs, READY once A succeeded *)
Example C03_witness :
  rr_phase (evaluate_readiness (rstage_of (ex_stage [0] 1)) [(0, RUNNING)] false) = P_NOT_READY /\
  rr_phase (evaluate_readiness (rstage_of (ex_stage [0] 1)) [(0, SUCCEEDED)] false) = P_READY /\
  rr_phase (evaluate_readiness (rstage_of (ex_stage [0] 1)) [(0, TERMINAL)] false) = P_SKIP /\
  statuses (drain ok_oracle 60 (step ok_oracle ex_chain Submit)) = (SUCCEEDED, [SUCCEEDED; SUCCEEDED]).
Proof. vm_compute. repeat split. Qed.

Print Assumptions C03_ready_iff.
Print Assumptions C03_halted_upstream.
Print Assumptions C03_start_guard.
Print Assumptions C03_start_stage_only.
Print Assumptions C03_tasks_run_in_running.
Print Assumptions C03_parent_tasks_after_before_stages.
Print Assumptions C03_start_stage_before_stages_first.
Print Assumptions C03_child_never_started_before_parent.
Print Assumptions C03_task_never_started_before_before_stages.
Print Assumptions C03_not_started_stage_has_no_started_task.
Print Assumptions C03_no_execution_in_not_started_stage.
