(* C04 — a stage starts exactly once even when workers race.

   Model: coq/model/Conc.v (statement-level interleavings of StartStage / CompleteStage / SignalStage handlers and the
   claims sweep over the durable state of coq/model/Engine.v); lemmas: coq/proofs/ConcP.v.  Every theorem quantifies
   over ANY list of workers `ks` (any number, any mix, any stages) and ANY schedule `sched` (a list of worker
   indices): induction over the schedule with an invariant, no enumeration.  `spawn` puts a worker at the first
   statement of its handler; `starts i s` counts the NOT_STARTED -> RUNNING claim commits of stage i in the ghost
   ledger g_starts. *)
From Coq Require Import List Bool Arith ZArith Lia.
Import ListNotations.
From Stab.model Require Import Base StatusM Readiness StageStat Conc.
From Stab.gen Require Import Gen_Config Gen_Guards Gen_Occ Gen_Conc.
From Stab.proofs Require Import ConcP.

(* the shape of the source the model depends on (regenerated from handler.py & co. on every check) *)
Theorem C04_source_shape :
  conc_shape_ok = true /\ claim_uses_expected_phase = true /\ claim_phase_fresh = NOT_STARTED /\ claim_phase_zombie = RUNNING /\
  mutex_requeue_increment = 1%Z /\
  join_tracking_max_tries = 5%Z /\ join_tracking_rereads = true /\
  (* the CAS shapes of store_stage (Gen_Occ, from transaction.py / stage_ops.py): version always, status with expected_phase *)
  txn_phase_where_version && txn_phase_where_status && txn_phase_where_id && txn_nophase_where_version && txn_nophase_where_id &&
  plain_phase_where_version && plain_phase_where_status && plain_nophase_where_version && txn_rowcount_check && plain_rowcount_check &&
  txn_ctx_rollback && negb plain_rollback_on_error = true.
Proof.
  exact (conj eq_refl (conj eq_refl (conj eq_refl (conj eq_refl (conj eq_refl (conj eq_refl (conj eq_refl eq_refl))))))).
Qed.

(* OCC: whatever the interleaving, a stage object held by a worker is never newer than the row, and when it has the
   row's version it IS the row - so a store that passes its version CAS modifies the current row (no lost update) *)
Theorem C04_snapshots_fresh : forall s ks sched, FreshAll (run_conc sched (s, map spawn ks)).
Proof. exact (fun s ks sched => fresh_run sched _ (fresh_spawn s ks)). Qed.

(* at most one claim transaction ever moves stage i NOT_STARTED -> RUNNING, and none if it had left NOT_STARTED *)
Theorem C04_one_claim :
  forall s ks sched i, starts i (fst (run_conc sched (s, map spawn ks))) <= starts i s + b2n (not_started s i).
Proof. exact one_claim. Qed.

(* after a successful claim of stage i, the claim of any other worker holding an (older or equal) snapshot of i fails:
   the version CAS, or the expected phase *)
Theorem C04_claim_cas_exclusive :
  forall s w k i cl obj fr p id' retry' o,
    Fresh s w -> step_worker s w = Some (k, EClaim i cl obj fr, p) -> fresh_obj s (i, o) ->
    fst (claim_step (apply_effect s (EClaim i cl obj fr)) id' i retry' o) = ENone.
Proof. exact claim_excludes_others. Qed.

(* a claim on a stale snapshot (row version differs) or on a row that left the expected phase commits nothing *)
Theorem C04_loser_writes_nothing :
  forall s id i retry st row,
    get_stage s i = Some row ->
    (s_version st <> s_version row \/
     s_status row <> (if status_eqb (s_status (eff st)) claim_phase_zombie then claim_phase_zombie else claim_phase_fresh)) ->
    fst (claim_step s id i retry st) = ENone.
Proof. exact stale_claim_fails. Qed.

(* ... and all the loser does afterwards: push its own re-queue StartStage(retry + 1) (mutex), mark + push its own
   CancelStage (deferred choice), or nothing (ConcurrencyError swallowed) - then the post-handler processed mark.
   No stage, task or claim write, no StartTask. *)
Theorem C04_loser_only_requeues_or_cancels :
  (forall s id i retry st p, claim_step s id i retry st = (ENone, p) ->
      p = requeue_pc i retry \/ p = cancel_self_pc id i \/ p = PMark \/ p = PUnmodelled) /\
  (forall id i retry,
      quiet_pc (requeue_pc i retry) /\ quiet_pc (cancel_self_pc id i) /\
      pc_pushes (requeue_pc i retry) = [MStartStage i (retry + mutex_requeue_increment)] /\
      pc_pushes (cancel_self_pc id i) = [MCancelStage i] /\ pc_pushes PMark = []) /\
  (forall s w k e p, quiet_pc (w_pc w) -> step_worker s w = Some (k, e, p) ->
      quiet_pc p /\ exists qs, e = EQ qs /\ qs_pushes qs ++ pc_pushes p = pc_pushes (w_pc w)) /\
  (forall s qs, w_stages (apply_effect s (EQ qs)) = w_stages s /\ w_claims (apply_effect s (EQ qs)) = w_claims s /\
                g_starts (apply_effect s (EQ qs)) = g_starts s).
Proof. exact (conj failed_claim_pc (conj loser_pcs_quiet (conj quiet_step eq_effect_frame))). Qed.

(* exactly one StartTask per start: the StartTask rows pushed for stage i during any run are at most one per claim commit of the
   run (at most one, C04_one_claim) plus one if a plan commit was already outstanding when the run began *)
Theorem C04_one_start_task :
  forall s ks sched i,
    st_count i (fst (run_conc sched (s, map spawn ks))) <= st_count i s + b2n (pending_b s i) + b2n (not_started s i).
Proof. exact one_start_task. Qed.

(* ---- join tracking under a concurrent claim (first-of / quorum joins whose remaining branches finish later) ---- *)
(* what IS lost: the claim. A ConcurrencyError on a stage that is still NOT_STARTED means the row is newer than the claimant's
   snapshot (somebody stored it after the read); the handler swallows it. *)
Theorem C04_join_bump_claim_lost :
  forall s w id j retry st row,
    Fresh s w -> w_kind w = WStart id j retry -> w_pc w = SClaim st ->
    get_stage s j = Some row -> s_status row = NOT_STARTED -> s_status st = NOT_STARTED ->
    claim_step s id j retry st = (ENone, PMark) ->
    (forall k o, s_mutex st = Some k -> claim_lookup (w_claims s) true k = Some o -> o = j \/ owner_gone_or_complete s o = true) ->
    s_choice st = None ->
    (s_version st < s_version row)%Z.
Proof. exact conc_error_means_newer. Qed.

(* what is NOT lost: the start.  In the CompleteStage program the downstream StartStage is pushed AFTER the bump, in the final
   commit: one step of a CompleteStage worker that is past its first read either keeps it on the way to that commit (or raised:
   its message stays in the queue) or IS that commit and the StartStage(j) row is in the queue afterwards. *)
Theorem C04_join_bump_then_push :
  forall s w k e p id b j,
    w_kind w = WComplete id b -> wfw w -> Fresh s w -> region s id b (w_pc w) ->
    tokpc (w_pc w) = true -> (w_pc w = PRaised \/ exists x, cok s b x) -> In j (downstream s b) ->
    step_worker s w = Some (k, e, p) ->
    (tokpc p = true /\ (p = PRaised \/ exists x, cok (apply_effect s e) b x)) \/
    (exists r, In r (w_queue (apply_effect s e)) /\ q_msg r = MStartStage j 0 /\ w_next s <= q_id r).
Proof. exact tok_step. Qed.

(* the invariant: from ANY configuration c reached by StartStage / CompleteStage workers and sweeps (no SignalStage worker, at
   most one CompleteStage worker per stage), for ANY continuation: if the join stage j is still NOT_STARTED and its version is
   not the one it had in c (it was bumped: only join tracking can do that, see the proof), then a StartStage(j) pushed since c
   is in the queue - no worker of the run handles it - or a CompleteStage worker of an upstream of j is between its first read
   and its final commit, or raised and keeps its message.  With a SignalStage worker it fails: C04_nonclaimant_bump_refuted. *)
Theorem C04_join_bump_safe :
  forall ks j c sched,
    no_signal ks -> NoDup (flat_map complete_of ks) -> structural ks c ->
    let c' := run_conc sched c in
    bumped (fst c) (fst c') j -> tok_queue (fst c) (fst c') j \/ tok_worker c' j.
Proof. exact join_bump_safe. Qed.

(* every configuration reached from spawned workers is `structural` *)
Theorem C04_structural_reachable :
  forall s ks sched, no_signal ks -> NoDup (flat_map complete_of ks) -> structural ks (run_conc sched (s, map spawn ks)).
Proof. exact (fun s ks sched Hn Hd => structural_run ks sched Hn Hd _ (structural_spawn s ks)). Qed.

(* ---- what is NOT guaranteed: design finding F8 ---- *)
(* A non-claimant writer (a persistent SignalStage buffered while the stage is NOT_STARTED; same for any handler that
   stores the stage) bumps the version between the claimant's read and its claim: the claim loses its CAS, the handler
   swallows the ConcurrencyError as "duplicate claim", the message is acked - the stage stays NOT_STARTED and READY,
   and no StartStage for it is pending. *)
Definition f8_state : state :=
  mk_state RUNNING
    [mk_stage [] J_AND 0 None None SUCCEEDED true 6 false [] [] false [SUCCEEDED];
     mk_stage [0] J_AND 0 None None NOT_STARTED false 0 false [] [] false [NOT_STARTED]]
    [(7, MStartStage 1 0); (8, MSignalStage 1 0 true)] 9 [].
Definition f8_workers : list wkind := [WStart 7 1 0; WSignal 8 1 0].

Theorem C04_nonclaimant_bump_refuted :
  claim_conc_error_swallowed = true ->        (* handler.py: `except ConcurrencyError: ... return` after the claim *)
  exists s ks sched j,
    (* before: NOT_STARTED, READY, and a worker is about to handle its StartStage *)
    not_started s j = true /\ ready_now s j = true /\ In (WStart 7 j 0) ks /\
    lost_start (run_conc sched (s, map spawn ks)) j = true.
Proof.
  intros Hsw.
  first [ discriminate Hsw
        | exists f8_state, f8_workers, [0; 0; 1; 1; 0; 0; 1], 1;
          repeat split; try (vm_compute; reflexivity); left; reflexivity ].
Qed.

(* the same writer between the claim commit and the plan commit: the plan commit loses its CAS, is swallowed too
   ("shouldn't happen"), and the stage stays RUNNING with _plan_pending and no StartTask *)
Theorem C04_plan_lost_to_bump_refuted :
  plan_conc_error_swallowed = true ->         (* handler.py: `except ConcurrencyError: ... return` after the plan commit *)
  exists s ks sched j,
    not_started s j = true /\ ready_now s j = true /\ In (WStart 7 j 0) ks /\
    lost_plan (run_conc sched (s, map spawn ks)) j = true.
Proof.
  intros Hsw.
  first [ discriminate Hsw
        | exists f8_state, f8_workers, [0; 0; 0; 1; 1; 0; 0; 1], 1;
          repeat split; try (vm_compute; reflexivity); left; reflexivity ].
Qed.

(* both premises are `true` in coq/gen/Gen_Conc.v on the current tree (regenerated on every check and reported in the
   evidence); when a repair turns one of them false the corresponding finding is stale and its theorem vacuous *)

(* ---- non-vacuity ---- *)
(* two workers race for the join of a diamond: exactly one start, one StartTask *)
Definition dia_state : state :=
  mk_state RUNNING
    [mk_stage [] J_AND 0 None None SUCCEEDED true 6 false [] [] false [SUCCEEDED];
     mk_stage [0] J_AND 0 None None SUCCEEDED true 6 false [] [] false [SUCCEEDED];
     mk_stage [0] J_AND 0 None None SUCCEEDED true 6 false [] [] false [SUCCEEDED];
     mk_stage [1; 2] J_AND 0 None None NOT_STARTED false 0 false [] [] false [NOT_STARTED]]
    [(17, MStartStage 3 0); (18, MStartStage 3 0)] 19 [].
Example dia_one_start :
  let c := run_conc [0; 1; 0; 1; 1; 0; 1; 0; 1; 0] (dia_state, map spawn [WStart 17 3 0; WStart 18 3 0]) in
  starts 3 (fst c) = 1 /\ not_started dia_state 3 = true /\ all_done c = true /\
  map (fun r => msg_view (q_msg r)) (w_queue (fst c)) = [(3, 3, 0, 0%Z); (3, 3, 0, 0%Z); (7, 3, 0, 0%Z)].
Proof. vm_compute. repeat split. Qed.

(* first-of join: B complete (StartStage(J) #22 pending), C completing.  The claimant reads J, C's join tracking bumps J, the
   claim loses (swallowed), C's final commit pushes StartStage(J) #23: J is NOT_STARTED with a bumped version and #23 is pending *)
Definition fo_state : state :=
  mk_state RUNNING
    [mk_stage [] J_AND 0 None None SUCCEEDED true 6 false [] [] false [SUCCEEDED];
     mk_stage [0] J_AND 0 None None SUCCEEDED true 6 false [] [] false [SUCCEEDED];
     mk_stage [0] J_AND 0 None None RUNNING true 5 false [] [] false [SUCCEEDED];
     mk_stage [1; 2] J_DISCRIMINATOR 0 None None NOT_STARTED false 1 false [1] [] false [NOT_STARTED]]
    [(20, MCompleteStage 2); (22, MStartStage 3 0)] 23 [].
Definition fo_workers : list wkind := [WStart 22 3 0; WComplete 20 2].
Example fo_bump_covered :
  let c := run_conc [0; 0; 1; 1; 1; 1; 0; 1; 0; 1] (fo_state, map spawn fo_workers) in
  no_signal fo_workers /\ NoDup (flat_map complete_of fo_workers) /\
  not_started (fst c) 3 = true /\ version_of (fst c) 3 = 2%Z /\ version_of fo_state 3 = 1%Z /\ all_done c = true /\
  map (fun r => (q_id r, msg_view (q_msg r))) (w_queue (fst c)) = [(20, (4, 2, 0, 0%Z)); (22, (3, 3, 0, 0%Z)); (23, (3, 3, 0, 0%Z))] /\
  pending_start c 3 = true.
Proof.
  vm_compute. repeat split; auto.
  - intros id i n H. repeat (destruct H as [H|H]; [discriminate|]). exact H.
  - constructor; [intros []|constructor].
Qed.

Print Assumptions C04_source_shape.
Print Assumptions C04_one_start_task.
Print Assumptions C04_join_bump_claim_lost.
Print Assumptions C04_join_bump_then_push.
Print Assumptions C04_join_bump_safe.
Print Assumptions C04_structural_reachable.
Print Assumptions C04_snapshots_fresh.
Print Assumptions C04_one_claim.
Print Assumptions C04_claim_cas_exclusive.
Print Assumptions C04_loser_writes_nothing.
Print Assumptions C04_loser_only_requeues_or_cancels.
Print Assumptions C04_nonclaimant_bump_refuted.
Print Assumptions C04_plan_lost_to_bump_refuted.
