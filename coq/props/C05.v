(* C05 — When the engine goes quiet every workflow is finished or explicitly waiting.
   PROVED (pure decision functions, tied to the code by exhaustive differentials)
     C05_succeeded_sound_partial   a workflow finalised SUCCEEDED has every top-level stage continuable, OR it went
                                   through the STOPPED branch (a STOPPED stage, no TERMINAL/CANCELED, nothing incomplete)
     C05_succeeded_stopped_refuted the full-strength statement is FALSE of the faithful model (and of the code):
                                   witness = stages [SUCCEEDED; STOPPED; NOT_STARTED]; known finding
                                   "succeeded-with-stopped-stage"
     C05_failed_reported           a TERMINAL top-level stage => the workflow is finalised TERMINAL (never SUCCEEDED,
                                   CANCELED or re-queued)
     C05_canceled_reported         CANCELED stage and no TERMINAL one => CANCELED
     C05_final_is_complete         whatever is written as the final status is a completed status
     C05_stage_not_early           determine_status reports a continuable stage status only when every before-stage and
                                   task is done (or the stage continues on failure), and no after-stage is incomplete
     C05_engine_uses_it            the status CompleteWorkflow writes is exactly determine_final_status of the stages
   OPEN: C05_quiescent / C05_no_running_leftover (queue empty => finished or waiting) need the token invariant;
         decided by correspondence + monitors.  KNOWN FINDINGS: F10 (stuck:RUNNING[REDIRECT]). *)
From Coq Require Import List Bool Arith ZArith.
Import ListNotations.
From Stab.model Require Import Base StatusM Readiness StageStat Engine.
From Stab.gen Require Import Gen_Config.
From Stab.proofs Require Import StageStatP EngineEx SynP.

Theorem C05_succeeded_sound_partial : forall stages ov rc mx,
  determine_final_status stages ov rc mx = Final SUCCEEDED ->
  (forall s, In s stages -> in_continuable (fst s) = true)
  \/ (In STOPPED (map fst stages) /\ ~ In TERMINAL (map fst stages) /\ ~ In CANCELED (map fst stages)
      /\ other_branches_incomplete stages = false /\ ov = false).
Proof. exact final_succeeded_sound. Qed.

Theorem C05_succeeded_stopped_refuted :
  exists stages ov rc mx, determine_final_status stages ov rc mx = Final SUCCEEDED /\
                          exists s, In s stages /\ in_continuable (fst s) = false.
Proof.
  exists [(SUCCEEDED, true); (STOPPED, true); (NOT_STARTED, false)], false, 0%Z, 240%Z.
  split; [reflexivity|]. exists (STOPPED, true). split; [simpl; auto|reflexivity].
Qed.

Theorem C05_failed_reported : forall stages ov rc mx,
  In TERMINAL (map fst stages) -> determine_final_status stages ov rc mx = Final TERMINAL.
Proof. exact final_terminal_reported. Qed.

Theorem C05_canceled_reported : forall stages ov rc mx,
  In CANCELED (map fst stages) -> ~ In TERMINAL (map fst stages) ->
  determine_final_status stages ov rc mx = Final CANCELED.
Proof. exact final_canceled_reported. Qed.

Theorem C05_final_is_complete : forall stages ov rc mx s,
  determine_final_status stages ov rc mx = Final s -> is_complete s = true.
Proof. exact final_is_complete. Qed.

Theorem C05_stage_not_early : forall self cof fp before tasks after,
  in_continuable (determine_status self cof fp before tasks after) = true ->
  before ++ tasks <> [] ->
  (forallb core_done (before ++ tasks) = true \/ (cof = true /\ In TERMINAL (before ++ tasks))) /\
  (has TERMINAL (before ++ tasks) = false -> existsb incomplete after = false).
Proof.
  intros self cof fp before tasks after H Hne. split.
  - eapply determine_status_not_early; eassumption.
  - intros Ht. eapply determine_status_after_not_early; eassumption.
Qed.

Theorem C05_engine_uses_it : forall s id k x,
  In (OWf x) (concat (h_commits (handle_complete_workflow s id k))) ->
  determine_final_status (tl_view s) false k max_stage_wait_retries = Final x /\ is_complete (w_status s) = false.
Proof.
  intros s id k x. unfold handle_complete_workflow.
  destruct (is_complete (w_status s)); [intros []|].
  destruct (determine_final_status _ _ _ _) as [y|] eqn:E.
  - destruct (can_transition (w_status s) y); simpl; [|intros []].
    intros [H|H]; [inversion H; subst; auto|].
    destruct H as [H|H]; [discriminate|].
    rewrite app_nil_r in H. apply in_app_or in H. destruct H as [H|[]].
    unfold c_pushes in H. apply in_map_iff in H. destruct H as [m [H _]]. discriminate.
  - simpl. intros [H|[]]. discriminate.
Qed.

Example C05_witness :
  determine_final_status [(SUCCEEDED, true); (FAILED_CONTINUE, true); (SKIPPED, true)] false 0 240 = Final SUCCEEDED /\
  determine_final_status [(SUCCEEDED, true); (RUNNING, true)] false 0 240 = Requeue /\
  determine_final_status [(SUCCEEDED, true); (RUNNING, true)] false 240 240 = Final TERMINAL /\
  determine_status RUNNING false true [] [SUCCEEDED; RUNNING] [] = RUNNING /\
  determine_status RUNNING false true [] [SUCCEEDED; TERMINAL] [] = TERMINAL.
Proof. vm_compute. repeat split. Qed.

(* the engine stores a stage's status, in CompleteStage, only as determine_status says over the stage's tasks and the
   CURRENT durable statuses of its before / after stages (with the _blocking_failure conversion) - so, with
   C05_stage_not_early, a stage is never recorded as finished while a task or a synthetic stage of it is unfinished *)
Theorem C05_complete_stage_stores : forall s id i st c p,
  get_stage s i = Some st -> In c (h_commits (handle_complete_stage s id i)) -> In (OPut i p) c ->
  s_status p = s_status st \/
  s_status p = (let x := stage_status_of s i st in
                if status_eqb x FAILED_CONTINUE && y_blocking (s_syn st) then TERMINAL else x).
Proof. exact complete_stage_stores. Qed.

Print Assumptions C05_succeeded_sound_partial.
Print Assumptions C05_succeeded_stopped_refuted.
Print Assumptions C05_failed_reported.
Print Assumptions C05_canceled_reported.
Print Assumptions C05_final_is_complete.
Print Assumptions C05_stage_not_early.
Print Assumptions C05_engine_uses_it.
Print Assumptions C05_complete_stage_stores.
