(* C06 — Completed is final; every durable status change is a legal transition.
   Statements only; proofs live in coq/proofs.  Part A: the published table (regenerated from
   models/status.py).  Part B (engine commits) is in the second half, over model/Engine. *)
From Coq Require Import List Bool.
Import ListNotations.
From Stab.model Require Import Base StatusM Readiness StageStat Engine.
From Stab.model Require Import EngineInv.
From Stab.proofs Require Import StatusP EngineLegal EnginePush EngineInvP EngineEx.

(* A1. a completed status has no outgoing transition in the published table *)
Theorem C06_table_completed_no_exit : forall s, is_complete s = true -> valid_transitions s = [].
Proof. exact completed_no_exit. Qed.

(* A2. hence validate_transition accepts a change out of a completed status only if it is no change *)
Theorem C06_table_completed_final : forall a b, is_complete a = true -> can_transition a b = true -> a = b.
Proof. exact completed_final. Qed.

(* A3. the table is total (every status is a key, once) and idempotent writes are always legal *)
Theorem C06_table_total : (forall s, In s transition_table_domain) /\ NoDup transition_table_domain
                          /\ forall s, can_transition s s = true.
Proof. exact (conj table_domain_total (conj table_domain_nodup can_transition_refl)). Qed.

(* A4. re-arming (back to NOT_STARTED) is never a table transition of a started entity *)
Theorem C06_table_no_rearm : forall a, can_transition a NOT_STARTED = true -> a = NOT_STARTED \/ a = BUFFERED.
Proof. exact into_not_started. Qed.

(* non-vacuity: the premises are met by concrete statuses, and the table does allow real changes *)
Example C06_nonvacuous :
  is_complete SUCCEEDED = true /\ can_transition RUNNING SUCCEEDED = true /\ can_transition SUCCEEDED RUNNING = false
  /\ can_transition NOT_STARTED RUNNING = true.
Proof. repeat split. Qed.

(* ---- Part B: every durable status change of every handler, in every schedule and at every crash point ---- *)

(* B1. Every commit of every message delivery (complete, un-acked, or cut by a crash after any commit), of every
   recovery sweep and of every request is a LEGAL transition for the workflow, every stage and every task —
   except deliveries of JumpToStage (the explicit re-arm exception of the property).  Premise: the invariant
   "a RUNNING task lives in a RUNNING stage" in the pre-state (needed only for the unvalidated direct
   assignments of RunTask's suspend path). *)
Theorem C06_commit_legal : forall orc s a,
  running_task_in_running_stage s -> ~ delivers_jump s a -> pairwise_legal s (step_trace orc s a).
Proof. exact commit_legal. Qed.

(* B2. In a legal step a completed workflow / stage / task status does not change. *)
Theorem C06_completed_final : forall l w l' w',
  legal l w l' w' ->
  (is_complete w = true -> w' = w) /\
  (forall i st st', nth_error l i = Some st -> nth_error l' i = Some st' ->
     (is_complete (s_status st) = true -> s_status st' = s_status st) /\
     (forall t tk tk', nth_error (s_tasks st) t = Some tk -> nth_error (s_tasks st') t = Some tk' ->
        is_complete (t_status tk) = true -> t_status tk' = t_status tk)).
Proof. exact legal_completed_final. Qed.

(* B2'. Rows may be ADDED by a legal step (synthetic stages; the tasks a builder creates at plan time): an added stage
   row is NOT_STARTED with every task NOT_STARTED - a row never appears in a started or completed status. *)
Theorem C06_added_rows_fresh : forall l w l' w' i st',
  legal l w l' w' -> nth_error l i = None -> nth_error l' i = Some st' ->
  s_status st' = NOT_STARTED /\ Forall (fun tk => t_status tk = NOT_STARTED) (s_tasks st').
Proof. exact legal_added_fresh. Qed.

(* B3. Whole runs, NO premise on the state: for tasks that never suspend and never jump, every commit of every run
   from any state without pending re-arm messages (in particular from the initial state of any workflow) — any
   list of deliveries in any order, redeliveries, crashes after any commit, recovery sweeps, cancels, signals,
   unpauses — is a legal status transition.  `_partial`: suspending / jumping tasks, store.pause and operator
   restarts are outside this fragment (B1 covers them under its invariant premise / exempts the re-arms). *)
Theorem C06_run_legal_partial : forall orc acts s,
  never_suspends orc -> never_jumps orc -> forallb plain acts = true -> no_rearm_msgs s -> run_legal orc s acts.
Proof. intros orc acts s. apply run_legal_plain. Qed.

(* and for tasks that never suspend B1 needs no invariant at all *)
Theorem C06_commit_legal_nosuspend : forall orc s a,
  never_suspends orc -> ~ delivers_jump s a -> pairwise_legal s (step_trace orc s a).
Proof. exact commit_legal_nosuspend. Qed.

(* OPEN: the invariant premise of B1 is proved inductive only as a tested candidate (model/EngineInv.v:
   i_running_task holds on every state visited by the correspondence runs); its inductive proof is future work. *)

(* non-vacuity of B1: a full run of the chain workflow is legal step by step, and it does change statuses *)
Example C06_run_witness :
  never_suspends ok_oracle /\ never_jumps ok_oracle /\ no_rearm_msgs ex_chain /\
  forallb plain [Submit; Deliver 1 true; Deliver 2 false; DeliverCut 2 2; Recover; Cancel] = true.
Proof. repeat split; try discriminate. intros r []. Qed.

Example C06_engine_witness :
  let s0 := step ok_oracle ex_chain Submit in
  running_task_in_running_stage s0 /\ ~ delivers_jump s0 (Deliver 1 true) /\
  statuses (drain ok_oracle 60 s0) = (SUCCEEDED, [SUCCEEDED; SUCCEEDED]).
Proof.
  split; [|split].
  - apply i_running_task_sound. vm_compute. reflexivity.
  - simpl. intros [r [H1 H2]]. vm_compute in H1. inversion H1; subst. discriminate.
  - vm_compute. reflexivity.
Qed.

Print Assumptions C06_commit_legal.
Print Assumptions C06_run_legal_partial.
Print Assumptions C06_commit_legal_nosuspend.
Print Assumptions C06_completed_final.
Print Assumptions C06_added_rows_fresh.
Print Assumptions C06_table_completed_no_exit.
Print Assumptions C06_table_completed_final.
Print Assumptions C06_table_total.
Print Assumptions C06_table_no_rearm.
