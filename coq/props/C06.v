(* C06 — Completed is final; every durable status change is a legal transition.
   Statements only; proofs live in coq/proofs.  Part A: the published table (regenerated from
   models/status.py).  Part B (engine commits) is in the second half, over model/Engine. *)
From Coq Require Import List Bool.
Import ListNotations.
From Stab.model Require Import Base StatusM.
From Stab.proofs Require Import StatusP.

(* A1. a completed status has no outgoing transition in the published table *)
Theorem C06_table_completed_no_exit : forall s, is_complete s = true -> valid_transitions s = [].
Proof. exact completed_no_exit. Qed.

(* A2. hence validate_transition accepts a change out of a completed status only if it is no change *)
Theorem C06_table_completed_final : forall a b, is_complete a = true -> can_transition a b = true -> a = b.
Proof. exact completed_final. Qed.

(* A3. the table is total (every status is a key, once) and idempotent writes are always legal *)
Theorem C06_table_total : (forall s, In s transition_table_domain) /\ NoDup transition_table_domain
                          /\ forall s, can_transition s s = true.
Proof. exact (conj table_domain_total (conj table_domain_nodup can_transition_refl)). Qed.

(* A4. re-arming (back to NOT_STARTED) is never a table transition of a started entity *)
Theorem C06_table_no_rearm : forall a, can_transition a NOT_STARTED = true -> a = NOT_STARTED \/ a = BUFFERED.
Proof. exact into_not_started. Qed.

(* non-vacuity: the premises are met by concrete statuses, and the table does allow real changes *)
Example C06_nonvacuous :
  is_complete SUCCEEDED = true /\ can_transition RUNNING SUCCEEDED = true /\ can_transition SUCCEEDED RUNNING = false
  /\ can_transition NOT_STARTED RUNNING = true.
Proof. repeat split. Qed.

Print Assumptions C06_table_completed_no_exit.
Print Assumptions C06_table_completed_final.
Print Assumptions C06_table_total.
Print Assumptions C06_table_no_rearm.
