(* C07 — concurrent writers never silently overwrite each other.
   Statements only (proofs: coq/proofs/OccP.v, OccRunP.v; model: coq/model/Occ.v).  Everything is about
   [gen_shapes]: the WHERE/SET shape of the four UPDATE stage_executions statements, of upsert_task, the
   rowcount tests and the commit/rollback placement as regenerated from the source into coq/gen/Gen_Occ.v.
   [good gen_shapes = true] is re-checked by computation: dropping `AND version = :version`, `version = version + 1`,
   a rowcount test, the IntegrityError conversion, a commit or the rollback makes it false and every theorem below
   stops checking.

   Part A: the compare-and-swap itself (any database with unique ids, any snapshots).
   Part B: n workers, any programs, ANY schedule (induction over the schedule): linearizability, one success per
           version, retries on fresh data, monotone versions, bounded retry with the exhausted outcome explicit.
   Part C: what is NOT guaranteed, with witnesses. *)
From Coq Require Import List Bool ZArith Lia.
Import ListNotations.
From Stab.model Require Import Occ.
From Stab.proofs Require Import OccP OccRunP OccGenP.
Local Open Scope Z_scope.

(* [gen_good : good gen_shapes = true] and [store_variant v := store_shape_of gen_shapes v] are in proofs/OccGenP.v *)

(* ======================================================================================== Part A *)

(* A1. of two saves computed from the same version of a row (by either store_stage copy, with or without
   expected_phase), once the first has succeeded the second fails with ConcurrencyError and changes nothing *)
Theorem C07_cas_exclusive : forall v1 v2 d n1 n2 ph1 ph2 r d1 n1',
  NoDup (map s_id (d_stages d)) ->
  find_stage (n_id n1) (d_stages d) = Some r -> n_id n2 = n_id n1 -> n_ver n2 = n_ver n1 ->
  store_stmts (store_variant v1) (x_task gen_shapes) d n1 ph1 = (d1, n1', Ok) ->
  store_stmts (store_variant v2) (x_task gen_shapes) d1 n2 ph2 = (d1, n2, ConcErr).
Proof.
  exact (fun v1 v2 d n1 n2 ph1 ph2 r d1 n1' =>
    cas_exclusive (store_variant v1) (store_variant v2) (x_task gen_shapes) d n1 n2 ph1 ph2 r d1 n1'
      (gen_good_store v1) (gen_good_store v2)).
Qed.

(* A2. a save whose snapshot version (or expected phase) does not match the row raises ConcurrencyError and
   leaves the database — stage row AND task rows — exactly as it was; in-memory versions are not advanced *)
Theorem C07_failed_write_changes_nothing : forall v d n ph r,
  NoDup (map s_id (d_stages d)) -> find_stage (n_id n) (d_stages d) = Some r ->
  (s_ver r =? n_ver n) && phase_ok ph r = false ->
  store_stmts (store_variant v) (x_task gen_shapes) d n ph = (d, n, ConcErr).
Proof.
  exact (fun v d n ph r => store_conflict (store_variant v) (x_task gen_shapes) d n ph r (gen_good_store v)).
Qed.

(* A3. a save that succeeds was computed from the current version (and the row was in the expected phase); it
   advances the version by exactly one and writes the snapshot's status and payload *)
Theorem C07_phase_guard : forall v d n ph r d' n',
  NoDup (map s_id (d_stages d)) -> find_stage (n_id n) (d_stages d) = Some r ->
  store_stmts (store_variant v) (x_task gen_shapes) d n ph = (d', n', Ok) ->
  s_ver r = n_ver n /\ phase_ok ph r = true
  /\ find_stage (n_id n) (d_stages d') = Some (mk_srow (n_id n) (s_ver r + 1) (n_status n) (n_pay n))
  /\ NoDup (map s_id (d_stages d')).
Proof.
  exact (fun v d n ph r d' n' => store_ok_inv (store_variant v) (x_task gen_shapes) d n ph r d' n' (gen_good_store v)).
Qed.

(* A4. whatever the outcome, rows of other stages are untouched (the id conjunct) *)
Theorem C07_frame : forall v d n ph sid',
  existsb (fun r => s_id r =? n_id n) (d_stages d) = true -> sid' <> n_id n ->
  find_stage sid' (d_stages (fst (fst (store_stmts (store_variant v) (x_task gen_shapes) d n ph)))) = find_stage sid' (d_stages d).
Proof.
  exact (fun v d n ph sid' => store_frame (store_variant v) (x_task gen_shapes) d n ph sid' (gen_good_store v)).
Qed.

(* A5. tasks: a task row is written only at the version it was read at; a task whose row is at another version
   stops the save with ConcurrencyError (IntegrityError converted) *)
Theorem C07_task_cas : forall sid l t ts,
  NoDup (map t_id l) ->
  (has_row l t -> exists t', upsert_task (x_task gen_shapes) sid l t = (map (upd_row (x_task gen_shapes) [t]) l, t', Ok))
  /\ (In (ts_id t) (map t_id l) -> ~ has_row l t ->
        upsert_all (x_task gen_shapes) sid l (t :: ts) = (l, t :: ts, ConcErr)).
Proof. exact (fun sid l t ts => task_cas gen_shapes sid l t ts gen_good). Qed.

(* ======================================================================================== Part B *)
(* [reachable gen_shapes sid progs d0 g]: g is the state after SOME schedule (any list of (worker, event) pairs,
   any length) of the workers [progs] (any number, any variant / phase mode / modification / retry budget) started
   on database d0; all of them work on stage [sid].  [good_start]: stage ids and task ids are unique, the stage exists,
   new task ids are not used by other stages' tasks, no worker uses a corrupted (poisoned) snapshot — i.e. snapshots come
   from retrieve_stage and modifications keep ids and versions, which is all the engine ever does. *)

(* B1. linearizable, no lost update: the committed view of the stage (status, payload, task statuses) equals the
   modifications of the commit log applied in commit order to the initial view; the version counts the commits;
   a worker is in the log exactly as often as it reported success (at most once); other stages are untouched *)
Theorem C07_linearizable : forall sid progs d0 g, good_start sid progs d0 -> reachable gen_shapes sid progs d0 g ->
  exists v0 r0 cur,
    view_of_db sid d0 = Some v0 /\ find_stage sid (d_stages d0) = Some r0
    /\ view_of_db sid (g_db g) = Some (replay_log progs (g_log g) v0)
    /\ find_stage sid (d_stages (g_db g)) = Some cur /\ s_ver cur = s_ver r0 + Z.of_nat (length (g_log g))
    /\ (forall i w, nth_error (g_ws g) i = Some w ->
          length (filter (by_worker i) (g_log g)) = length (filter is_ok (w_results w))
          /\ (length (filter is_ok (w_results w)) <= 1)%nat)
    /\ (forall e, In e (g_log g) -> (fst e < length progs)%nat)
    /\ (forall sid', sid' <> sid -> find_stage sid' (d_stages (g_db g)) = find_stage sid' (d_stages d0))
    /\ others sid (d_tasks (g_db g)) = others sid (d_tasks d0).
Proof. exact (fun sid progs d0 g Hs => run_linearizable gen_shapes gen_good sid progs d0 Hs g). Qed.

(* B2. at most one save based on a given version succeeds — across all workers and all their attempts *)
Theorem C07_one_success_per_version : forall sid progs d0 g i j wi wj a b v,
  good_start sid progs d0 -> reachable gen_shapes sid progs d0 g ->
  nth_error (g_ws g) i = Some wi -> nth_error (g_ws g) j = Some wj ->
  nth_error (w_results wi) a = Some Ok -> nth_error (w_bases wi) a = Some v ->
  nth_error (w_results wj) b = Some Ok -> nth_error (w_bases wj) b = Some v ->
  i = j /\ a = b.
Proof. exact (fun sid progs d0 g i j wi wj a b v Hs => run_one_success_per_version gen_shapes gen_good sid progs d0 Hs g i j wi wj a b v). Qed.

(* B3. a failed save is invisible: an open write transaction is either the one of a worker about to COMMIT a
   successful save, or EMPTY (a failed plain store_stage does not roll back, but nothing is pending in it); and
   the thread's next committing operation (E) therefore never changes the committed database *)
Theorem C07_open_txn_is_empty : forall sid progs d0 g, good_start sid progs d0 -> reachable gen_shapes sid progs d0 g ->
  (forall j d, g_lock g = Some (j, d) -> (exists w, nth_error (g_ws g) j = Some w /\ w_pc w = AtC) \/ d = g_db g)
  /\ (forall i, g_db (step gen_shapes sid progs g (i, AtE)) = g_db g).
Proof. exact (fun sid progs d0 g => open_txn_is_empty gen_shapes sid progs d0 g gen_good). Qed.

(* B4. retry on fresh data: every attempt starts by reading the COMMITTED row (S), a failed attempt forgets its
   snapshot, and a worker about to write holds a snapshot which, if the row is still at its version, IS the
   committed state of the stage and of its tasks (torn reads — tasks newer than the stage row — only ever make
   the save fail) *)
Theorem C07_retry_fresh : forall sid progs d0 g i w, good_start sid progs d0 -> reachable gen_shapes sid progs d0 g ->
  nth_error (g_ws g) i = Some w ->
  (w_pc w = AtS -> exists cur w', find_stage sid (d_stages (g_db g)) = Some cur
        /\ nth_error (g_ws (step gen_shapes sid progs g (i, AtS))) i = Some w' /\ w_hdr w' = Some cur /\ w_pc w' = AtT)
  /\ (w_pc w = AtU -> exists r n cur, w_hdr w = Some r /\ w_snap w = Some n /\ n = snap_of r (n_tasks n)
        /\ find_stage sid (d_stages (g_db g)) = Some cur /\ s_ver r <= s_ver cur
        /\ (s_ver r = s_ver cur -> n = snap_of cur (read_tasks sid (g_db g))))
  /\ (forall p r v, w_pc (after_failure p w r v) = AtS -> w_hdr (after_failure p w r v) = None /\ w_snap (after_failure p w r v) = None).
Proof. exact (fun sid progs d0 g i w => retry_fresh gen_shapes sid progs d0 g i w gen_good). Qed.

(* B5. the version strictly increases with every successful save and never otherwise: one step either leaves
   version and log alone or appends (worker, old version) to the log and adds exactly one *)
Theorem C07_versions_monotone : forall sid progs d0 g e, good_start sid progs d0 -> reachable gen_shapes sid progs d0 g ->
  exists c c', find_stage sid (d_stages (g_db g)) = Some c
    /\ find_stage sid (d_stages (g_db (step gen_shapes sid progs g e))) = Some c'
    /\ ((s_ver c' = s_ver c /\ g_log (step gen_shapes sid progs g e) = g_log g)
        \/ (s_ver c' = s_ver c + 1 /\ exists w, g_log (step gen_shapes sid progs g e) = g_log g ++ [(w, s_ver c)])).
Proof. exact (fun sid progs d0 g e Hs => run_versions_monotone gen_shapes gen_good sid progs d0 Hs g e). Qed.

(* B6. bounded retry, exhausted outcome explicit: a worker never starts more than p_tries attempts; while it is
   running all its finished attempts were ConcurrencyErrors; once finished, either its last attempt succeeded or
   ALL p_tries attempts failed with ConcurrencyError — that error is what the caller sees (message rescheduled) *)
Theorem C07_bounded_retry : forall sid progs d0 g i w p, good_start sid progs d0 -> reachable gen_shapes sid progs d0 g ->
  nth_error (g_ws g) i = Some w -> nth_error progs i = Some p ->
  (w_used w <= Nat.max 1 (p_tries p))%nat
  /\ (active (w_pc w) -> Forall (eq ConcErr) (w_results w) /\ S (length (w_results w)) = w_used w)
  /\ (finished (w_pc w) -> length (w_results w) = w_used w
        /\ exists pre last, w_results w = pre ++ [last] /\ Forall (eq ConcErr) pre
             /\ (last = Ok \/ (last = ConcErr /\ (p_tries p <= w_used w)%nat))).
Proof. exact (fun sid progs d0 g i w p Hs => run_bounded_retry gen_shapes gen_good sid progs d0 Hs g i w p). Qed.

(* the engine's budgets, from the source *)
Example C07_budgets : handler_tries = 4%nat /\ join_tracking_tries = 5%nat.
Proof. exact ex_budgets. Qed.

(* ======================================================================================== non-vacuity *)
(* ex_d0 / ex_progs / ex_sched (proofs/OccGenP.v): three writers on stage 1 (tasks 10, 11; a bystander stage 2).
   Both 0 and 1 read version 0; 0 commits; 1 conflicts, re-reads, commits; 2 expects phase 1 but the stage is in
   phase 2 by then: both its attempts fail and it gives up. *)
Example C07_nonvacuous :
  good_start 1 ex_progs ex_d0 /\ reachable gen_shapes 1 ex_progs ex_d0 ex_final
  /\ g_bad ex_final = false
  /\ map w_results (g_ws ex_final) = [[Ok]; [ConcErr; Ok]; [ConcErr; ConcErr]]
  /\ map w_bases (g_ws ex_final) = [[0]; [0; 1]; [2; 2]]
  /\ g_log ex_final = [(0%nat, 0); (1%nat, 1)]
  /\ view_of_db 1 (g_db ex_final) = Some (mk_view 2 [100; 200] [(10, 3); (11, 4); (12, 0)])
  /\ ver_of_db 1 (g_db ex_final) = Some 2
  /\ g_lock ex_final = None.
Proof. exact ex_run. Qed.

(* premises of Part A are met by a real conflict: two snapshots of version 0, first wins, second gets ConcErr *)
Example C07_cas_nonvacuous :
  let n1 := apply_mod (mk_mod None (Some 100) [] []) (snap_of (mk_srow 1 0 1 []) (read_tasks 1 ex_d0)) in
  let n2 := apply_mod (mk_mod None (Some 200) [] []) (snap_of (mk_srow 1 0 1 []) (read_tasks 1 ex_d0)) in
  exists d1 n1', store_stmts (store_variant Plain) (x_task gen_shapes) ex_d0 n1 None = (d1, n1', Ok)
    /\ store_stmts (store_variant Txn) (x_task gen_shapes) d1 n2 (Some 1) = (d1, n2, ConcErr)
    /\ ver_of_db 1 d1 = Some 1.
Proof. exact ex_cas. Qed.

(* ======================================================================================== Part C: NOT guaranteed *)

(* C1. store_stage by itself is not atomic on its failure path: with a snapshot whose stage version is current
   but whose task version is stale, the stage row is already updated inside the still-open transaction when the
   task conflict raises ConcurrencyError.  AtomicTransaction rolls this back; the plain store_stage does NOT
   (plain_rollback_on_error = false) — a later commit on that connection would publish it.  Such a snapshot can
   not arise through retrieve_stage (B3/B4: the stage row is read before the tasks and every task writer bumps
   the stage version), which is why C07_open_txn_is_empty holds; it is an invariant of the readers, not of
   store_stage. *)
Theorem C07_not_guaranteed_plain_store_is_not_atomic_on_failure :
  exists d n d' n', store_stmts (store_variant Plain) (x_task gen_shapes) d n None = (d', n', ConcErr)
    /\ ver_of_db 1 d' <> ver_of_db 1 d /\ x_plain_rollback gen_shapes = false.
Proof. exact ex_plain_not_atomic. Qed.

(* C2. progress is not guaranteed: with three writers a worker can lose every one of its attempts (here 2) and
   report ConcurrencyError to its caller although nothing is wrong with its data *)
Theorem C07_not_guaranteed_progress :
  let g := run gen_shapes 1 ex_starve_progs (g_init ex_d0 3) ex_starve_sched in
  g_bad g = false /\ option_map w_results (nth_error (g_ws g) 0) = Some [ConcErr; ConcErr]
  /\ option_map w_pc (nth_error (g_ws g) 0) = Some AtE.
Proof. exact ex_starve. Qed.

Print Assumptions C07_cas_exclusive.
Print Assumptions C07_failed_write_changes_nothing.
Print Assumptions C07_phase_guard.
Print Assumptions C07_frame.
Print Assumptions C07_task_cas.
Print Assumptions C07_linearizable.
Print Assumptions C07_one_success_per_version.
Print Assumptions C07_open_txn_is_empty.
Print Assumptions C07_retry_fresh.
Print Assumptions C07_versions_monotone.
Print Assumptions C07_bounded_retry.
Print Assumptions C07_not_guaranteed_plain_store_is_not_atomic_on_failure.
Print Assumptions C07_not_guaranteed_progress.
