(* C08 — Queue: at-least-once delivery, one holder at a time, no message ever lost.
   Statements only; proofs live in coq/proofs/QueueP.v, the model in coq/model/QueueM.v (parameterised by
   coq/gen/Gen_Queue.v, regenerated from queue/sqlite/{queue,dlq,schema}.py, persistence/sqlite/transaction.py
   and queue/processor/processor.py on every run).

   All quantifications over [ops : list op] range over operation lists of any length: any interleaving of any
   number of pollers' Select / Claim / MoveCorrupt steps and sweepers' SweepSelect / SweepMove steps with
   pushes (direct, in-transaction, raw), acks, reschedules, lock extensions, clock ticks, explicit
   move_to_dlq / replay_dlq, crashes of a poller between its steps ([Crash p]) and crash cuts after any
   number of statements inside move_to_dlq / replay_dlq ([CutMove id k], [CutReplay did k]). *)
From Coq Require Import List Bool ZArith Lia.
Import ListNotations.
From Stab.gen Require Import Gen_Queue Gen_Config.
From Stab.model Require Import QueueM.
From Stab.proofs Require Import QueueP.
Open Scope Z_scope.

(* ---- nothing is lost, nothing is duplicated ---------------------------------------------------- *)
(* the pushed messages are 0 .. next_mid-1; all_mids lists queue ++ DLQ ++ acked ++ purged (purged is filled
   only by the explicit clear() / clear_dlq()) *)
Theorem C08_conservation : forall c t0 ops,
  let s := run c ops (init t0) in
  NoDup (all_mids s) /\ (forall m, In m (all_mids s) <-> 0 <= m < next_mid s).
Proof. exact conservation. Qed.

Theorem C08_conservation_exactly_one : forall c t0 ops m,
  let s := run c ops (init t0) in
  places m s = if (0 <=? m) && (m <? next_mid s) then 1%nat else 0%nat.
Proof. exact conservation_exactly_one. Qed.

(* ---- one holder at a time ------------------------------------------------------------------------ *)
(* (a) no (row id, version) is claimed twice in any run; (b) once a claim on (id, ver) has won, every later
   claim with the same candidate — by any poller, after any operations — loses and changes no row *)
Theorem C08_exclusive_cas :
  (forall c t0 ops, NoDup (claims (run c ops (init t0)))) /\
  (forall c s p id ver att k lv r0,
     inv s -> get_pc p s = Selected id ver att k lv -> find (claim_hit id ver) (rows s) = Some r0 ->
     forall ops p' att' k' lv',
       let s' := run c ops (fst (do_claim c p s)) in
       get_pc p' s' = Selected id ver att' k' lv' ->
       snd (do_claim c p' s') = RLost /\ rows (fst (do_claim c p' s')) = rows s').
Proof. exact (conj claims_nodup claim_once). Qed.

(* what the code guarantees about the lock: after poller p's claim on row id won (writing locked_until =
   lockv = the clock when p entered poll_one + lock_duration), then for every continuation in which nobody
   reschedules the row or extends its lock, as long as the clock has not passed lockv: no other claim on the
   row wins and the row keeps that lock.  Premise: SQLite's clock does not run ahead of Python's
   (eff_skew c <= 0: TZ is UTC or east of it, or the 'utc' modifier is gone). *)
Theorem C08_exclusive_lock : forall c s p id ver att k lockv r0 ops,
  eff_skew c <= 0 ->
  inv s -> get_pc p s = Selected id ver att k lockv -> find (claim_hit id ver) (rows s) = Some r0 ->
  let s1 := fst (do_claim c p s) in
  forallb (fun o => negb (touches id o)) ops = true ->
  now (run c ops s1) <= lockv ->
  claims_of id (run c ops s1) = claims_of id s1
  /\ (forall r, In r (rows (run c ops s1)) -> r_id r = id -> r_lock r = Some lockv /\ r_ver r = ver + claim_ver_inc).
Proof. exact exclusive_lock. Qed.

(* ---- at-least-once --------------------------------------------------------------------------------- *)
(* a due row (deliver_at reached, lock absent or lapsed, attempts below the limit poll_one uses) makes the
   SELECT return a due row that is not ordered after it; every reachable state satisfies the NoDup premise *)
Theorem C08_at_least_once_select :
  (forall c s r, NoDup (map r_id (rows s)) -> In r (rows s) -> eligible c s r = true ->
     exists r', pick c s = Some r' /\ In r' (rows s) /\ eligible c s r' = true /\ (r' = r \/ row_before r' r = true))
  /\ (forall c s r, eligible c s r = true <->
        sec (r_deliver r) <= sec (sql_now c s)
        /\ (match r_lock r with None => True | Some l => sec l < sec (sql_now c s) end)
        /\ r_att r < poll_limit c r)
  /\ (forall c t0 ops, NoDup (map r_id (rows (run c ops (init t0))))).
Proof.
  exact (conj select_finds_due (conj eligible_spec (fun c t0 ops => proj1 (proj1 (inv_reachable c t0 ops))))).
Qed.

(* ... and it is actually claimed: from any reachable state, at most (number of rows) consecutive polls of one
   worker — with no other operation and no tick in between — claim the due row at its current version, i.e.
   return it to the caller (payload decodes), dead-letter it (payload does not parse) or raise after the claim
   (payload unusable).  Premise: the lock a claim writes hides the row at once (lock_duration >= the SQL clock skew) *)
Theorem C08_at_least_once_drain : forall c p s r,
  eff_skew c <= lock_ms c -> inv s -> In r (rows s) -> eligible c s r = true ->
  exists k, (1 <= k <= length (rows s))%nat /\ In (r_id r, r_ver r) (claims (run c (repeat (PollOne p) k) s)).
Proof. exact at_least_once_drain. Qed.

(* a row whose attempts reached its max_attempts is moved to the DLQ by the sweep with id, type+payload and
   attempts preserved — never deleted; no other row is touched *)
Theorem C08_exhausted_moved_not_deleted : forall c p s, inv s ->
  let s' := fst (step c (Sweep p) s) in
  (forall r, In r (rows s) -> sweep_pred (r_att r) (r_max r) (qmax c) = true ->
     (forall x, In x (rows s') -> r_id x <> r_id r) /\
     exists d, In d (dlq s') /\ d_orig d = r_id r /\ d_mid d = r_mid r /\ d_kind d = r_kind r /\ d_att d = r_att r)
  /\ (forall r, In r (rows s) -> sweep_pred (r_att r) (r_max r) (qmax c) = false -> In r (rows s'))
  /\ (forall d, In d (dlq s) -> In d (dlq s')) /\ acked s' = acked s /\ purged s' = purged s.
Proof. exact sweep_moves_exhausted. Qed.

(* replay puts the message back with the same type+payload (r_mid, r_kind), attempts 0, unlocked *)
Theorem C08_replay_unchanged : forall c s did d,
  NoDup (map d_id (dlq s)) -> In d (dlq s) -> d_id d = did ->
  let s' := fst (step c (Replay did) s) in
  snd (step c (Replay did) s) = RBool true
  /\ (exists r, rows s' = rows s ++ [r] /\ r_mid r = d_mid d /\ r_kind r = d_kind d /\ r_att r = 0 /\ r_lock r = None
                /\ r_id r = next_id s /\ r_ver r = schema_default_version /\ r_max r = schema_default_max_attempts)
  /\ (forall x, In x (dlq s') <-> In x (dlq s) /\ d_id x <> did)
  /\ acked s' = acked s /\ purged s' = purged s.
Proof. exact replay_unchanged. Qed.

(* the processor: the message it handled is acknowledged iff the handler returned; if the handler raised, the
   row is still in the queue, unlocked, due after retry_delay *)
Theorem C08_processor_ack_after_handler : forall c p ok s i a, inv s ->
  snd (step c (ProcOne p ok) s) = RMsg i a ->
  let s' := fst (step c (ProcOne p ok) s) in
  exists r0, In r0 (rows s) /\ r_id r0 = i /\
    if ok then (forall x, In x (rows s') -> r_id x <> i) /\ acked s' = r_mid r0 :: acked s
    else (exists r1, In r1 (rows s') /\ r_id r1 = i /\ r_mid r1 = r_mid r0 /\ r_lock r1 = None /\ r_deliver r1 = now s + retry_ms c)
         /\ acked s' = acked s.
Proof. exact processor_ack_after_handler. Qed.

(* ---- the two attempt limits -------------------------------------------------------------------------- *)
(* [stalled c r]: poll_one will never select r again and the sweep does not move it.  Impossible when every row
   limit is at most the queue's: direct pushes use the queue's, so it is enough that in-transaction pushes
   carry max_attempts <= the queue's and the schema default (used by replay) is <= the queue's. *)
Theorem C08_no_stall_when_limits_agree : forall c t0 ops r,
  schema_default_max_attempts <= qmax c ->
  forallb (op_limits_ok c) ops = true ->
  In r (rows (run c ops (init t0))) -> stalled c r = false.
Proof. exact no_stall_when_limits_agree. Qed.

(* ... and possible otherwise (what the design suspected): a queue built with max_attempts = 3 and a message
   pushed inside store.transaction() with the default Message.max_attempts = 10.  After three deliveries the
   row is stalled, and a stalled row is neither selected nor swept in any state at any time.  The premise is
   the sweep predicate the source has now (checked by the harness; the witness is replayed on the real queue:
   known finding limit-mismatch-stall). *)
Definition limit_witness_cfg : cfg := mkCfg 3 1000 0 15000.
Definition limit_witness_ops : list op :=
  [PushTx 0 message_default_max_attempts; PollOne 0; Tick 2000; PollOne 0; Tick 2000; PollOne 0; Tick 2000; PollOne 0].
Theorem C08_limit_mismatch_refuted :
  sweep_pred 3 10 3 = false ->
  (exists r, In r (rows (run limit_witness_cfg limit_witness_ops (init 0))) /\ stalled limit_witness_cfg r = true)
  /\ (forall c r, stalled c r = true -> forall s,
        eligible c s r = false /\
        ~ In (r_id r) (map r_id (filter (fun x => row_eqb x r) (filter (fun r => sweep_pred (r_att r) (r_max r) (qmax c)) (rows s))))).
Proof.
  intros H. split; [|exact stalled_is_stuck].
  exists (mkRow 1 0 Good 0 false (Some 5000) 3 10 3). split; [vm_compute; left; reflexivity|].
  unfold stalled, limit_witness_cfg. cbn [r_att r_max qmax]. rewrite H. reflexivity.
Qed.

(* ---- the process time zone ------------------------------------------------------------------------- *)
(* with SQLite's 'utc' modifier applied to 'now' and a process time zone west of UTC (skew_ms > 0: SQL time runs
   ahead), two polls one after the other return the same row although its 60 s lock was written a moment
   before: the premise of C08_exclusive_lock is necessary (known finding tz-utc-modifier) *)
Theorem C08_exclusive_tz_refuted :
  now_utc_modifier = true ->
  exists c ops, 0 < skew_ms c /\
    map snd (trace c ops (init 0)) = [RUnit; RMsg 1 1; RMsg 1 2].
Proof.
  intros H.
  first [ solve [ exists (mkCfg 10 60000 18000000 15000), [Push 0; PollOne 0; PollOne 1];
                  split; [reflexivity|vm_compute; reflexivity] ]
        | solve [ exfalso; vm_compute in H; discriminate H ] ].
Qed.

(* ---- non-vacuity ------------------------------------------------------------------------------------- *)
(* a run in which all four places of the ledger are populated, a claim wins and a stale one loses *)
Definition ex_cfg : cfg := mkCfg queue_max_attempts lock_duration_default_ms 0 retry_delay_default_ms.
Definition ex_ops : list op :=
  [Push 0; Push 0; Push 0; Inject BadJson 0 10; Select 0; Select 1; Claim 0; Claim 1; Ack 1; MoveDlq 2; PollOne 2; PollOne 2; ClearDlq].
Example C08_nonvacuous_run :
  let s := run ex_cfg ex_ops (init 0) in
  map r_mid (rows s) = [2] /\ acked s = [0] /\ purged s = [1; 3] /\ claims s = [(4, 0); (3, 0); (1, 0)]
  /\ map snd (trace ex_cfg ex_ops (init 0)) =
     [RUnit; RUnit; RUnit; RUnit; RSel (Some 1); RSel (Some 1); RMsg 1 1; RLost; RUnit; RUnit; RMsg 3 1; RNone; RInt 2].
Proof. vm_compute. repeat split. Qed.

(* the premises of C08_exclusive_lock / C08_no_stall are met by the default configuration in a UTC process *)
Example C08_premises_default :
  eff_skew ex_cfg <= 0 /\ eff_skew ex_cfg <= lock_ms ex_cfg /\ schema_default_max_attempts <= qmax ex_cfg /\ message_default_max_attempts <= qmax ex_cfg
  /\ forallb (op_limits_ok ex_cfg) [PushTx 0 message_default_max_attempts; Push 5; PollOne 0] = true
  /\ inv (run ex_cfg ex_ops (init 0)).
Proof.
  split; [vm_compute; discriminate|]. split; [vm_compute; discriminate|]. split; [vm_compute; discriminate|].
  split; [vm_compute; discriminate|]. split; [vm_compute; reflexivity|apply inv_reachable].
Qed.

(* the drain premise is met by a concrete state: a due row behind an earlier due one is claimed by the second poll *)
Example C08_drain_example :
  let s := run ex_cfg [Push 0; Push 0] (init 0) in
  existsb (eligible ex_cfg s) (rows s) = true
  /\ claims (run ex_cfg (repeat (PollOne 0%nat) 2) s) = [(2, 0); (1, 0)].
Proof. vm_compute. split; reflexivity. Qed.

(* a cut inside move_to_dlq after the DELETE and before the INSERT leaves the row in the queue; the whole move
   puts it into the DLQ *)
Example C08_cut_examples :
  map r_id (rows (run ex_cfg [Push 0; CutMove 1 1] (init 0))) = [1]
  /\ dlq (run ex_cfg [Push 0; CutMove 1 2] (init 0)) = []
  /\ map d_orig (dlq (run ex_cfg [Push 0; CutMove 1 3] (init 0))) = [1]
  /\ map r_mid (rows (run ex_cfg [Push 0; MoveDlq 1; CutReplay 1 1; CutReplay 1 3] (init 0))) = [0].
Proof. vm_compute. repeat split. Qed.

Print Assumptions C08_conservation.
Print Assumptions C08_conservation_exactly_one.
Print Assumptions C08_exclusive_cas.
Print Assumptions C08_exclusive_lock.
Print Assumptions C08_at_least_once_select.
Print Assumptions C08_at_least_once_drain.
Print Assumptions C08_exhausted_moved_not_deleted.
Print Assumptions C08_replay_unchanged.
Print Assumptions C08_processor_ack_after_handler.
Print Assumptions C08_no_stall_when_limits_agree.
Print Assumptions C08_limit_mismatch_refuted.
Print Assumptions C08_exclusive_tz_refuted.
