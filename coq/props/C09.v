(* C09 -- a message whose handling committed is never handled again, even after restart; the in-memory
   filter never reports an id it has been told about as new.
   Statements only; proofs live in coq/proofs/BloomP.v and DedupP.v.  Models: coq/model/Bloom.v (queue/dedup.py)
   and coq/model/Dedup.v (_handle_message, _hydrate_deduplicator, QueueProcessor.__init__), over the guards
   regenerated from the source into coq/gen/Gen_Dedup.v.
   h1 h2 : N -> N are the two hash functions: every theorem is for ALL of them (MD5 / SHA-1 are not used). *)
From Coq Require Import List Bool NArith.
Import ListNotations.
From Stab.gen Require Import Gen_Dedup.
From Stab.model Require Import Bloom Dedup.
From Stab.proofs Require Import BloomP DedupP.
Local Open Scope N_scope.

(* ------------------------------------------------------------------------------------------------ *)
(* Part A: the filter (BloomDeduplicator) as a state machine over mark_seen / hydrate / reset / query  *)
(* ------------------------------------------------------------------------------------------------ *)

(* A1. no false negative: after ANY operation sequence [pre] (resets included), every id that was marked
   or hydrated by an operation of [post] (which contains no reset) is reported as seen.  [bwf]: size > 0 and
   the bytearray has (size+7)//8 bytes -- what __init__ builds. *)
Theorem bloom_no_false_negative : forall (h1 h2 : N -> N) f pre post id,
  bwf f -> no_reset post = true -> told post id = true ->
  maybe_seen h1 h2 (brun h1 h2 f (pre ++ post)) id = true.
Proof. exact no_false_negative. Qed.

(* A2. bits are only ever cleared by reset *)
Theorem bloom_bits_monotone : forall (h1 h2 : N -> N) f ops p,
  no_reset ops = true -> get_bit (b_bits f) p = true -> get_bit (b_bits (brun h1 h2 f ops)) p = true.
Proof. exact bits_monotone. Qed.

(* A3. authority: the flag is true only if a hydrate ran after the last reset; and if that hydrate was given
   the complete processed set, a negative answer proves "not processed" (until the next reset) *)
Theorem bloom_authority : forall (h1 h2 : N -> N),
  (forall ops f, b_auth f = false -> b_auth (brun h1 h2 f ops) = true ->
     exists pre ids post, ops = pre ++ BHydrate ids :: post /\ no_reset post = true)
  /\
  (forall f pre ids post processed id,
     bwf f -> no_reset post = true -> incl processed ids ->
     maybe_seen h1 h2 (brun h1 h2 f (pre ++ BHydrate ids :: post)) id = false -> ~ In id processed).
Proof. exact (fun h1 h2 => conj (authority_origin h1 h2) (authority_sound h1 h2)). Qed.

(* what must not change: a reset really forgets (the filter is not "always seen") *)
Theorem bloom_reset_forgets : forall (h1 h2 : N -> N) f id, (0 < b_k f)%nat -> maybe_seen h1 h2 (reset f) id = false.
Proof. exact reset_clears. Qed.

(* non-vacuity: a concrete well-formed filter, a collision (id 12 was never told, yet reported seen: false
   positives exist, false negatives do not), and a reset in the prefix *)
Example bloom_nonvacuous :
  let h1 := fun x => x * 7 + 3 in let h2 := fun x => x * 5 + 1 in
  let f := bloom_new 11 2 4 in
  bwf f /\
  maybe_seen h1 h2 (brun h1 h2 f ([BMark 5; BReset] ++ [BMark 1; BHydrate [2; 3]])) 2 = true /\
  maybe_seen h1 h2 (brun h1 h2 f ([BMark 5; BReset] ++ [BMark 1; BHydrate [2; 3]])) 5 = false /\
  maybe_seen h1 h2 (brun h1 h2 f [BMark 1]) 12 = true /\
  b_auth (brun h1 h2 f [BHydrate [2]; BReset]) = false.
Proof. repeat split; try reflexivity; vm_compute; reflexivity. Qed.

(* ------------------------------------------------------------------------------------------------ *)
(* Part B: _handle_message over histories of any length                                                *)
(* ------------------------------------------------------------------------------------------------ *)

(* B1. C09 proper.  For every configuration with deduplication enabled and a store, every filter geometry,
   every durable set D0 found at process start, and EVERY history h (deliveries of any id with any handler
   outcome, restarts, further processors, rotations, bare resets, marks by other workers, retention sweeps):
   no delivery of an id that is in the durable processed set invokes the handler.
   [hist_ok cfg h] is vacuous when dedup_trust_negative_cache is off; when it is on it asks for the documented
   single-writer premise and that the filter learns an id no later than the store does
   (mark_seen before the handler, or: after it and no handler raises after committing its mark). *)
Theorem C09_skip_processed : forall (h1 h2 : N -> N) cfg m k cap D0 h,
  0 < m -> c_enable cfg = true -> c_store cfg = true -> hist_ok cfg h = true ->
  no_rehandle (snd (run h1 h2 cfg (boot h1 h2 cfg m k cap D0) h)) = true.
Proof. exact skip_processed. Qed.

(* B2. the same for the configuration the source has today (flags regenerated from mixins.py/config.py):
   with the default dedup_trust_negative_cache = False there is NO premise on the history at all ... *)
Theorem C09_skip_processed_trust_off : forall (h1 h2 : N -> N) m k cap D0 h, 0 < m ->
  no_rehandle (snd (run h1 h2 (code_cfg false) (boot h1 h2 (code_cfg false) m k cap D0) h)) = true.
Proof. exact code_skip_trust_off. Qed.

(* ... and with the option on: single writer, and (the source marks the filter before the handler, or no
   handler raises after committing its processed mark).  The second premise is NOT documented by the code:
   see C09_trust_raise_after_mark_refuted below and known_findings.d/C09.json. *)
Theorem C09_skip_processed_trust_on_partial : forall (h1 h2 : N -> N) m k cap D0 h, 0 < m ->
  single_writer h = true -> (early_mark = true \/ no_raise_after_mark h = true) ->
  no_rehandle (snd (run h1 h2 (code_cfg true) (boot h1 h2 (code_cfg true) m k cap D0) h)) = true.
Proof. exact code_skip_trust_on. Qed.

(* B3. after an uninterrupted delivery the id is in the durable set *)
Theorem C09_handler_marks : forall (h1 h2 : N -> N) cfg st id aged own,
  c_enable cfg = true -> c_store cfg = true ->
  mem id (d_durable (fst (handle h1 h2 cfg st (Some id) aged (HOk own)))) = true.
Proof. exact handle_marks. Qed.

(* B4. ghost counter: per id, at most one handler invocation ever completes with its processed mark durable
   (no retention sweep in the history: a swept id is, by design, new again) *)
Theorem C09_at_most_once : forall (h1 h2 : N -> N) cfg m k cap D0 h id,
  0 < m -> c_enable cfg = true -> c_store cfg = true -> hist_ok cfg h = true -> no_sweep h = true ->
  (commit_count id (snd (run h1 h2 cfg (boot h1 h2 cfg m k cap D0) h)) <= 1)%nat.
Proof. exact at_most_once. Qed.

(* B5. what must not change: an id that is not durable is always handed to the handler (the check does not
   skip everything), and a skipped delivery changes neither the durable set nor the filter *)
Theorem C09_new_is_handled : forall (h1 h2 : N -> N) cfg st id aged o,
  mem id (d_durable st) = false -> l_inv (snd (handle h1 h2 cfg st (Some id) aged o)) = true.
Proof. exact handle_new. Qed.

Theorem C09_skip_is_noop : forall (h1 h2 : N -> N) cfg st mid aged o,
  l_inv (snd (handle h1 h2 cfg st mid aged o)) = false -> fst (handle h1 h2 cfg st mid aged o) = st.
Proof. exact handle_skip_frame. Qed.

(* ---- the premises are necessary (witnesses by computation on the faithful model) ---- *)
(* wh1, wh2 (two concrete hash functions) and trust_cfg (dedup on, trust on, store, mark_seen only AFTER the
   handler: the shape of _handle_message today) are defined at the end of model/Dedup.v *)

(* without the single-writer premise: another worker marks id 1 after this process hydrated; the
   authoritative filter says "new" and the handler runs on a processed id *)
Theorem C09_trust_external_writer_refuted :
  exists h, no_raise_after_mark h = true /\
    no_rehandle (snd (run wh1 wh2 trust_cfg (boot wh1 wh2 trust_cfg 11 2 4 []) h)) = false.
Proof. exists [ExternalMark 1; Deliver (Some 1) false (HOk false)]. split; vm_compute; reflexivity. Qed.

(* GENUINE DEFECT (single writer!): a handler commits its transaction with the processed mark and raises
   afterwards; mark_seen is skipped, the filter stays authoritative without the id, the redelivery runs the
   handler again although the processed mark is durable *)
Theorem C09_trust_raise_after_mark_refuted :
  exists h, single_writer h = true /\
    no_rehandle (snd (run wh1 wh2 trust_cfg (boot wh1 wh2 trust_cfg 11 2 4 []) h)) = false /\
    (commit_count 1 (snd (run wh1 wh2 trust_cfg (boot wh1 wh2 trust_cfg 11 2 4 []) h)) = 2)%nat.
Proof.
  exists [Deliver (Some 1) false HRaiseAfterMark; Deliver (Some 1) false (HOk false)].
  repeat split; vm_compute; reflexivity.
Qed.

(* ... and marking the filter before the handler (fixes/C09-*.diff) removes it: same history, no rehandle *)
Example C09_early_mark_repairs :
  no_rehandle (snd (run wh1 wh2 (mkCfg true true true true true) (boot wh1 wh2 (mkCfg true true true true true) 11 2 4 [])
     [Deliver (Some 1) false HRaiseAfterMark; Deliver (Some 1) false (HOk false)])) = true.
Proof. vm_compute. reflexivity. Qed.

(* non-vacuity of B1/B2/B4: a history with trust on that meets hist_ok and contains a restart, a rotation by
   fill ratio, a redelivery that IS skipped and new ids that ARE handled *)
Example C09_nonvacuous :
  let h := [Deliver (Some 1) false (HOk true); Deliver (Some 2) false (HOk false); Restart;
            Deliver (Some 1) false (HOk false); Rotate; Deliver (Some 2) true (HOk false);
            Deliver (Some 3) false HRaiseBefore; Deliver (Some 3) false (HOk false); Deliver None false (HOk false)] in
  hist_ok trust_cfg h = true /\ no_sweep h = true /\
  map (fun e => (l_was e, l_inv e)) (snd (run wh1 wh2 trust_cfg (boot wh1 wh2 trust_cfg 11 2 4 []) h))
  = [(false, true); (false, true); (true, false); (true, false); (false, true); (false, true); (false, true)] /\
  d_durable (fst (run wh1 wh2 trust_cfg (boot wh1 wh2 trust_cfg 11 2 4 []) h)) = [1; 2; 3].
Proof. repeat split; vm_compute; reflexivity. Qed.

(* the configuration of the source today meets B1's structural premises *)
Example C09_code_cfg_ok : c_enable (code_cfg false) = true /\ c_store (code_cfg false) = true
  /\ dedup_trust_negative_cache_default = false /\ (early_mark || late_mark) = true.
Proof. repeat split. Qed.

Print Assumptions bloom_no_false_negative.
Print Assumptions bloom_bits_monotone.
Print Assumptions bloom_authority.
Print Assumptions bloom_reset_forgets.
Print Assumptions C09_skip_processed.
Print Assumptions C09_skip_processed_trust_off.
Print Assumptions C09_skip_processed_trust_on_partial.
Print Assumptions C09_handler_marks.
Print Assumptions C09_at_most_once.
Print Assumptions C09_new_is_handled.
Print Assumptions C09_skip_is_noop.
Print Assumptions C09_trust_external_writer_refuted.
Print Assumptions C09_trust_raise_after_mark_refuted.
