(* C10 — Recovery sweeps: harmless on healthy workflows, idempotent after a crash.
   PROVED
     C10_sweep_only_pushes     a sweep changes no workflow / stage / task status, no processed mark, no claim, no
                               ledger entry: it only appends queue rows (each with attempts 0 and a fresh id)
     C10_sweep_legal           (from C06) hence it is a legal no-op on statuses at any moment
   OPEN: C10_healthy_noop (the pushed messages are absorbed without extra task executions) and C10_idempotent need
     the token invariant and the has_pending_message_for_task guard's completeness; they are decided by the
     correspondence (a sweep or two before every delivery step of deterministic schedules, compared with the
     sweep-free run).  Known finding F9 (OR-split + sweep) concerns a feature outside the modelled fragment. *)
From Coq Require Import List Bool Arith ZArith.
Import ListNotations.
From Stab.model Require Import Base StatusM Readiness StageStat Engine.
From Stab.proofs Require Import EngineLegal RecoverP EngineEx SynP.

Theorem C10_sweep_only_pushes : forall s,
  w_stages (recover s) = w_stages s /\ w_status (recover s) = w_status s /\ w_canceled (recover s) = w_canceled s
  /\ g_execs (recover s) = g_execs s /\ w_processed (recover s) = w_processed s /\ w_claims (recover s) = w_claims s
  /\ g_starts (recover s) = g_starts s
  /\ w_queue (recover s) = w_queue s ++ map (fun p => {| q_id := fst p; q_msg := snd p; q_attempts := 0 |})
                                            (combine (seq (w_next s) (length (recovery_msgs s))) (recovery_msgs s)).
Proof.
  intros s. destruct (recover_frame s) as [H1 [H2 [H3 H4]]].
  destruct (pushes_only_queue (recovery_msgs s) s) as [H5 [H6 [H7 H8]]].
  unfold recover in *. auto 10.
Qed.

Theorem C10_sweep_legal : forall orc s, pairwise_legal s (step_trace orc s Recover).
Proof.
  intros orc s. simpl. split; [|exact I]. unfold recover. rewrite stages_apply_commit, wf_apply_commit.
  apply legal_quiet. apply quiet_pushes.
Qed.

(* the messages of a sweep, per stage: a StartStage for that stage, or a task-level message (RunTask / StartTask) only for
   a task of that stage that has NO message of its own in the queue - a sweep over a healthy run never duplicates the
   task message in flight *)
Theorem C10_sweep_no_duplicate_task_message : forall s i st m,
  In m (recover_stage s i st) ->
  match m with
  | MRunTask j t | MStartTask j t => j = i /\ has_pending_for_task s i t = false
  | MStartStage j _ => j = i
  | _ => False
  end.
Proof. exact recover_no_duplicate_task_message. Qed.

(* a planned RUNNING stage that waits for unfinished before stages gets NO message from the sweep (its before stages
   are swept as stages of their own): the sweep cannot run the stage's tasks ahead of them *)
Theorem C10_sweep_leaves_waiting_parent : forall s i st,
  s_status st = RUNNING -> s_plan_pending st = false ->
  (forall tk, In tk (s_tasks st) -> t_status tk <> RUNNING) ->
  existsb (fun j => negb (is_complete (status_at s j))) (kids s i OwnBefore) = true ->
  recover_stage s i st = [].
Proof. exact recover_leaves_waiting_parent. Qed.

(* non-vacuity: sweeps injected mid-run (twice in a row) do push messages, and the outcome / execution count is
   the same as without them *)
Example C10_witness :
  let mid := run ok_oracle ex_chain [Submit; Deliver 1 true; Deliver 2 true; Deliver 3 true; Deliver 4 true; Deliver 5 true; Deliver 6 true] in
  length (w_queue (recover (recover mid))) > length (w_queue mid) /\
  statuses (drain ok_oracle 80 (recover (recover mid))) = statuses (drain ok_oracle 80 mid) /\
  g_execs (drain ok_oracle 80 (recover (recover mid))) = g_execs (drain ok_oracle 80 mid).
Proof. vm_compute. repeat split; auto. Qed.

Print Assumptions C10_sweep_only_pushes.
Print Assumptions C10_sweep_legal.
Print Assumptions C10_sweep_leaves_waiting_parent.
Print Assumptions C10_sweep_no_duplicate_task_message.
