(* C11 — mutex admits one running stage; a deferred choice has exactly one winner.

   Model: coq/model/Conc.v (statement-level interleavings; the claim transaction is acquire_claim(mutex, steal iff the
   owner is gone or complete) ; acquire_claim(choice, never steals) ; store_stage(version + expected-phase CAS), the
   fast-path reads are separate snapshots; the claims sweep is an extra worker); lemmas: coq/proofs/ConcP.v.
   Every run-level theorem holds for ANY list of workers `ks` (StartStage / CompleteStage / SignalStage handlers for any
   stages, any number of sweeps) and ANY schedule. *)
From Coq Require Import List Bool Arith ZArith Lia.
Import ListNotations.
From Stab.model Require Import Base StatusM Readiness StageStat Conc.
From Stab.gen Require Import Gen_Config Gen_Guards Gen_Occ Gen_Conc.
From Stab.proofs Require Import ConcP.

(* the source facts the model depends on *)
Theorem C11_source_shape :
  conc_shape_ok = true /\ mutex_claim_steals = true /\ choice_claim_steals = false /\ mutex_requeue_has_budget = false /\
  (forall st, mutex_blocks st = status_eqb st RUNNING) /\ (forall st, choice_blocks st = negb (status_eqb st NOT_STARTED)) /\
  (forall st, sibling_cancelled st = status_eqb st NOT_STARTED) /\
  (* the fast-path sibling scan + self-cancel only for a NOT_STARTED stage (a RUNNING claimant re-planned after a crash skips it) *)
  (forall st, choice_fast_guard st = status_eqb st NOT_STARTED).
Proof.
  exact (conj eq_refl (conj eq_refl (conj eq_refl (conj eq_refl
        (conj (fun st => eq_refl) (conj (fun st => eq_refl) (conj (fun st => eq_refl) (fun st => eq_refl)))))))).
Qed.

(* the statements of AtomicTransaction.acquire_claim (INSERT OR IGNORE; rowcount; re-read; vanished-row retry; same
   owner; steal by UPDATE ... WHERE stage_id = :owner_id) compute the function the model uses, given the table's
   PRIMARY KEY (execution_id, claim_key) *)
Theorem C11_acquire_claim_as_coded :
  forall s b k i steal, NoDup (map fst (w_claims s)) -> acquire_claim_coded s b k i steal = acquire_claim s b k i steal.
Proof. exact acquire_claim_coded_eq. Qed.

(* every RUNNING stage with mutex key k owns claim mutex:k, in every durable state of every interleaving of a live
   execution ... *)
Theorem C11_mutex_owner :
  forall s ks sched, live s -> mutex_owner_inv s -> mutex_owner_inv (fst (run_conc sched (s, map spawn ks))).
Proof. exact mutex_owner_run. Qed.

(* ... hence two stages that share a key are never RUNNING in the same durable state *)
Theorem C11_mutex_exclusive :
  forall s ks sched j1 j2 r1 r2 k,
    live s -> mutex_owner_inv s ->
    let s' := fst (run_conc sched (s, map spawn ks)) in
    get_stage s' j1 = Some r1 -> get_stage s' j2 = Some r2 -> s_status r1 = RUNNING -> s_status r2 = RUNNING ->
    s_mutex r1 = Some k -> s_mutex r2 = Some k -> j1 = j2.
Proof.
  exact (fun s ks sched j1 j2 r1 r2 k Hl HI => mutex_exclusive _ j1 j2 r1 r2 k (mutex_owner_run s ks sched Hl HI)).
Qed.

(* the retention sweep is the identity on a live execution and deletes the claims of a completed one *)
Theorem C11_sweep_only_completed :
  (forall s, live s -> apply_effect s ESweep = s) /\
  (forall s, is_complete (w_status s) = true -> apply_effect s ESweep = with_claims [] s) /\
  (forall s e, w_status (apply_effect s e) = w_status s).
Proof. exact (conj sweep_live (conj sweep_complete effect_status)). Qed.

(* a claim is taken over from another owner only by the stealing (mutex) acquire and only when that owner's row is gone
   or complete; the choice acquire never steals *)
Theorem C11_steal_only_from_complete :
  forall s b k i steal o,
    fst (acquire_claim s b k i steal) = true -> claim_lookup (w_claims s) b k = Some o -> o <> i ->
    steal = true /\ owner_gone_or_complete s o = true.
Proof. exact acquire_from_other. Qed.

(* progress (a): a stage that loses the mutex in the claim transaction (owner alive) re-queues StartStage(retry + 1) -
   for every retry: there is no budget on this path - and the message is in the queue after that step *)
Theorem C11_mutex_progress_requeue :
  (forall s id i retry st k o,
      s_mutex st = Some k -> claim_lookup (w_claims s) true k = Some o -> o <> i -> owner_gone_or_complete s o = false ->
      claim_step s id i retry st = (ENone, requeue_pc i retry)) /\
  (forall s w id i retry, w_kind w = WStart id i retry -> w_pc w = requeue_pc i retry ->
      exists k, step_worker s w = Some (k, EQ [QPush (MStartStage i (retry + mutex_requeue_increment))], PMark)) /\
  (forall s m, In m (map q_msg (w_queue (push m s)))).
Proof. exact (conj mutex_loser_claim (conj requeue_step push_in_queue)). Qed.

(* progress (b): the claim of a NOT_STARTED stage succeeds in any state where claim mutex:k is free, its own, or owned
   by a stage that is gone or complete: it becomes the owner and (by C11_mutex_owner's transaction) RUNNING *)
Theorem C11_mutex_progress_claim :
  forall s id i retry row k,
    get_stage s i = Some row -> s_status row = NOT_STARTED -> s_mutex row = Some k -> s_choice row = None ->
    (forall o, claim_lookup (w_claims s) true k = Some o -> o = i \/ owner_gone_or_complete s o = true) ->
    exists cl p, claim_step s id i retry row = (EClaim i cl (claim_obj row) true, p) /\ claim_lookup cl true k = Some i.
Proof. exact mutex_claim_succeeds. Qed.

(* every member of a deferred-choice group that ever committed NOT_STARTED -> RUNNING owns claim choice:g (never stolen,
   never swept while the execution is live) ... *)
Theorem C11_choice_owner :
  forall s ks sched, live s -> choice_owner_inv s -> choice_owner_inv (fst (run_conc sched (s, map spawn ks))).
Proof. exact choice_owner_run. Qed.

(* ... hence at most one stage of a group ever starts (and, by C04_one_claim, at most once) *)
Theorem C11_choice_one_winner :
  forall s ks sched j1 j2 c1 c2 r1 r2 g,
    live s -> choice_owner_inv s ->
    let s' := fst (run_conc sched (s, map spawn ks)) in
    In (j1, c1) (g_starts s') -> In (j2, c2) (g_starts s') ->
    get_stage s' j1 = Some r1 -> get_stage s' j2 = Some r2 -> s_choice r1 = Some g -> s_choice r2 = Some g -> j1 = j2.
Proof.
  exact (fun s ks sched j1 j2 c1 c2 r1 r2 g Hl HI => choice_one_winner _ j1 j2 c1 c2 r1 r2 g (choice_owner_run s ks sched Hl HI)).
Qed.

(* a member whose group is owned by another stage cancels itself in the claim transaction: mark + CancelStage(self) in one
   commit (with a mutex key it may re-queue instead and cancel at its next attempt); the winner pushes one CancelStage
   per sibling it sees NOT_STARTED *)
Theorem C11_choice_losers_cancel :
  (forall s id i retry st g o,
      s_mutex st = None -> s_choice st = Some g -> claim_lookup (w_claims s) false g = Some o -> o <> i ->
      claim_step s id i retry st = (ENone, cancel_self_pc id i)) /\
  (forall s id i retry st g,
      s_choice st = Some g ->
      (forall cl, claim_lookup cl false g = claim_lookup (w_claims s) false g -> exists o, claim_lookup cl false g = Some o /\ o <> i) ->
      snd (claim_step s id i retry st) = cancel_self_pc id i \/ snd (claim_step s id i retry st) = requeue_pc i retry) /\
  (forall s w id i retry, w_kind w = WStart id i retry -> w_pc w = cancel_self_pc id i ->
      exists k, step_worker s w = Some (k, EQ [QMark id; QPush (MCancelStage i)], PMark)) /\
  (forall s id i cl g, s_choice cl = Some g -> pc_pushes (sibs_pc s id i cl) = map MCancelStage (siblings_not_started s i g)).
Proof. exact (conj choice_loser_claim (conj choice_loser_claim_any (conj cancel_self_step winner_cancels_siblings))). Qed.

(* ---- non-vacuity ---- *)
Definition mx_state : state :=
  mk_state RUNNING
    [mk_stage [] J_AND 0 None None SUCCEEDED true 6 false [] [] false [SUCCEEDED];
     mk_stage [0] J_AND 0 (Some 0) None NOT_STARTED false 0 false [] [] false [NOT_STARTED];
     mk_stage [0] J_AND 0 (Some 0) None NOT_STARTED false 0 false [] [] false [NOT_STARTED]]
    [(8, MStartStage 1 0); (9, MStartStage 2 0)] 10 [].

(* both siblings pass the fast path, then race in the claim: one runs, the other re-queued itself with retry 1 *)
Example mx_race :
  let c := run_conc [0; 0; 0; 1; 1; 1; 0; 1; 1; 0; 0; 1; 1; 2] (mx_state, map spawn [WStart 8 1 0; WStart 9 2 0; WSweeper]) in
  live mx_state /\ mutex_owner_invb mx_state = true /\ mutex_owner_invb (fst c) = true /\
  map (fun st => s_status st) (w_stages (fst c)) = [SUCCEEDED; RUNNING; NOT_STARTED] /\
  w_claims (fst c) = [(true, 0, 1)] /\
  map (fun r => msg_view (q_msg r)) (w_queue (fst c)) = [(3, 1, 0, 0%Z); (3, 2, 0, 0%Z); (3, 2, 0, 1%Z); (7, 1, 0, 0%Z)].
Proof. vm_compute. repeat split. Qed.

Example mx_inv_holds : mutex_owner_inv mx_state.
Proof. exact (mutex_owner_invb_ok mx_state eq_refl). Qed.

Definition ch_state : state :=
  mk_state RUNNING
    [mk_stage [] J_AND 0 None None SUCCEEDED true 6 false [] [] false [SUCCEEDED];
     mk_stage [0] J_AND 0 None (Some 0) NOT_STARTED false 0 false [] [] false [NOT_STARTED];
     mk_stage [0] J_AND 0 None (Some 0) NOT_STARTED false 0 false [] [] false [NOT_STARTED];
     mk_stage [0] J_AND 0 None (Some 0) NOT_STARTED false 0 false [] [] false [NOT_STARTED]]
    [(8, MStartStage 1 0); (9, MStartStage 2 0); (10, MStartStage 3 0)] 11 [].

(* three siblings pass the fast path; stage 2 wins; 1 and 3 cancel themselves; the winner cancels the siblings it sees *)
Example ch_race :
  let c := run_conc [0; 0; 0; 1; 1; 1; 2; 2; 2; 1; 0; 2; 1; 1; 1; 1; 0; 0; 2; 2; 1]
                    (ch_state, map spawn [WStart 8 1 0; WStart 9 2 0; WStart 10 3 0]) in
  choice_owner_invb ch_state = true /\ choice_owner_invb (fst c) = true /\ all_done c = true /\
  map fst (g_starts (fst c)) = [2] /\ w_claims (fst c) = [(false, 0, 2)] /\
  map (fun st => s_status st) (w_stages (fst c)) = [SUCCEEDED; NOT_STARTED; RUNNING; NOT_STARTED] /\
  map (fun r => fst (fst (fst (msg_view (q_msg r))))) (w_queue (fst c)) = [3; 3; 3; 6; 6; 7; 6; 6].
Proof. vm_compute. repeat split. Qed.

Example ch_inv_holds : choice_owner_inv ch_state.
Proof. exact (choice_owner_invb_ok ch_state eq_refl). Qed.

Print Assumptions C11_source_shape.
Print Assumptions C11_acquire_claim_as_coded.
Print Assumptions C11_mutex_owner.
Print Assumptions C11_mutex_exclusive.
Print Assumptions C11_sweep_only_completed.
Print Assumptions C11_steal_only_from_complete.
Print Assumptions C11_mutex_progress_requeue.
Print Assumptions C11_mutex_progress_claim.
Print Assumptions C11_choice_owner.
Print Assumptions C11_choice_one_winner.
Print Assumptions C11_choice_losers_cancel.
