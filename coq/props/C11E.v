(* C11, engine half: mutual exclusion over WHOLE RUNS of the engine model (model/Engine.v), complementing the n-worker
   statement-level theorems of props/C11.v (model/Conc.v), which cover the StartStage race but not pause / resume,
   jumps, restarts, recovery or crash cuts.  Statements only; proofs in proofs/EngineMx.v. *)
From Coq Require Import List Bool Arith ZArith.
Import ListNotations.
From Stab.model Require Import Base StatusM Readiness StageStat Engine.
From Stab.proofs Require Import EngineMx EngineChoice EngineEx.

(* In every run - deliveries in any order, redeliveries, crash cuts after any commit, recovery sweeps, cancels,
   signals, pauses / unpauses, jumps, operator restarts - of a workflow submitted with no stage started: a stage that
   is RUNNING, or parked PAUSED / SUSPENDED, with mutex key k owns the claim row mutex:k.
   `_partial`: tasks that return SUSPEND are excluded by the premise (RunTask's suspend path assigns the stage status
   without looking at it; that it only ever runs on a RUNNING stage is the open invariant of C06). *)
Theorem C11_engine_mutex_owner_partial : forall orc stages wmax acts,
  never_suspends orc -> Forall (fun st => liveb st = false) stages ->
  mx_ok (run orc (init_state stages wmax) acts).
Proof. intros orc stages wmax acts Ns H. apply mx_run; [exact Ns|apply mx_init; exact H]. Qed.

(* hence two stages sharing a mutex key are never RUNNING (or holding the key while parked) together *)
Theorem C11_engine_mutex_exclusive_partial : forall orc stages wmax acts i j a b k,
  never_suspends orc -> Forall (fun st => liveb st = false) stages ->
  let s := run orc (init_state stages wmax) acts in
  get_stage s i = Some a -> get_stage s j = Some b ->
  liveb a = true -> liveb b = true -> s_mutex a = Some k -> s_mutex b = Some k -> i = j.
Proof.
  intros orc stages wmax acts i j a b k Ns H s Ha Hb La Lb Ka Kb.
  apply (mx_exclusive s i j a b k); try assumption. apply C11_engine_mutex_owner_partial; assumption.
Qed.

(* the invariant survives a crash cut after ANY number of commits of ANY delivery *)
Theorem C11_engine_mutex_crash_cut : forall orc s id k,
  never_suspends orc -> mx_ok s -> mx_ok (step orc s (DeliverCut id k)).
Proof. intros orc s id k Ns M. apply mx_step; assumption. Qed.

(* Deferred choice, with NO premise on the tasks: in every run, every stage that ever performed a NOT_STARTED -> RUNNING
   claim commit (the ghost start ledger) still exists and owns the claim row of its choice group ... *)
Theorem C11_engine_choice_owner : forall orc stages wmax acts,
  ch_inv (run orc (init_state stages wmax) acts).
Proof. intros. apply ch_run, ch_init. Qed.

(* ... hence a group has at most ONE stage that ever started - across redeliveries, a crash between the claim and the
   plan commit followed by recovery (finding F11), jumps that re-arm the group, and operator restarts *)
Theorem C11_engine_choice_one_winner : forall orc stages wmax acts i j ji jj a b g,
  let s := run orc (init_state stages wmax) acts in
  In (i, ji) (g_starts s) -> In (j, jj) (g_starts s) ->
  nth_error (w_stages s) i = Some a -> nth_error (w_stages s) j = Some b ->
  s_choice a = Some g -> s_choice b = Some g -> i = j.
Proof.
  intros orc stages wmax acts i j ji jj a b g s Hi Hj Ha Hb Ga Gb.
  apply (ch_inv_one_winner s i j ji jj a b g); try assumption. apply C11_engine_choice_owner.
Qed.

(* non-vacuity: the premises hold for a submitted workflow, and a mutex key does get claimed *)
Example C11_engine_witness :
  let a := ex_stage [] 1 in
  Forall (fun st => liveb st = false) [a; a] /\ EngineMx.never_suspends ok_oracle.
Proof. split; [repeat constructor|intros i t n; discriminate]. Qed.

Print Assumptions C11_engine_mutex_owner_partial.
Print Assumptions C11_engine_mutex_exclusive_partial.
Print Assumptions C11_engine_mutex_crash_cut.
Print Assumptions C11_engine_choice_owner.
Print Assumptions C11_engine_choice_one_winner.
