(* C12 -- replaying the event log reproduces the stored state; as-of-sequence = prefix replay;
   snapshot + later events = full replay.  Statements only; proofs in coq/proofs/EventsP.v over coq/model/EventsM.v
   and the tables of coq/gen/Gen_Events.v (regenerated from events/replay.py, events/recorder/*.py, handlers/*.py). *)
From Coq Require Import List Bool NArith Sorted.
Import ListNotations.
From Stab.model Require Import Base StatusM EventsM.
From Stab.proofs Require Import EventsP.
Local Open Scope N_scope.

(* 1. as-of rebuild (no snapshot) is, for ANY list the store returns, the fold over exactly the workflow's events
      with 0 < sequence <= n, in stored order *)
Theorem C12_as_of : forall wf n log,
  rebuild wf None (Some n) log
  = replay (filter (fun e => N.eqb (ewf e) wf && N.ltb 0 (seq e) && N.leb (seq e) n) log).
Proof. exact rebuild_as_of. Qed.

(* 1'. with the positive sequence numbers AUTOINCREMENT hands out (C13_sequence): exactly the events up to n *)
Theorem C12_as_of_positive : forall wf n log,
  Forall (fun e => 0 < seq e) log ->
  rebuild wf None (Some n) log = replay (filter (fun e => N.eqb (ewf e) wf && N.leb (seq e) n) log).
Proof. exact rebuild_as_of_pos. Qed.

(* 2. snapshot taken at sequence k (state = as-of-k rebuild, any version number) + the later events, for any n and
      for "latest": equal to the full replay on every field _load_state_from_snapshot restores.  NOT restored, hence
      excluded by name: WorkflowState.start_time and WorkflowState.end_time (restored_eq leaves w_start / w_end out). *)
Theorem C12_snapshot : forall wf log k n ver,
  seq_sorted log ->
  let sn := mkSnap ver k (rebuild wf None (Some k) log) in
  restored_eq (rebuild wf (Some sn) (Some n) log) (rebuild wf None (Some n) log)
  /\ restored_eq (rebuild wf (Some sn) None log) (rebuild wf None None log).
Proof. exact snapshot_rebuild. Qed.

(* the exclusion is real: after a snapshot the workflow start time is gone (so it must not be in the statement) *)
Example C12_snapshot_times_not_restored :
  let log := [mkEvent 1 7 E_WORKFLOW_STARTED ET_WORKFLOW 7 42 None None None [] 0;
              mkEvent 2 7 E_STAGE_STARTED ET_STAGE 1 43 None None None [] 0] in
  let sn := mkSnap 1 1 (rebuild 7 None (Some 1) log) in
  w_start (rebuild 7 (Some sn) None log) = None /\ w_start (rebuild 7 None None log) = Some 42
  /\ seq_sorted log.
Proof. repeat split; repeat constructor; cbv; discriminate. Qed.

(* 3. the replay invariant, over any recording run (list of handler invocations = status writes + events appended):
      if every regular lifecycle write is accompanied by the event that replays to the written status and events touch no
      other entity's status, then after ANY run the replayed status of every entity whose last write was a regular one is
      its stored status.  Force-marked entities (jump resets, bulk-canceled tasks, suspend / resume) are excluded by
      `agrees`, as the property says. *)
Theorem C12_replay_invariant : forall run,
  forallb step_ok run = true ->
  forall x, agrees (run_store run) (replay (run_log run)) x = true.
Proof. exact replay_invariant. Qed.

(* 4. the engine's lifecycle steps, with the events the recorders build and the handlers choose (Gen_Events), meet that
      premise -- every step except a task completing SKIPPED (below) and CompleteStage's exception path (C13) *)
Theorem C12_engine_replay : forall steps tag,
  forallb (fun st => negb (is_task_skip st) && negb (is_stage_err st)) steps = true ->
  forall x, agrees (run_store (records_from tag steps)) (replay (run_log (records_from tag steps))) x = true.
Proof. exact engine_replay. Qed.

Example C12_engine_replay_nonvacuous :
  let steps := [LStartWorkflow; LStartStage 1; LStartTask 10; LCompleteTask 10 FAILED_CONTINUE; LStartTask 11;
                LForce (ETask 11) SUSPENDED; LForce (ETask 11) RUNNING; LCompleteTask 11 SUCCEEDED;
                LCompleteStage 1 FAILED_CONTINUE; LSkipStage 2; LStartStage 3; LStartTask 30;
                LCancelStage 3 [30; 31]; LCompleteWorkflow CANCELED] in
  forallb (fun st => negb (is_task_skip st) && negb (is_stage_err st)) steps = true
  /\ rstatus (replay (run_log (records_from 0 steps))) (EStage 1) = Some FAILED_CONTINUE
  /\ rstatus (replay (run_log (records_from 0 steps))) (ETask 10) = Some FAILED_CONTINUE
  /\ rstatus (replay (run_log (records_from 0 steps))) (EStage 2) = Some SKIPPED
  /\ rstatus (replay (run_log (records_from 0 steps))) (EStage 3) = Some CANCELED
  /\ rstatus (replay (run_log (records_from 0 steps))) EWf = Some CANCELED
  /\ sget (ETask 30) (run_store (records_from 0 steps)) = Some (CANCELED, false).
Proof. vm_compute. repeat split. Qed.

(* 5. REFUTED for skipped tasks (design finding F6): CompleteTaskHandler.record_completion_event records nothing for
      SKIPPED (complete_task_emit SKIPPED = None, read off the source), and StartTask marks a disabled SkippableTask
      SKIPPED without any event; replay reports RUNNING (resp. nothing) while the store says SKIPPED. *)
Theorem C12_task_skipped_refuted :
  complete_task_emit SKIPPED = None ->
  exists steps x,
    agrees (run_store (records_from 0 steps)) (replay (run_log (records_from 0 steps))) x = false
    /\ sget x (run_store (records_from 0 steps)) = Some (SKIPPED, true)
    /\ rstatus (replay (run_log (records_from 0 steps))) x = Some RUNNING.
Proof. exact task_skipped_refuted. Qed.

Theorem C12_task_skipped_at_start_refuted :
  exists steps x,
    agrees (run_store (records_from 0 steps)) (replay (run_log (records_from 0 steps))) x = false
    /\ sget x (run_store (records_from 0 steps)) = Some (SKIPPED, true)
    /\ rstatus (replay (run_log (records_from 0 steps))) x = None.
Proof. exact task_skipped_at_start_refuted. Qed.

Print Assumptions C12_as_of.
Print Assumptions C12_as_of_positive.
Print Assumptions C12_snapshot.
Print Assumptions C12_replay_invariant.
Print Assumptions C12_engine_replay.
Print Assumptions C12_task_skipped_refuted.
Print Assumptions C12_task_skipped_at_start_refuted.
