(* C13 -- events and the state they describe commit together; subscribers only see committed events; sequence numbers
   unique and increasing.  Statements only; proofs in coq/proofs/EventsP.v over the transaction-scope machine of
   coq/model/EventsM.v (events/txn_scope.py + recorder/base.py:_record + SqliteWorkflowStore.transaction) and the
   record-call positions of coq/gen/Gen_Events.v (regenerated from handlers/*.py). *)
From Coq Require Import List Bool NArith Sorted.
Import ListNotations.
From Stab.model Require Import Base StatusM EventsM.
From Stab.proofs Require Import EventsP.
Local Open Scope N_scope.

(* 1. atomicity, for ANY sequence of transaction blocks (statements executed inside `with store.transaction()`: status
      writes and record_* calls in any order and number; each block ends in COMMIT, in an exception = ROLLBACK, or the
      process dies), event store in the same database: the durable status writes, the durable log and what subscribers
      were handed are exactly the writes / events of the blocks that committed -- both are parts of one commit value. *)
Theorem C13_atomic : forall bs s,
  quiescent s ->
  quiescent (trun true s (blocks_ops bs))
  /\ db_writes (durable (trun true s (blocks_ops bs))) = db_writes (durable s) ++ committed_writes bs
  /\ map unseq (db_log (durable (trun true s (blocks_ops bs)))) = map unseq (db_log (durable s)) ++ map unseq (committed_events bs)
  /\ map unseq (published (trun true s (blocks_ops bs))) = map unseq (published s) ++ map unseq (committed_events bs).
Proof. exact atomic_blocks. Qed.

Example C13_atomic_nonvacuous :
  let w t := mkW (ETask t) SUCCEEDED true t in
  let e t := mkEvent 0 0 E_TASK_COMPLETED ET_TASK t 0 (Some SUCCEEDED) None None [] t in
  let bs := [([IWrite (w 1); IRecord (e 1)], FCommit); ([IWrite (w 2); IRecord (e 2)], FAbort);
             ([IWrite (w 3); IRecord (e 3)], FCrash); ([IWrite (w 4); IRecord (e 4)], FCommit)] in
  let s := trun true init_tstate (blocks_ops bs) in
  quiescent init_tstate
  /\ map wr_tag (db_writes (durable s)) = [1; 4]
  /\ map (fun x => (seq x, etag x)) (db_log (durable s)) = [(1, 1); (2, 4)]
  /\ map (fun x => (seq x, etag x)) (published s) = [(1, 1); (2, 4)].
Proof. vm_compute. repeat split. Qed.

(* 2. CompleteTask / CompleteStage as the handlers are written NOW (record call inside the with-block: Gen_Events), cut
      after any number of statements by a crash or by an injected exception / optimistic-lock conflict (ROLLBACK), from
      any quiescent state: the completion event is durable iff the completion is; run to the end, both are. *)
Theorem C13_atomic_complete_task : forall s tag t st k cut,
  quiescent s -> fresh tag s -> (cut = OCrash \/ cut = OAbort) -> status_eqb st SKIPPED = false ->
  has_event_tag tag (durable (trun true s (firstn k (lstep_ops tag (LCompleteTask t st)) ++ [cut])))
  = has_write_tag tag (durable (trun true s (firstn k (lstep_ops tag (LCompleteTask t st)) ++ [cut]))).
Proof. exact complete_task_atomic. Qed.

Theorem C13_complete_task_never_lacks_event : forall s tag t st,
  quiescent s -> status_eqb st SKIPPED = false ->
  has_event_tag tag (durable (trun true s (lstep_ops tag (LCompleteTask t st)))) = true
  /\ has_write_tag tag (durable (trun true s (lstep_ops tag (LCompleteTask t st)))) = true.
Proof. exact complete_task_done. Qed.

Theorem C13_atomic_complete_stage : forall s tag i st k cut,
  quiescent s -> fresh tag s -> (cut = OCrash \/ cut = OAbort) ->
  has_event_tag tag (durable (trun true s (firstn k (lstep_ops tag (LCompleteStage i st)) ++ [cut])))
  = has_write_tag tag (durable (trun true s (firstn k (lstep_ops tag (LCompleteStage i st)) ++ [cut]))).
Proof. exact complete_stage_atomic. Qed.

Theorem C13_complete_stage_never_lacks_event : forall s tag i st,
  quiescent s ->
  has_event_tag tag (durable (trun true s (lstep_ops tag (LCompleteStage i st)))) = true
  /\ has_write_tag tag (durable (trun true s (lstep_ops tag (LCompleteStage i st)))) = true.
Proof. exact complete_stage_done. Qed.

Example C13_premises_nonvacuous :
  quiescent (trun true init_tstate (blocks_ops [([IWrite (mkW EWf RUNNING true 1)], FCommit)]))
  /\ fresh 9 (trun true init_tstate (blocks_ops [([IWrite (mkW EWf RUNNING true 1)], FCommit)]))
  /\ lstep_ops 9 (LCompleteTask 3 TERMINAL)
     = [OBegin; OWrite (mkW (ETask 3) TERMINAL true 9);
        ORecord (mkEvent 0 0 E_TASK_FAILED ET_TASK 3 0 (Some TERMINAL) None None [] 9); OCommit].
Proof. vm_compute. repeat split. Qed.

(* 3. subscribers: for every statement sequence in which transaction blocks are not nested (any mix of blocks, writes and
      record calls outside blocks, auto-committing store calls, crashes; event store in the same or another database), what
      the bus handed over is an order-preserving sub-list of the durable log; at every moment (the theorem holds for every
      prefix), so nothing is handed over before its commit. *)
Theorem C13_publish_after_commit : forall same_db ops,
  flat_from 0 ops = true ->
  subseq (published (trun same_db init_tstate ops)) (db_log (durable (trun same_db init_tstate ops))).
Proof. exact publish_after_commit. Qed.

(* 3'. nothing is published (and nothing becomes durable) for a scope that rolled back or died; a committed scope's events
       are published, in order *)
Theorem C13_aborted_scope_publishes_nothing : forall s items f,
  quiescent s -> f <> FCommit ->
  published (trun true s (block_ops (items, f))) = published s
  /\ durable (trun true s (block_ops (items, f))) = durable s.
Proof. exact aborted_block_publishes_nothing. Qed.

Theorem C13_committed_scope_publishes : forall s items,
  quiescent s ->
  map unseq (published (trun true s (block_ops (items, FCommit)))) = map unseq (published s) ++ map unseq (item_events items).
Proof. exact committed_block_publishes. Qed.

Example C13_publish_nonvacuous :
  let e t := mkEvent 0 0 E_CUSTOM ET_TASK 0 0 None None None [] t in
  let ops := [ORecord (e 1); OBegin; ORecord (e 2); OWrite (mkW EWf RUNNING true 2); OAbort; OBegin; ORecord (e 3); OCommit;
              OBegin; ORecord (e 4); OCrash; ORecord (e 5)] in
  flat_from 0 ops = true
  /\ map (fun x => (seq x, etag x)) (published (trun true init_tstate ops)) = [(1, 1); (2, 3); (3, 5)]
  /\ map (fun x => (seq x, etag x)) (db_log (durable (trun true init_tstate ops))) = [(1, 1); (2, 3); (3, 5)].
Proof. vm_compute. repeat split. Qed.

(* 4. sequence numbers of the durable log are strictly increasing, unique and positive after ANY statement sequence
      (model of AUTOINCREMENT with the counter rolled back together with the row; SQLite itself is trusted). *)
Theorem C13_sequence : forall same_db ops,
  let log := db_log (durable (trun same_db init_tstate ops)) in
  StronglySorted N.lt (map seq log) /\ NoDup (map seq log) /\ Forall (fun e => 0 < seq e) log.
Proof. exact sequence_increasing. Qed.

(* hence the log is in the order the store query returns it: the premise of C12_snapshot *)
Theorem C13_log_sorted : forall l, StronglySorted N.lt (map seq l) -> seq_sorted l.
Proof. exact sorted_lt_seq_sorted. Qed.

(* 5. REFUTED outside the flat discipline: a nested block that fails while the outer block swallows the exception and
      commits publishes an event that is not in the log (TxnScope.pending survives an inner abort).  No handler nests
      transaction blocks (checked at run time by the harness: maximal scope depth observed = 1). *)
Theorem C13_publish_nested_refuted :
  let e := mkEvent 0 0 E_CUSTOM ET_TASK 0 0 None None None [] 7 in
  let s := trun true init_tstate [OBegin; OBegin; ORecord e; OAbort; OCommit] in
  published s = [set_seq 1 e] /\ db_log (durable s) = [] /\ flat_from 0 [OBegin; OBegin; ORecord e; OAbort; OCommit] = false.
Proof. exact nested_abort_publishes_undurable. Qed.

(* 6. REFUTED for CompleteStage's exception path (reached e.g. by an exception injected after the event append inside the
      completion transaction of a failing stage): the handler stores the stage TERMINAL in a transaction block that records
      nothing (Gen_Events.complete_stage_every_store_records = false): a committed completion without its event. *)
Theorem C13_stage_error_path_refuted :
  complete_stage_every_store_records = false ->
  forall i tag,
    has_write_tag tag (durable (trun true init_tstate (lstep_ops tag (LCompleteStageErr i)))) = true
    /\ has_event_tag tag (durable (trun true init_tstate (lstep_ops tag (LCompleteStageErr i)))) = false.
Proof. exact stage_error_path_refuted. Qed.

(* ... and repaired as soon as that block records too (fixes/C13-complete-stage-error-path-event.diff) *)
Theorem C13_stage_error_path_fixed :
  complete_stage_every_store_records = true ->
  forall s i tag k cut, quiescent s -> fresh tag s -> (cut = OCrash \/ cut = OAbort) ->
    has_event_tag tag (durable (trun true s (firstn k (lstep_ops tag (LCompleteStageErr i)) ++ [cut])))
    = has_write_tag tag (durable (trun true s (firstn k (lstep_ops tag (LCompleteStageErr i)) ++ [cut]))).
Proof. exact stage_error_path_fixed. Qed.

(* 7. observation (not in C13's atomicity clause, which names completions by the task- / stage-completion step): the handlers
      that record AFTER their transaction (StartWorkflow, StartStage, StartTask, CancelStage) have a crash point at which the
      status is durable and the event is not. *)
Theorem C13_after_txn_window_observation : forall st,
  lstep_pos st = AfterTxn -> snd (record_of 5 st) <> [] -> fst (record_of 5 st) <> [] ->
  Forall (fun w => wr_tag w = 5) (fst (record_of 5 st)) ->
  exists k,
    has_write_tag 5 (durable (trun true init_tstate (firstn k (lstep_ops 5 st) ++ [OCrash]))) = true
    /\ db_log (durable (trun true init_tstate (firstn k (lstep_ops 5 st) ++ [OCrash]))) = [].
Proof. exact after_txn_window. Qed.

Example C13_after_txn_handlers :
  map lstep_pos [LStartWorkflow; LStartStage 1; LStartTask 1; LCancelStage 1 [2]; LSkipStage 1; LCompleteWorkflow SUCCEEDED;
                 LCompleteTask 1 SUCCEEDED; LCompleteStage 1 SUCCEEDED]
  = [AfterTxn; AfterTxn; AfterTxn; AfterTxn; BeforeTxn; BeforeTxn; InTxn; InTxn].
Proof. reflexivity. Qed.

Print Assumptions C13_atomic.
Print Assumptions C13_atomic_complete_task.
Print Assumptions C13_complete_task_never_lacks_event.
Print Assumptions C13_atomic_complete_stage.
Print Assumptions C13_complete_stage_never_lacks_event.
Print Assumptions C13_publish_after_commit.
Print Assumptions C13_aborted_scope_publishes_nothing.
Print Assumptions C13_committed_scope_publishes.
Print Assumptions C13_sequence.
Print Assumptions C13_log_sorted.
Print Assumptions C13_publish_nested_refuted.
Print Assumptions C13_stage_error_path_refuted.
Print Assumptions C13_stage_error_path_fixed.
Print Assumptions C13_after_txn_window_observation.
