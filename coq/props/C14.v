(* C14 -- transient failures: bounded number of retries, saved progress is kept; a RUNNING result is polled again
   without losing its context.

   Statements only; proofs in coq/proofs/RetryP.v.  Two models:
     model/Retry.v   the queue round trip of the retry message (serialise -> INSERT attempts = 0 -> poll_one:
                     attempts := row + 1, the carried value popped), composed from generated definitions
                     (Gen_Guards.retry_guard, Gen_Queue, Gen_Messages.deser_popped, Gen_Retry);
     model/Engine.v  the RunTask handler at commit granularity (validated against the real engine commit by commit).

   RESULT.  The bounded half of the property is FALSE on the current tree (known finding "retries-unbounded", design
   finding F1): C14_round_trip shows that the attempt count a retry delivery sees is always 1, C14_unbounded_refuted /
   C14_unbounded_engine_refuted give, for every n, a run with n executions and the task still RUNNING.  C14_guard_bounded
   states what the guard WOULD give if the carried count survived the queue (the repaired behaviour, a hypothesis on the
   delivery function).  The other halves hold: redelivery of one row is bounded (C14_same_row_bounded) and the saved
   progress is committed atomically with the retry message (the C14_progress_kept theorems). *)
From Coq Require Import List Bool Arith ZArith Lia.
Import ListNotations.
From Stab.model Require Import Base StatusM Readiness StageStat Engine Retry.
From Stab.gen Require Import Gen_Config Gen_Guards Gen_Queue Gen_Retry.
From Stab.proofs Require Import EngineEx RetryP.
Local Open Scope nat_scope.

(* ---------------------------------------------------------------------------------------------- *)
(* 1. the round trip                                                                               *)

(* The attempt count seen by the next delivery of a retry chain, as a function of the one seen now: it does not depend
   on it at all -- the retry message is a fresh row, and a fresh row shows 1. *)
Theorem C14_round_trip : forall seen,
  round_trip seen = (if retry_guard seen default_max_attempts then first_seen else None) /\ first_seen = Some 1%Z.
Proof. exact (fun seen => conj (round_trip_forgets seen) first_seen_is_one). Qed.

(* "strictly increasing" (what a bounded retry needs) is refuted by a witness *)
Theorem C14_round_trip_increasing_refuted : exists seen, round_trip seen = Some 1%Z /\ (1 < seen)%Z.
Proof. exact round_trip_not_increasing. Qed.

(* the retry chain of a task that always raises TransientError, on the round trip as it is: n deliveries give n
   executions and the chain is still retrying, for every n *)
Theorem C14_unbounded_refuted : forall n, chain round_trip default_max_attempts n 1%Z = (n, StillRetrying).
Proof. exact chain_unbounded. Qed.

(* ---------------------------------------------------------------------------------------------- *)
(* 2. the same fact on the engine model                                                            *)

(* from ANY state in which a fresh RunTask row for a RUNNING task of a live workflow is queued, and for ANY task that
   keeps raising TransientError: for every n there is a schedule (deliver the newest RunTask row each time) with n more
   executions after which such a row is queued again *)
Theorem C14_unbounded_engine_general : forall orc i t, transient_forever orc i t -> forall n s id,
  retry_ready s id i t ->
  exists acts, length acts = n /\
    let s' := run orc s acts in
    count_execs s' i t = n + count_execs s i t /\ w_status s' = w_status s /\ exists id', retry_ready s' id' i t.
Proof. exact retry_forever. Qed.

(* the closed statement: the one-stage one-task workflow, submitted and run in order *)
Theorem C14_unbounded_engine_refuted : forall orc, transient_forever orc 0 0 -> forall n,
  exists acts, let s := run orc one_task_workflow acts in
    n <= count_execs s 0 0 /\ task_status s 0 0 = Some RUNNING /\ w_status s = RUNNING.
Proof. exact unbounded_engine. Qed.

(* non-vacuity: such tasks exist, and the premise of the general theorem is reached by the real start-up sequence *)
Definition always_transient (c : kv) : oracle := fun _ _ _ => RTransient c.

Example C14_transient_forever_inhabited : transient_forever (always_transient [(1, 5%Z)]) 0 0.
Proof. intros n. exists [(1, 5%Z)]. reflexivity. Qed.

Example C14_retry_ready_reached : forall orc, retry_ready (run orc one_task_workflow warm_up) 4 0 0.
Proof. exact (fun orc => proj1 (warm_up_ready orc)). Qed.

(* engine-level witnesses by computation (honest names: these are single runs, the theorems above are the general fact):
   12, 25 executions > default_max_attempts = 10, task, stage and workflow still RUNNING, the saved key present *)
Example C14_engine_run_12 :
  let s := drain (always_transient [(1, 5%Z)]) 15 (step (always_transient [(1, 5%Z)]) one_task_workflow Submit) in
  count_execs s 0 0 = 12 /\ (Z.of_nat (count_execs s 0 0) > default_max_attempts)%Z /\
  task_status s 0 0 = Some RUNNING /\ statuses s = (RUNNING, [RUNNING]) /\
  option_map (kv_get 1) (stage_ctx s 0) = Some (Some 5%Z) /\ map q_attempts (w_queue s) = [0%Z].
Proof. vm_compute. repeat split. Qed.

Example C14_engine_run_25 :
  let s := drain (always_transient []) 28 (step (always_transient []) one_task_workflow Submit) in
  count_execs s 0 0 = 25 /\ task_status s 0 0 = Some RUNNING /\ statuses s = (RUNNING, [RUNNING]).
Proof. vm_compute. repeat split. Qed.

(* ---------------------------------------------------------------------------------------------- *)
(* 3. what the guard gives IF the delivered attempts grew by one per retry (the repaired behaviour) *)

(* for any budget and any first-seen count: at most max 1 (budget - seen) executions, and with enough deliveries exactly
   that many, the last one taking the terminal path *)
Theorem C14_guard_bounded : forall deliver budget,
  grows_by_one deliver ->
  forall fuel seen,
    (fst (chain deliver budget fuel seen) <= expected_execs budget seen)%nat /\
    (expected_execs budget seen <= fuel -> chain deliver budget fuel seen = (expected_execs budget seen, Terminal))%nat.
Proof. exact chain_bounded. Qed.

(* with the default budget and a first delivery that sees 1: default_max_attempts - 1 executions.  The exact count is
   pinned: changing `<` to `<=` in handle_exception (or the default) changes it and breaks this Example. *)
Example C14_guard_bound_default :
  expected_execs default_max_attempts 1 = Z.to_nat (default_max_attempts - 1) /\
  chain carried_delivery default_max_attempts 50 1%Z = (9, Terminal) /\ grows_by_one carried_delivery.
Proof. split; [reflexivity|]. split; [vm_compute; reflexivity|exact carried_grows]. Qed.

(* the engine takes exactly that decision, and the terminal path is ONE commit: exception recorded on the stage, message
   marked processed, CompleteTask(failure_status) pushed *)
Theorem C14_guard_is_the_engine_decision : forall s id i t st a c,
  handle_exception s id i t st a (RTransient c) =
  if retry_guard a default_max_attempts then [retry_commit i t st c] else mark_terminal id i t st.
Proof. exact handle_exception_transient. Qed.

Theorem C14_terminal_commit : forall id i t st,
  mark_terminal id i t st =
  [[OPut i (st_exc st); OMark id; OPush (MCompleteTask i t (failure_status (s_cof st) (s_fp st) TERMINAL))]].
Proof. exact mark_terminal_shape. Qed.

(* ---------------------------------------------------------------------------------------------- *)
(* 4. redelivery of the SAME row is bounded                                                        *)

(* any sequence of deliveries of one RunTask row -- acked or not, crashed after any number of commits -- executes tasks
   at most (queue_max_attempts - attempts already used) times: poll_one's attempts filter *)
Theorem C14_same_row_bounded : forall orc id acts s,
  id < w_next s -> run_task_row s id -> Forall (on_row id) acts ->
  length (g_execs (run orc s acts)) <= length (g_execs s) + attempts_left s id.
Proof. exact same_row_bounded. Qed.

Theorem C14_hidden_row_is_dead : forall orc s id r a,
  find_row s id = Some r -> (queue_max_attempts <= q_attempts r)%Z -> on_row id a -> step orc s a = s.
Proof. exact hidden_row_noop. Qed.

(* the same on the round-trip model: the k-th redelivery of a row sees attempts + k + 1 until the filter hides it *)
Theorem C14_redelivery_counts : forall k r,
  redeliver k r = if (r_attempts r + Z.of_nat k <? queue_max_attempts)%Z
                  then Some (r_attempts r + Z.of_nat k + 1)%Z else None.
Proof. exact redeliver_spec. Qed.

(* non-vacuity + tightness: the worker dies right after the poll commit, 14 times over: the task is executed exactly
   queue_max_attempts = 10 times, then the row is hidden; with the processed mark in place (no crash) only once *)
Example C14_same_row_witness :
  let orc := always_transient [] in
  let s0 := run orc one_task_workflow warm_up in
  id_lt_next s0 4 = true /\ attempts_left s0 4 = 10 /\
  count_execs (run orc s0 (repeat (DeliverCut 4 1) 14)) 0 0 = 10 /\
  count_execs (run orc s0 (repeat (Deliver 4 false) 14)) 0 0 = 1.
Proof. vm_compute. repeat split. Qed.

(* ---------------------------------------------------------------------------------------------- *)
(* 5. saved progress                                                                               *)

(* a TransientError within the budget (context_update c) and a RUNNING result (context c): the handler's commits are
   exactly ONE commit, and it holds both the context store and the push of the next RunTask *)
Theorem C14_progress_kept_one_commit : forall orc s id do_ack r0 i t st tk c,
  find_row s id = Some r0 -> q_msg r0 = MRunTask i t -> (q_attempts r0 < queue_max_attempts)%Z ->
  mem_nat id (w_processed s) = false ->
  get_stage s i = Some st -> nth_error (s_tasks st) t = Some tk -> t_status tk = RUNNING ->
  w_canceled s = false -> is_complete (w_status s) = false -> status_eqb (w_status s) PAUSED = false ->
  kept_ctx (orc i t (count_execs s i t)) = Some c ->
  (forall c', orc i t (count_execs s i t) = RTransient c' -> retry_guard (q_attempts r0 + 1) default_max_attempts = true) ->
  exists one : commit,
    delivery_commits orc s id do_ack =
      Some {| d_poll := [OBump id]; d_pre := Some (i, t);
              d_rest := one :: [OMark id] :: (if do_ack then [[OAck id]] else []) |} /\
    (one = retry_commit i t st c \/ one = [store_ctx i st c; OPush (MRunTask i t)]).
Proof. exact delivery_keeps_progress. Qed.

(* after that commit the stage's context is ctx ∪ update (right operand wins) and the new RunTask row is queued *)
Theorem C14_progress_kept_effect : forall s i t st c,
  get_stage s i = Some st ->
  let s' := apply_commit s (retry_commit i t st c) in
  stage_ctx s' i = Some (kv_update (s_ctx st) c) /\
  w_queue s' = w_queue s ++ [{| q_id := w_next s; q_msg := MRunTask i t; q_attempts := 0 |}].
Proof. exact retry_commit_effect. Qed.

Theorem C14_progress_kept_effect_running : forall s i t st c st1,
  get_stage s i = Some st1 ->
  let s' := apply_commit s [store_ctx i st c; OPush (MRunTask i t)] in
  stage_ctx s' i = Some (kv_update (s_ctx st) c) /\
  w_queue s' = w_queue s ++ [{| q_id := w_next s; q_msg := MRunTask i t; q_attempts := 0 |}].
Proof. exact store_and_push_effect. Qed.

(* what the next execution reads: every key of the update with its last value, every other key unchanged *)
Theorem C14_progress_kept_values : forall k c m,
  kv_get k (kv_update m c) = match last_binding k c with Some v => Some v | None => kv_get k m end.
Proof. exact kept_values. Qed.

(* across a crash: wherever the delivery is cut, the next RunTask row is durable only together with the saved context
   (either both are there or neither and the stages are untouched) *)
Theorem C14_progress_kept_across_cut : forall orc s id r0 i t st tk c k,
  find_row s id = Some r0 -> q_msg r0 = MRunTask i t -> (q_attempts r0 < queue_max_attempts)%Z ->
  mem_nat id (w_processed s) = false ->
  get_stage s i = Some st -> nth_error (s_tasks st) t = Some tk -> t_status tk = RUNNING ->
  w_canceled s = false -> is_complete (w_status s) = false -> status_eqb (w_status s) PAUSED = false ->
  kept_ctx (orc i t (count_execs s i t)) = Some c ->
  (forall c', orc i t (count_execs s i t) = RTransient c' -> retry_guard (q_attempts r0 + 1) default_max_attempts = true) ->
  Forall (fun r => q_id r < w_next s) (w_queue s) ->
  let s' := step orc s (DeliverCut id k) in
  (has_row s' (w_next s) (MRunTask i t) /\ stage_ctx s' i = Some (kv_update (s_ctx st) c)) \/
  (find_row s' (w_next s) = None /\ w_stages s' = w_stages s).
Proof. exact progress_atomic_under_cut. Qed.

(* non-vacuity: the premises hold in the warmed-up workflow for a transient failure and for a RUNNING result, both
   branches of the cut theorem occur, and the next attempt's context shows the saved value *)
Definition running_then_ok : oracle := fun _ _ n => match n with O => RRunning [(2, 7%Z)] | _ => RSucceed [] end.

Example C14_progress_witness :
  let orc := always_transient [(1, 5%Z)] in
  let s0 := run orc one_task_workflow warm_up in
  find_row s0 4 = Some {| q_id := 4; q_msg := MRunTask 0 0; q_attempts := 0 |} /\
  kept_ctx (orc 0 0 (count_execs s0 0 0)) = Some [(1, 5%Z)] /\
  retry_guard (0 + 1) default_max_attempts = true /\
  find_row (step orc s0 (DeliverCut 4 1)) 5 = None /\
  option_map q_msg (find_row (step orc s0 (DeliverCut 4 2)) 5) = Some (MRunTask 0 0) /\
  stage_ctx (step orc s0 (DeliverCut 4 2)) 0 = Some [(1, 5%Z)] /\
  stage_ctx (step running_then_ok (run running_then_ok one_task_workflow warm_up) (Deliver 4 true)) 0 = Some [(2, 7%Z)].
Proof. vm_compute. repeat split. Qed.

Print Assumptions C14_round_trip.
Print Assumptions C14_round_trip_increasing_refuted.
Print Assumptions C14_unbounded_refuted.
Print Assumptions C14_unbounded_engine_general.
Print Assumptions C14_unbounded_engine_refuted.
Print Assumptions C14_guard_bounded.
Print Assumptions C14_guard_is_the_engine_decision.
Print Assumptions C14_terminal_commit.
Print Assumptions C14_same_row_bounded.
Print Assumptions C14_hidden_row_is_dead.
Print Assumptions C14_redelivery_counts.
Print Assumptions C14_progress_kept_one_commit.
Print Assumptions C14_progress_kept_effect.
Print Assumptions C14_progress_kept_effect_running.
Print Assumptions C14_progress_kept_values.
Print Assumptions C14_progress_kept_across_cut.
