(* C15 -- jump loops are bounded and always terminate; a backward jump re-arms exactly the target and the stages that
   depend only on it; a forward jump marks the bypassed stages skipped and never runs them.

   Statements only; proofs in coq/proofs/JumpP.v; everything is about coq/model/Engine.v:handle_jump and its helpers
   (closed_downstream = get_resettable_downstream_stages / get_skippable_downstream_stages, all_dependents =
   get_downstream_stages), validated against the real engine commit by commit and against the real traversal functions
   (harness/props/c15.py).  model/JumpM.v only names sub-expressions of handle_jump.

   Reading guide.  `jump_effect s src i tg jctx k st` is what an accepted jump from source i (row src) to target tg
   does to the row st of stage k: target -> jump_tgt_fn (re-armed, bypass flag, count), source -> jump_src_fn
   (re-armed if backward, SUCCEEDED if forward), members of closed_downstream tg -> reset_for_retry, NOT_STARTED members
   of the skipped set -> to_skipped, every other stage -> unchanged; and every synthetic child (before / after /
   on-failure stage) of a re-armed stage -> reset_for_retry (JumpToStageHandler._synthetic_reset_mutations).
   `cnt s i` / `emax s i`: context._jump_count of stage i / the effective _max_jumps for it (workflow context, then stage
   context, then DEFAULT_MAX_JUMPS). *)
From Coq Require Import List Bool Arith ZArith Lia.
Import ListNotations.
From Stab.model Require Import Base StatusM Readiness StageStat Engine JumpM.
From Stab.gen Require Import Gen_Config Gen_Guards.
From Stab.proofs Require Import EngineLegal EngineEx JumpP.
Local Open Scope nat_scope.

(* ---------------------------------------------------------------------------------------------- *)
(* 1. the budget                                                                                   *)

(* an accepted jump needs budget (count < max), is ONE commit (all mutations + processed mark + StartStage(target)) and
   does exactly jump_effect to every stage -- this is also C15_rearm_exact, see section 3 *)
Theorem C15_budget_accept : forall s id i tg jctx src tgt,
  get_stage s i = Some src -> w_canceled s = false -> get_stage s tg = Some tgt ->
  jump_exhausted (s_jump_count src) (effective_max_jumps s src) = false ->
  (s_jump_count src < effective_max_jumps s src)%Z /\
  exists c, h_commits (handle_jump s id i tg jctx) = [c] /\ h_raised (handle_jump s id i tg jctx) = false /\
    In (OMark id) c /\ In (OPush (MStartStage tg 0)) c /\ (forall m, In (OPush m) c -> m = MStartStage tg 0) /\
    wf_after (w_status s) c = w_status s /\
    forall k, nth_error (stages_after (w_stages s) c) k =
              option_map (jump_effect s src i tg jctx k) (nth_error (w_stages s) k).
Proof.
  exact (fun s id i tg jctx src tgt Hs Hc Ht Hx =>
           conj (proj1 (not_exhausted_lt _ _) Hx) (jump_exact s id i tg jctx src tgt Hs Hc Ht Hx)).
Qed.

(* it writes count := old + 1 on the source AND on the target: along source -> target -> source the carried count
   strictly increases *)
Theorem C15_budget_count_written : forall s src i tg jctx st,
  s_jump_count (jump_effect s src i tg jctx i st) = (s_jump_count src + 1)%Z /\
  s_jump_count (jump_effect s src i tg jctx tg st) = (s_jump_count src + 1)%Z.
Proof. exact jump_counts_after. Qed.

(* the request that finds the budget spent (or no target): ONE commit -- source := TERMINAL, processed mark,
   CompleteStage(source) -- and no other stage is touched *)
Theorem C15_budget_exhausted : forall s id i tg jctx src tgt,
  get_stage s i = Some src -> w_canceled s = false -> get_stage s tg = Some tgt ->
  jump_exhausted (s_jump_count src) (effective_max_jumps s src) = true ->
  handle_jump s id i tg jctx = ok [[OMut i to_terminal; OMark id; OPush (MCompleteStage i)]] /\
  (forall l k, nth_error (stages_after l [OMut i to_terminal; OMark id; OPush (MCompleteStage i)]) k =
               option_map (fun st => if i =? k then to_terminal st else st) (nth_error l k)) /\
  (forall st, s_status (to_terminal st) = TERMINAL /\ s_ended (to_terminal st) = true /\
              s_jump_count (to_terminal st) = s_jump_count st).
Proof.
  exact (fun s id i tg jctx src tgt Hs Hc Ht Hx =>
           conj (jump_exhausted_commit s id i tg jctx src tgt Hs Hc Ht Hx)
                (conj (fun l k => fail_source_effect l id i k) terminal_fn_facts)).
Qed.

(* the budget as a counter machine: from count c with maximum m, any number of requests has at most max 0 (m - c)
   accepts; with enough requests exactly that many; once refused, refused for ever *)
Theorem C15_budget_counter : forall m,
  (forall n c, fst (budget_run m c n) <= Z.to_nat (m - c) /\ (c <= snd (budget_run m c n))%Z /\
               (snd (budget_run m c n) <= Z.max c m)%Z) /\
  (forall n c, (c <= m)%Z -> Z.to_nat (m - c) <= n -> budget_run m c n = (Z.to_nat (m - c), m)) /\
  (forall n c, jump_exhausted c m = true -> budget_run m c n = (0, c)).
Proof. exact (fun m => conj (budget_run_bound m) (conj (budget_run_exact m) (fun n c => budget_run_exhausted m c n))). Qed.

(* every step of the engine, whatever the action (deliveries with or without ack, crash cuts, recovery sweeps, cancel,
   signals): unless it delivers a jump INTO stage i from another stage, the count of an EXISTING stage i is unchanged or
   goes up by one while it was below the maximum; the maximum never changes.  (_jump_count and _max_jumps of an existing
   row are written by nothing but JumpToStage: proved handler by handler.  A plan / completion commit may APPEND new
   synthetic rows -- OAdd -- which is why the statement is about the rows that exist before the step: the budget fields
   of the old rows are a prefix of the new ones, JumpP.same_rows / same_rows_prefix.) *)
Theorem C15_budget_step : forall orc s a i,
  i < length (w_stages s) -> ~ foreign_jump_into s i a -> budget_move s (step orc s a) i.
Proof. exact step_budget. Qed.

(* rows are only ever appended: an existing stage keeps its index *)
Theorem C15_rows_only_grow : forall orc s a, length (w_stages s) <= length (w_stages (step orc s a)).
Proof. exact step_length. Qed.

(* hence along ANY run without such foreign jumps (self loops, cycles with one jumping stage, loops with side branches):
   at most max - count steps raise the count, and it never exceeds the maximum *)
Theorem C15_budget_run_partial : forall orc i acts s,
  i < length (w_stages s) -> no_foreign orc s i acts ->
  raises orc s i acts <= Z.to_nat (emax s i - cnt s i) /\
  (cnt s i <= cnt (run orc s acts) i)%Z /\ (cnt (run orc s acts) i <= Z.max (cnt s i) (emax s i))%Z /\
  emax (run orc s acts) i = emax s i.
Proof. exact run_budget. Qed.
(* _partial: (1) with SEVERAL jumping stages a jump into i from a stage with a smaller count lowers i's count; the number
   of accepted jumps is still finite (the multiset of max - count decreases in the Dershowitz-Manna order) but that
   argument is not formalised; (2) termination of the whole run (the queue drains) additionally needs the token measure
   of C05, which the open finding "stuck:RUNNING[REDIRECT]" shows to be false for shuffled delivery. *)

(* each accepted jump IS such a raising step, and the refused one fails the source: the link between the two above *)
Theorem C15_accepted_jump_raises : forall orc s id do_ack r i tg c o src tgt,
  find_row s id = Some r -> q_msg r = MJumpToStage i tg c o -> (q_attempts r < queue_max_attempts)%Z ->
  mem_nat id (w_processed s) = false ->
  get_stage s i = Some src -> w_canceled s = false -> get_stage s tg = Some tgt ->
  jump_exhausted (s_jump_count src) (effective_max_jumps s src) = false ->
  let s' := step orc s (Deliver id do_ack) in
  cnt s' i = (cnt s i + 1)%Z /\ cnt s' tg = (cnt s i + 1)%Z /\ (cnt s i < emax s i)%Z /\
  option_map s_status (get_stage s' tg) = Some NOT_STARTED /\ option_map s_bypass (get_stage s' tg) = Some true.
Proof. exact accepted_jump_raises. Qed.

Theorem C15_exhausted_jump_fails_source : forall orc s id do_ack r i tg c o src tgt,
  find_row s id = Some r -> q_msg r = MJumpToStage i tg c o -> (q_attempts r < queue_max_attempts)%Z ->
  mem_nat id (w_processed s) = false ->
  get_stage s i = Some src -> w_canceled s = false -> get_stage s tg = Some tgt ->
  jump_exhausted (s_jump_count src) (effective_max_jumps s src) = true ->
  let s' := step orc s (Deliver id do_ack) in
  h_commits (handle_jump (bump_attempts id s) id i tg c) = [fail_source_commit id i] /\
  (forall k, get_stage s' k = option_map (fun st => if i =? k then to_terminal st else st) (get_stage s k)) /\
  option_map s_status (get_stage s' i) = Some TERMINAL /\ cnt s' i = cnt s i.
Proof. exact exhausted_jump_fails_source. Qed.

(* ---------------------------------------------------------------------------------------------- *)
(* 2. the traversals, for ANY graph (no acyclicity or index-order assumption)                       *)

(* closed_downstream s tg is the LEAST set of stages such that a stage all of whose (non-empty) requisites lie in
   {tg} + set belongs to it: soundness, completeness (so the fuel S(number of stages) suffices: the iteration stopped
   because a whole scan added nothing), minimality, no duplicates, never the seed *)
Theorem C15_resettable_spec : forall s tg,
  (forall j, In j (closed_downstream s tg) ->
     j < length (w_stages s) /\ j <> tg /\ reqs_of s j <> [] /\
     forall r, In r (reqs_of s j) -> r = tg \/ In r (closed_downstream s tg)) /\
  (forall j, j < length (w_stages s) -> j <> tg -> reqs_of s j <> [] ->
     (forall r, In r (reqs_of s j) -> r = tg \/ In r (closed_downstream s tg)) -> In j (closed_downstream s tg)) /\
  (forall X : nat -> Prop, X tg ->
     (forall j, j < length (w_stages s) -> reqs_of s j <> [] -> (forall r, In r (reqs_of s j) -> X r) -> X j) ->
     forall j, In j (closed_downstream s tg) -> X j) /\
  NoDup (closed_downstream s tg) /\ ~ In tg (closed_downstream s tg).
Proof.
  exact (fun s tg => conj (closed_sound s tg) (conj (closed_complete s tg) (conj (closed_least s tg)
                       (conj (closed_nodup s tg) (seed_not_closed s tg))))).
Qed.

(* all_dependents s tg = the transitive dependents of tg (at least one edge; every stage on the way exists) *)
Theorem C15_dependents_spec : forall s tg j, In j (all_dependents s tg) <-> depends_on s tg j.
Proof. exact (fun s tg j => conj (deps_sound s tg j) (deps_complete s tg j)). Qed.

(* the fan-in-respecting closure is inside the naive one: a re-armed stage is never in the skipped set *)
Theorem C15_closed_in_dependents : forall s tg j, In j (closed_downstream s tg) -> In j (all_dependents s tg).
Proof. exact closed_in_deps. Qed.

(* ---------------------------------------------------------------------------------------------- *)
(* 3. exactly which stages are re-armed / skipped                                                   *)

(* C15_rearm_exact is the last conjunct of C15_budget_accept (stages after = jump_effect of stages before, for EVERY stage,
   synthetic children included: JumpM.jump_effect follows the four segments of the commit).  Here is what jump_effect
   means per class of stage, for a stage that is not a synthetic child of a re-armed stage (rearm_kids: the children of
   the re-armed downstream stages, of the source of a backward jump and of the target) *)
Theorem C15_rearm_exact : forall s src i tg jctx k st,
  mem_nat k (rearm_kids s i tg) = false ->
  let st' := jump_effect s src i tg jctx k st in
  (* target: re-armed, bypass flag set, jump context merged *)
  (k = tg -> s_status st' = NOT_STARTED /\ all_tasks NOT_STARTED st' /\ s_bypass st' = true /\
             s_ctx st' = kv_update (s_ctx st) jctx) /\
  (* source of a backward jump: re-armed; of a forward jump: SUCCEEDED *)
  (k = i -> k <> tg -> s_status st' = (if jump_backward s i tg then NOT_STARTED else SUCCEEDED) /\
                       (jump_backward s i tg = true -> all_tasks NOT_STARTED st')) /\
  (* stages that depend only on the target: re-armed *)
  (k <> tg -> k <> i -> In k (closed_downstream s tg) -> st' = reset_for_retry st /\ s_status st' = NOT_STARTED /\
                        all_tasks NOT_STARTED st') /\
  (* forward jump: NOT_STARTED stages that depend only on the source and are not in the target's chain: SKIPPED *)
  (k <> tg -> k <> i -> ~ In k (closed_downstream s tg) -> mem_nat k (jump_skipped s i tg) = true ->
     st' = to_skipped st /\ s_status st' = SKIPPED /\ all_tasks SKIPPED st') /\
  (* every other stage: untouched *)
  (k <> tg -> k <> i -> ~ In k (closed_downstream s tg) -> mem_nat k (jump_skipped s i tg) = false -> st' = st).
Proof. exact jump_effect_classes. Qed.

(* such a stage is treated exactly as if there were no synthetic stages at all *)
Theorem C15_rearm_exact_top : forall s src i tg jctx k st,
  mem_nat k (rearm_kids s i tg) = false -> jump_effect s src i tg jctx k st = jump_effect_top s src i tg jctx k st.
Proof. exact jump_effect_no_kid. Qed.

(* _synthetic_reset_mutations: the synthetic children of a re-armed stage (a re-armed downstream stage, the source of a
   backward jump, the target) are re-armed in the same commit: NOT_STARTED, every task NOT_STARTED.  For a child of the
   target or of the source nothing else can interfere (its reset is the last write to it); a child of a re-armed
   downstream stage could in principle also be in the skipped set or be the forward source, which come later in the
   commit, hence the side condition *)
Theorem C15_rearm_children : forall s src i tg jctx k p st,
  In k (children s p) -> In p (rearm_parents s i tg) ->
  (p = tg \/ (p = i /\ i <> tg) \/
   (mem_nat k (jump_skipped s i tg) = false /\ (k <> i \/ jump_backward s i tg = true))) ->
  rearmed (jump_effect s src i tg jctx k st).
Proof. exact rearmed_children. Qed.

(* who the re-armed parents are *)
Theorem C15_rearm_parents : forall s i tg p,
  In p (rearm_parents s i tg) <->
  In p (jump_resets s i tg) \/ (p = i /\ i <> tg /\ jump_backward s i tg = true) \/ p = tg.
Proof. exact rearm_parents_spec. Qed.

(* and an ordinary child (not itself the source, the target, a re-armed downstream stage or a skipped stage) is reset
   exactly once -- every stage has at most one parent, and each re-armed parent occurs once in the commit *)
Theorem C15_child_reset_once : forall s src i tg jctx k p st,
  In k (children s p) -> In p (rearm_parents s i tg) ->
  k <> i -> k <> tg -> ~ In k (closed_downstream s tg) -> mem_nat k (jump_skipped s i tg) = false ->
  jump_effect s src i tg jctx k st = reset_for_retry st.
Proof. exact child_reset_once. Qed.

(* who is in the skipped set *)
Theorem C15_skipped_members : forall s i tg k,
  mem_nat k (jump_skipped s i tg) = true ->
  jump_backward s i tg = false /\ In k (closed_downstream s i) /\ k <> tg /\ ~ In k (all_dependents s tg) /\
  not_started_at s k = true.
Proof. exact skipped_facts. Qed.

(* ---------------------------------------------------------------------------------------------- *)
(* 4. F4: with the cancel flag durable the handler only marks the message                           *)
Theorem C15_canceled_noop : forall s id i tg jctx src,
  get_stage s i = Some src -> w_canceled s = true -> handle_jump s id i tg jctx = ok [[OMark id]].
Proof. exact jump_canceled_noop. Qed.

(* ---------------------------------------------------------------------------------------------- *)
(* non-vacuity                                                                                      *)

(* a stage that always asks to jump to itself, default budget: 10 accepted jumps (11 executions), then the stage and the
   workflow are TERMINAL and the queue is empty; with _max_jumps = 2 on the workflow: 3 executions; with 0: 1 execution.
   The FIFO schedule meets the premise of C15_budget_run_partial and raises the count exactly max times. *)
Definition always_jump (tg : nat) : oracle := fun i _ _ => match i with O => RJump tg | _ => RSucceed [] end.
Definition loop2 (wmax : option Z) : state := init_state [ex_stage [] 1; ex_stage [0] 1] wmax.

Example C15_self_loop_default :
  let orc := always_jump 0 in
  let s0 := step orc (loop2 None) Submit in
  let acts := fifo_acts orc 200 s0 in
  let s := run orc s0 acts in
  0 < length (w_stages s0) /\
  no_foreignb orc s0 0 acts = true /\ raises orc s0 0 acts = 10 /\ emax s0 0 = default_max_jumps /\
  cnt s 0 = 10%Z /\ count_execs s 0 0 = 11 /\ statuses s = (TERMINAL, [TERMINAL; NOT_STARTED]) /\ w_queue s = [].
Proof. vm_compute. split; [lia|]. repeat split. Qed.

Example C15_self_loop_limits :
  let orc := always_jump 0 in
  map (fun m => let s := drain orc 200 (step orc (loop2 (Some m)) Submit) in (count_execs s 0 0, cnt s 0, statuses s))
      [0%Z; 1%Z; 2%Z] =
  [(1, 0%Z, (TERMINAL, [TERMINAL; NOT_STARTED])); (2, 1%Z, (TERMINAL, [TERMINAL; NOT_STARTED]));
   (3, 2%Z, (TERMINAL, [TERMINAL; NOT_STARTED]))].
Proof. vm_compute. reflexivity. Qed.

(* a two-stage cycle A -> B, B jumps back to A twice then succeeds: A and B each run once per iteration *)
Definition cycle_oracle : oracle := fun i _ n => match i, n with 1, 0 | 1, 1 => RJump 0 | _, _ => RSucceed [] end.

Example C15_cycle_iterations :
  let s := drain cycle_oracle 200 (step cycle_oracle (init_state [ex_stage [] 1; ex_stage [0] 1; ex_stage [1] 1] None) Submit) in
  (count_execs s 0 0, count_execs s 1 0, count_execs s 2 0) = (3, 3, 1) /\ cnt s 1 = 2%Z /\
  statuses s = (SUCCEEDED, [SUCCEEDED; SUCCEEDED; SUCCEEDED]).
Proof. vm_compute. repeat split. Qed.

(* fan-in boundary: 0 -> {1, 2} -> 3 -> 4, where 4 also needs 5 (a root outside the loop): the closure of 0 stops at 4,
   the naive traversal does not *)
Definition fanin_graph : state :=
  init_state [ex_stage [] 1; ex_stage [0] 1; ex_stage [0] 1; ex_stage [1; 2] 1; ex_stage [3; 5] 1; ex_stage [] 1] None.

Example C15_traversal_witness :
  closed_downstream fanin_graph 0 = [1; 2; 3] /\ all_dependents fanin_graph 0 = [1; 2; 3; 4] /\
  closed_downstream fanin_graph 1 = [] /\ all_dependents fanin_graph 1 = [3; 4].
Proof. vm_compute. repeat split. Qed.

(* forward jump over a diamond: 0 jumps to 4 over {1, 2} -> 3: the bypassed stages are SKIPPED and never execute *)
Definition forward_oracle : oracle := fun i _ _ => match i with O => RJump 4 | _ => RSucceed [] end.
Definition diamond5 : state :=
  init_state [ex_stage [] 1; ex_stage [0] 1; ex_stage [0] 1; ex_stage [1; 2] 1; ex_stage [3] 1] None.

Example C15_forward_jump_witness :
  let s := drain forward_oracle 200 (step forward_oracle diamond5 Submit) in
  statuses s = (SUCCEEDED, [SUCCEEDED; SKIPPED; SKIPPED; SKIPPED; SUCCEEDED]) /\
  map (fun i => count_execs s i 0) [0; 1; 2; 3; 4] = [1; 0; 0; 0; 1] /\
  jump_backward diamond5 0 4 = false /\ skip_candidates diamond5 0 4 = [1; 2; 3].
Proof. vm_compute. repeat split. Qed.

(* jump x synthetic stages: A has a before and an after stage (rows 2 and 3, created while A runs), B jumps back to A once:
   both children run again in the second iteration, everything ends SUCCEEDED; at the jump both children are children of
   the target and nothing else *)
Definition jsyn_oracle : oracle := fun i _ n => match i, n with 1, 0 => RJump 0 | _, _ => RSucceed [] end.

Example C15_children_rearmed_witness :
  let s := drain jsyn_oracle 300 (step jsyn_oracle ex_syn Submit) in
  statuses s = (SUCCEEDED, [SUCCEEDED; SUCCEEDED; SUCCEEDED; SUCCEEDED]) /\
  map (fun i => count_execs s i 0) [0; 1; 2; 3] = [2; 2; 2; 2] /\ children s 0 = [2; 3] /\
  rearm_parents s 1 0 = [1; 0] /\ rearm_kids s 1 0 = [2; 3] /\ w_queue s = [].
Proof. vm_compute. repeat split. Qed.

Print Assumptions C15_budget_accept.
Print Assumptions C15_budget_count_written.
Print Assumptions C15_budget_exhausted.
Print Assumptions C15_budget_counter.
Print Assumptions C15_budget_step.
Print Assumptions C15_budget_run_partial.
Print Assumptions C15_rows_only_grow.
Print Assumptions C15_accepted_jump_raises.
Print Assumptions C15_exhausted_jump_fails_source.
Print Assumptions C15_resettable_spec.
Print Assumptions C15_dependents_spec.
Print Assumptions C15_closed_in_dependents.
Print Assumptions C15_rearm_exact.
Print Assumptions C15_rearm_exact_top.
Print Assumptions C15_rearm_children.
Print Assumptions C15_rearm_parents.
Print Assumptions C15_child_reset_once.
Print Assumptions C15_skipped_members.
Print Assumptions C15_canceled_noop.
