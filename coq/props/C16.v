(* C16 -- a stage sees exactly its ancestors' outputs, the nearest ancestor winning; lists accumulate;
   fan-in reducers combine all upstream branches, the order-insensitive ones independently of order.

   Statements only; proofs are in coq/proofs/DataFlowP.v and ReducersP.v, the executable model (the
   algorithm the Python runs) in coq/model/DataFlow.v and Reducers.v.

   Reading guide.  `plan_context d s order ups` is the context _plan_stage stores on stage s of graph d:
   get_merged_ancestor_outputs (BFS, Kahn, merge), then the reducers, then the stage's own context.
   `order` is the iteration order of the Python set `ancestors`, `ups` the row order of
   get_upstream_stages; `iteration_orders d s order ups` says only that they are permutations of the
   right sets, so every theorem below holds for EVERY iteration order.  Requisite sets are iterated in
   the order of `s_reqs`, and the theorems hold for every graph, hence every such order as well.
   `ancestor d a s`: a is a transitive requisite of s.  `wf_dag`: dict keys are unique (json.loads).
   `acyclic`: no dependency cycle (the engine validates this before a workflow runs). *)
From Coq Require Import List Bool Arith ZArith Lia Permutation Sorting.Sorted String.
Import ListNotations.
From Stab.gen Require Import Gen_Reducers.
From Stab.model Require Import Base Reducers DataFlow.
From Stab.proofs Require Import ReducersP DataFlowP.

(* ---------------------------------------------------------------------------------------------- *)
(* The loops terminate: BFS never exhausts its fuel and returns exactly the transitive requisites. *)
Theorem C16_bfs_exact : forall d s,
  exists anc, ancestors d s = Some anc /\ NoDup (s :: anc) /\
              forall x, In x anc <-> ancestor d x s /\ x <> s.
Proof. exact ancestors_spec. Qed.

(* Kahn, for every iteration order of the ancestor set (any duplicate-free `order` whose members have
   a row): no OutOfFuel, no duplicate, nothing outside the set; every member comes after each of its
   direct requisites inside the set; on an acyclic graph nothing is dropped. *)
Theorem C16_kahn_result : forall d order,
  NoDup order -> (forall a, In a order -> lookup d a <> None) ->
  exists sorted, merge_order d order = Ok sorted /\ NoDup sorted /\ incl sorted order /\
    (forall l1 v l2, sorted = l1 ++ v :: l2 -> forall r, direct d r v -> In r order -> In r l1) /\
    (acyclic d -> incl order sorted).
Proof. exact merge_order_spec. Qed.

(* C16_kahn_topological: the merge order lists exactly the ancestors of s, once each, and every ancestor
   after ALL of its own (transitive) ancestors -- whatever the iteration orders. *)
Theorem C16_kahn_topological : forall d s order ups sorted,
  acyclic d -> iteration_orders d s order ups ->
  merge_order d order = Ok sorted -> all_known d order = true ->
  NoDup sorted /\ (forall x, In x sorted <-> ancestor d x s) /\
  (forall a b, ancestor d a b -> In b sorted -> before sorted a b).
Proof. exact sorted_facts. Qed.

(* fuel suffices and, when every ancestor has a row, there is no KeyError: planning either succeeds
   or fails in a reducer (TypeError / ValueError, modelled explicitly) *)
Theorem C16_fuel_suffices : forall d s order ups st,
  lookup d s = Some st -> iteration_orders d s order ups ->
  (forall a, In a order -> lookup d a <> None) ->
  exists sorted, merge_order d order = Ok sorted /\
    plan_context d s order ups <> Err OutOfFuel /\ plan_context d s order ups <> Err KeyError.
Proof. exact plan_total. Qed.

(* ---------------------------------------------------------------------------------------------- *)
(* C16_visibility: key k is in the planned context iff the stage's own context has it (and no reducer
   shields it) or some transitive ancestor outputs it.  In particular the outputs of a stage that is
   not an ancestor never appear. *)
Theorem C16_visibility : forall d s order ups st c,
  wf_dag d -> acyclic d -> lookup d s = Some st -> iteration_orders d s order ups ->
  plan_context d s order ups = Ok c ->
  forall k, cget k c <> None <->
    (cget k (s_context st) <> None /\ is_reducer_key (s_reducers st) k = false) \/
    (exists a, ancestor d a s /\ cget k (outputs_of d a) <> None).
Proof. exact visibility. Qed.

(* "... and of no other stage", at the level of values: the planned context is a function of the
   stage's own row and its ancestors' rows.  Change any other stage in any way (outputs, context,
   reducers, even its requisites): the ancestors stay the same and so does what the stage sees. *)
Theorem C16_noninterference : forall d1 d2 s order ups,
  lookup d1 s = lookup d2 s -> (forall a, ancestor d1 a s -> lookup d1 a = lookup d2 a) ->
  iteration_orders d1 s order ups ->
  (forall a, ancestor d1 a s <-> ancestor d2 a s) /\
  plan_context d1 s order ups = plan_context d2 s order ups.
Proof. exact plan_noninterference. Qed.

(* ---------------------------------------------------------------------------------------------- *)
(* C16_precedence, own value: a non-list value set on the stage itself wins. *)
Theorem C16_precedence_own : forall d s order ups st c k a,
  wf_dag d -> lookup d s = Some st -> plan_context d s order ups = Ok c ->
  is_reducer_key (s_reducers st) k = false -> cget k (s_context st) = Some (VAtom a) ->
  cget k c = Some (VAtom a).
Proof. exact own_scalar_wins. Qed.

(* C16_precedence, nearest ancestor: otherwise, if every other ancestor that outputs k is itself an
   ancestor of m (m is the latest contributor on the dependency paths) and m outputs a non-list value,
   that value is seen -- independent of all iteration orders. *)
Theorem C16_precedence : forall d s order ups st c k m a,
  wf_dag d -> acyclic d -> lookup d s = Some st -> iteration_orders d s order ups ->
  plan_context d s order ups = Ok c ->
  is_reducer_key (s_reducers st) k = false -> cget k (s_context st) = None ->
  ancestor d m s -> cget k (outputs_of d m) = Some (VAtom a) ->
  (forall x, ancestor d x s -> cget k (outputs_of d x) <> None -> x = m \/ ancestor d x m) ->
  cget k c = Some (VAtom a).
Proof. exact nearest_ancestor_wins. Qed.

(* Path-ordered keys in general (non-list or list values): when the ancestors that output k form a
   chain of the dependency relation, the planned value is the merge rule folded along the chain, then
   the own context -- the same for all iteration orders. *)
Theorem C16_path_ordered : forall d s order ups st c k chain,
  wf_dag d -> acyclic d -> lookup d s = Some st -> iteration_orders d s order ups ->
  plan_context d s order ups = Ok c ->
  is_reducer_key (s_reducers st) k = false ->
  StronglySorted (ancestor d) chain ->
  (forall a, In a chain <-> ancestor d a s /\ cget k (outputs_of d a) <> None) ->
  cget k c = fold_left vstep (kvals d k chain ++ own_kval st k) None.
Proof. exact path_ordered. Qed.

(* C16_lists: a key whose contributions are all lists holds exactly the union of the contributors'
   items (ancestors and the stage itself), and no item twice if no contributor repeats one. *)
Theorem C16_lists : forall d s order ups st c k,
  wf_dag d -> acyclic d -> lookup d s = Some st -> iteration_orders d s order ups ->
  plan_context d s order ups = Ok c ->
  is_reducer_key (s_reducers st) k = false ->
  (forall a v, ancestor d a s -> cget k (outputs_of d a) = Some v -> is_list v) ->
  (forall v, cget k (s_context st) = Some v -> is_list v) ->
  forall v, cget k c = Some v ->
  exists L, v = VList L /\
    (forall x, In x L <-> (exists a l, ancestor d a s /\ cget k (outputs_of d a) = Some (VList l) /\ In x l)
                          \/ (exists l, cget k (s_context st) = Some (VList l) /\ In x l)) /\
    ((forall a l, ancestor d a s -> cget k (outputs_of d a) = Some (VList l) -> NoDup l) ->
     (forall l, cget k (s_context st) = Some (VList l) -> NoDup l) -> NoDup L).
Proof. exact lists_accumulate. Qed.

(* ---------------------------------------------------------------------------------------------- *)
(* Reducers *)
(* sum is order-insensitive on every input (a non-number is a TypeError in every order) *)
Theorem C16_reducers_sum : forall xs ys, Permutation xs ys -> red_sum xs = red_sum ys.
Proof. exact red_sum_perm. Qed.

(* max (gt = true) and min (gt = false) over integers, None skipped *)
Theorem C16_reducers_max_min : forall gt xs ys,
  forallb int_or_none xs = true -> Permutation xs ys -> red_extremum gt xs = red_extremum gt ys.
Proof. exact red_extremum_perm. Qed.

(* they combine ALL branches: sum adds every number; the extremum is attained and bounds every number *)
Theorem C16_reducers_sum_all : forall vs, forallb int_or_none vs = true -> red_sum vs = ROk (zsum vs).
Proof. exact red_sum_ints. Qed.

Theorem C16_reducers_extremum_all : forall gt vs z,
  forallb int_or_none vs = true -> red_extremum gt vs = ROk (VAtom (AInt z)) ->
  In z (ints vs) /\ forall x, In x (ints vs) -> if gt then (x <= z)%Z else (z <= x)%Z.
Proof. exact red_extremum_spec. Qed.

(* collect / append / extend: the same items with the same multiplicities, order follows the branches *)
Theorem C16_reducers_collect : forall xs ys, Permutation xs ys -> Permutation (red_collect xs) (red_collect ys).
Proof. exact red_collect_perm. Qed.

Theorem C16_reducers_extend : forall xs ys, Permutation xs ys -> Permutation (red_extend xs) (red_extend ys).
Proof. exact red_extend_perm. Qed.

Theorem C16_reducers_collect_all : forall vs x,
  In x (red_collect vs) <-> exists v, In v vs /\ (v = VAtom x \/ exists l, v = VList l /\ In x l).
Proof. exact red_collect_In. Qed.

(* merge: the same finite map when no key is bound by two branches *)
Theorem C16_reducers_merge : forall xs ys,
  Permutation xs ys -> key_disjoint xs -> forall k, dict_get k (red_merge xs) = dict_get k (red_merge ys).
Proof. exact red_merge_perm. Qed.

(* C16_reducers at the fan-in: apply_output_reducers gives the same result for every order in which
   the upstream branches are returned, when the configured reducers are sum / max / min over numbers *)
Theorem C16_reducers : forall reds b1 b2,
  Permutation b1 b2 ->
  (forall key rn, In (key, rn) reds -> order_insensitive rn = true) ->
  (forall key rn o v, In (key, rn) reds -> In o b1 -> cget key o = Some v -> int_or_none v = true) ->
  apply_output_reducers reds b1 = apply_output_reducers reds b2.
Proof. intros reds b1 b2 Hp Hr Hi. exact (apply_output_reducers_from_perm reds b1 b2 Hp Hr Hi []). Qed.

(* ---------------------------------------------------------------------------------------------- *)
(* What is NOT order-independent, with witnesses *)
Local Open Scope Z_scope.
Definition I (z : Z) : value := VAtom (AInt z).
Definition Ls (l : list Z) : value := VList (map AInt l).

(* first / last depend on the branch order *)
Example C16_first_last_order_sensitive :
  Permutation [I 1; I 2] [I 2; I 1] /\
  apply_reducer RFirst [I 1; I 2] <> apply_reducer RFirst [I 2; I 1] /\
  apply_reducer RLast [I 1; I 2] <> apply_reducer RLast [I 2; I 1].
Proof. split; [apply perm_swap|split; discriminate]. Qed.

(* max over LIST values is outside the theorem for a reason: whether Python raises TypeError depends
   on which pairs get compared *)
Example C16_max_lists_order_sensitive :
  red_extremum true [VList [AInt 1; ANone]; Ls [1; 5]; Ls [2]] = RErr TypeErr /\
  red_extremum true [Ls [2]; VList [AInt 1; ANone]; Ls [1; 5]] = ROk (Ls [2]).
Proof. split; reflexivity. Qed.

(* the example graph: a(0) -> b(1), a -> b2(2), {b, b2} -> c(3); z(4) unrelated.
   key 0: output by a and b (a chain); key 2: output by b and b2 (unrelated); key 1: lists everywhere;
   key 5: output only by z; key 4: set on c itself. *)
Definition ex_dag (reds : list (nat * rname)) : dag := [
  mkStage 0 [] [(0%nat, I 1); (1%nat, Ls [1; 2])] [] [];
  mkStage 1 [0%nat] [(0%nat, I 2); (1%nat, Ls [2; 3]); (2%nat, I 5)] [] [];
  mkStage 2 [0%nat] [(1%nat, Ls [9]); (2%nat, I 7); (3%nat, I 3)] [] [];
  mkStage 3 [1%nat; 2%nat] [] [(4%nat, I 1); (1%nat, Ls [3; 4])] reds;
  mkStage 4 [] [(5%nat, I 1)] [] []].

(* for unrelated branches the value seen DOES depend on the iteration order of the ancestor set *)
Example C16_unordered_branches_depend_on_order :
  iteration_orders (ex_dag []) 3 [1; 2; 0]%nat [1; 2]%nat /\
  iteration_orders (ex_dag []) 3 [2; 1; 0]%nat [1; 2]%nat /\
  (exists c, plan_context (ex_dag []) 3 [1; 2; 0]%nat [1; 2]%nat = Ok c /\ cget 2 c = Some (I 7)) /\
  (exists c, plan_context (ex_dag []) 3 [2; 1; 0]%nat [1; 2]%nat = Ok c /\ cget 2 c = Some (I 5)).
Proof.
  assert (Ha : ancestors (ex_dag []) 3 = Some [1; 2; 0]%nat) by reflexivity.
  split; [split; [exists [1; 2; 0]%nat; split; [exact Ha|apply Permutation_refl]|apply Permutation_refl]|].
  split; [split; [exists [1; 2; 0]%nat; split; [exact Ha|apply perm_swap]|apply Permutation_refl]|].
  split; eexists; (split; [vm_compute; reflexivity|reflexivity]).
Qed.

(* non-vacuity: the example meets every premise used above (well-formed, acyclic, valid iteration
   orders, planning succeeds), key 0 has the nearest contributor b, key 1 is list-valued, the reducer
   key 2 is summed over both branches, and key 5 of the unrelated stage z is invisible *)
Example C16_nonvacuous :
  wf_dag (ex_dag [(2%nat, RSum)]) /\ acyclic (ex_dag [(2%nat, RSum)]) /\
  iteration_orders (ex_dag [(2%nat, RSum)]) 3 [1; 2; 0]%nat [1; 2]%nat /\
  ancestor (ex_dag []) 1 3 /\ ancestor (ex_dag []) 0 1 /\ ~ ancestor (ex_dag [(2%nat, RSum)]) 4 3 /\
  StronglySorted (ancestor (ex_dag [(2%nat, RSum)])) [0; 1]%nat /\
  exists c, plan_context (ex_dag [(2%nat, RSum)]) 3 [1; 2; 0]%nat [1; 2]%nat = Ok c /\
            cget 0 c = Some (I 2) /\ cget 1 c = Some (Ls [1; 2; 3; 9; 4]) /\
            cget 2 c = Some (I 12) /\ cget 4 c = Some (I 1) /\ cget 5 c = None.
Proof.
  assert (Hdir : forall reds r s, direct (ex_dag reds) r s -> (r < s)%nat).
  { intros reds r s [st [Hl Hin]]. apply lookup_In in Hl as [Hst Href]. simpl in Hst.
    repeat (destruct Hst as [<-|Hst]; [simpl in *; subst; repeat (destruct Hin as [<-|Hin]; [lia|]); destruct Hin|]).
    destruct Hst. }
  assert (Hd01 : forall reds, direct (ex_dag reds) 0 1) by (intros; eexists; split; [reflexivity|now left]).
  assert (Hd13 : forall reds, direct (ex_dag reds) 1 3) by (intros; eexists; split; [reflexivity|now left]).
  split.
  { intros st Hst. simpl in Hst.
    repeat (destruct Hst as [<-|Hst]; [simpl; split; repeat constructor; simpl; intuition discriminate|]).
    destruct Hst. }
  split; [exists (fun r => r); apply Hdir|].
  split; [split; [exists [1; 2; 0]%nat; split; [reflexivity|apply Permutation_refl]|apply Permutation_refl]|].
  split; [apply anc_direct, Hd13|]. split; [apply anc_direct, Hd01|].
  split; [intros H; apply (ancestor_rank _ (fun r => r) (Hdir _)) in H; lia|].
  split; [apply SSorted_cons; [apply SSorted_cons; [apply SSorted_nil|constructor]|constructor; [apply anc_direct, Hd01|constructor]]|].
  eexists. split; [vm_compute; reflexivity|]. repeat split.
Qed.

(* non-vacuity of C16_noninterference: giving the unrelated stage z other outputs, a context and a
   requisite meets its premises *)
Definition ex_dag_z : dag :=
  firstn 4 (ex_dag []) ++ [mkStage 4 [3%nat] [(5%nat, I 99); (0%nat, I 99)] [(1%nat, I 99)] [(0%nat, RSum)]].
Example C16_noninterference_nonvacuous :
  lookup (ex_dag []) 3 = lookup ex_dag_z 3 /\
  (forall a, In a [0; 1; 2]%nat -> lookup (ex_dag []) a = lookup ex_dag_z a) /\
  lookup (ex_dag []) 4 <> lookup ex_dag_z 4.
Proof. split; [reflexivity|]. split; [|discriminate]. intros a [<-|[<-|[<-|[]]]]; reflexivity. Qed.

(* ---------------------------------------------------------------------------------------------- *)
(* REFUTED on the unchanged tree: "... as produced in the current loop iteration".
   A jump re-arms a stage with reset_stage_for_retry, which clears `outputs` but keeps `context`; the
   context still holds the ancestor values hydrated by the FIRST planning, and on the second planning
   they count as the stage's own context, which wins.  Witness: a(0) -> b(1); a outputs key 0 = 1 in
   the first iteration and 2 in the second; b never set key 0 itself, yet its second planning sees 1. *)
Definition it_dag (x : Z) : dag := [mkStage 0 [] [(0%nat, I x)] [] []; mkStage 1 [0%nat] [] [] []].

Theorem C16_iteration_refuted :
  exists (d1 d2 : dag) (s a k : nat) (v_old v_new : Z) (c : ctx),
    wf_dag d2 /\ acyclic d2 /\ iteration_orders d2 s [a] [a] /\
    (forall x, ancestor d2 x s <-> x = a) /\
    (exists st, lookup d1 s = Some st /\ cget k (s_context st) = None) /\   (* never set on the stage itself *)
    cget k (outputs_of d1 a) = Some (I v_old) /\                            (* first iteration *)
    cget k (outputs_of d2 a) = Some (I v_new) /\ v_old <> v_new /\           (* current iteration *)
    replan_context d1 d2 s [a] [a] [a] [a] = Ok c /\
    cget k c = Some (I v_old).                                              (* the stale value is seen *)
Proof.
  exists (it_dag 1), (it_dag 2), 1%nat, 0%nat, 0%nat, 1, 2. eexists.
  assert (Hdir : forall r s, direct (it_dag 2) r s -> r = 0%nat /\ s = 1%nat).
  { intros r s [st [Hl Hin]]. apply lookup_In in Hl as [Hst Href]. simpl in Hst.
    destruct Hst as [<-|[<-|[]]]; simpl in *; [destruct Hin|]. destruct Hin as [<-|[]]. auto. }
  split.
  { intros st Hst. simpl in Hst. destruct Hst as [<-|[<-|[]]]; simpl; split; repeat constructor; simpl; tauto. }
  split; [exists (fun r => r); intros r s H; apply Hdir in H; lia|].
  split; [split; [exists [0%nat]; split; [reflexivity|apply Permutation_refl]|apply Permutation_refl]|].
  split.
  { intros x. split.
    - intros H. inversion H as [? ? Hd|? r ? Hd Ha]; subst.
      + now apply Hdir in Hd.
      + apply Hdir in Hd as [-> _]. inversion Ha as [? ? Hd'|? ? ? Hd' _]; subst; apply Hdir in Hd'; lia.
    - intros ->. apply anc_direct. eexists. split; [reflexivity|now left]. }
  split; [eexists; split; reflexivity|].
  repeat split; try reflexivity. discriminate.
Qed.

(* ---------------------------------------------------------------------------------------------- *)
(* the registry of reducers.py as it is now (regenerated by harness/tr/dataflow.py), and the model
   reducer each entry was modelled as *)
Example C16_registry :
  gen_builtin_reducers =
    [ ("collect", "_collect"); ("append", "_collect"); ("extend", "_extend"); ("sum", "_sum");
      ("max", "lambda values: max((v for v in values if v is not None))");
      ("min", "lambda values: min((v for v in values if v is not None))");
      ("merge", "_merge");
      ("first", "lambda values: values[0] if values else None");
      ("last", "lambda values: values[-1] if values else None") ]%string /\
  map (fun p => rname_of_string (fst p)) gen_builtin_reducers
    = [RCollect; RAppend; RExtend; RSum; RMax; RMin; RMerge; RFirst; RLast] /\
  rname_of_string "anything else" = RUnknown.
Proof. repeat split. Qed.

Print Assumptions C16_bfs_exact.
Print Assumptions C16_kahn_result.
Print Assumptions C16_kahn_topological.
Print Assumptions C16_fuel_suffices.
Print Assumptions C16_visibility.
Print Assumptions C16_noninterference.
Print Assumptions C16_precedence_own.
Print Assumptions C16_precedence.
Print Assumptions C16_path_ordered.
Print Assumptions C16_lists.
Print Assumptions C16_reducers_sum.
Print Assumptions C16_reducers_max_min.
Print Assumptions C16_reducers_sum_all.
Print Assumptions C16_reducers_extremum_all.
Print Assumptions C16_reducers_collect.
Print Assumptions C16_reducers_extend.
Print Assumptions C16_reducers_collect_all.
Print Assumptions C16_reducers_merge.
Print Assumptions C16_reducers.
Print Assumptions C16_iteration_refuted.
