(* C17 — After a cancel is accepted no further task starts and the workflow ends.
   Statements over model/Engine.v (validated against the real engine at commit level on every run).

   PROVED (every oracle, every action list of any length: deliveries in any order, redeliveries, crashes
   after any commit, recovery sweeps, signals, jumps):
     C17_no_exec_after_cancel   once the cancel flag is durable no task is executed any more, and the flag stays
     C17_cancel_sets_flag       handling CancelWorkflow on an unfinished workflow sets the flag in its first commit
     C17_jump_ignored           a JumpToStage handled after the cancel re-arms nothing (F4 repair)
     C17_cancel_fans_out        handling CancelWorkflow commits, in ONE transaction with its processed mark, a CancelStage
                                for EVERY stage that is not complete and a CompleteWorkflow
     C17_cancel_stage_effect    handling CancelStage for a stage that is not complete (and may legally be canceled) sets
                                it CANCELED together with all its NOT_STARTED / RUNNING tasks, in one commit
     C17_run_task_after_cancel  a RunTask handled after the cancel executes nothing and commits CompleteTask(CANCELED)
   OPEN (not proved; decided only by the correspondence + implementation monitors, see DESIGN.md):
     C17_all_canceled           every stage with work still to do ends CANCELED
     C17_final                  the workflow reaches a final status (needs the token invariant). *)
From Coq Require Import List Bool Arith ZArith.
Import ListNotations.
From Stab.model Require Import Base StatusM Readiness StageStat Engine.
From Stab.gen Require Import Gen_Guards.
From Stab.proofs Require Import EngineP EngineEx.

Theorem C17_no_exec_after_cancel : forall (orc : oracle) (acts : list action) (s : state),
  w_canceled s = true -> g_execs (run orc s acts) = g_execs s /\ w_canceled (run orc s acts) = true.
Proof. exact no_exec_after_cancel_run. Qed.

Theorem C17_cancel_sets_flag : forall s id,
  is_complete (w_status s) = false ->
  w_canceled (apply_commits (h_commits (handle_cancel_workflow s id)) s) = true.
Proof. exact cancel_workflow_sets_flag. Qed.

Theorem C17_jump_ignored : forall s id i tg c src,
  get_stage s i = Some src -> w_canceled s = true -> h_commits (handle_jump s id i tg c) = [[OMark id]].
Proof. intros s id i tg c src H Hc. unfold handle_jump. rewrite H, Hc. reflexivity. Qed.

(* CancelStage goes to EVERY unfinished stage, synthetic (before / after) stages included *)
Theorem C17_cancel_fans_out : forall s id,
  is_complete (w_status s) = false ->
  h_commits (handle_cancel_workflow s id) =
    [[OCancelFlag]; [OMark id] ++ c_pushes (map MCancelStage (incomplete_stages s)) ++ [OPush (MCompleteWorkflow 0)] ++ []]
  /\ forall i st, get_stage s i = Some st -> is_complete (s_status st) = false -> In i (incomplete_stages s).
Proof.
  intros s id H. split; [unfold handle_cancel_workflow; rewrite H; reflexivity|].
  intros i st Hs Hc. unfold incomplete_stages. apply filter_In. split.
  - unfold seqn. apply in_seq. split; [apply Nat.le_0_l|]. simpl. unfold get_stage in Hs.
    apply nth_error_Some. rewrite Hs. discriminate.
  - rewrite Hs, Hc. reflexivity.
Qed.

Theorem C17_cancel_stage_effect : forall s id i st,
  get_stage s i = Some st -> is_complete (s_status st) = false -> can_transition (s_status st) CANCELED = true ->
  exists st', h_commits (handle_cancel_stage s id i) = [[OPut i st'; OMark id]] /\ s_status st' = CANCELED /\
              s_tasks st' = cancel_tasks (s_tasks st) /\
              forall tk, In tk (s_tasks st') -> t_status tk <> NOT_STARTED /\ t_status tk <> RUNNING.
Proof.
  intros s id i st Hs Hc Ht. unfold handle_cancel_stage. rewrite Hs.
  unfold Gen_Guards.cancel_stage_guard. rewrite Hc, Ht. simpl.
  eexists. split; [reflexivity|]. simpl. repeat split.
  - unfold cancel_tasks in H. apply in_map_iff in H. destruct H as [t0 [E _]].
    destruct (status_eqb (t_status t0) NOT_STARTED || status_eqb (t_status t0) RUNNING) eqn:B; subst tk; simpl; [discriminate|].
    apply orb_false_iff in B. destruct B as [B _]. intro E. rewrite E in B. discriminate.
  - unfold cancel_tasks in H. apply in_map_iff in H. destruct H as [t0 [E _]].
    destruct (status_eqb (t_status t0) NOT_STARTED || status_eqb (t_status t0) RUNNING) eqn:B; subst tk; simpl; [discriminate|].
    apply orb_false_iff in B. destruct B as [_ B]. intro E. rewrite E in B. discriminate.
Qed.

Theorem C17_run_task_after_cancel : forall orc s id i t a st tk,
  w_canceled s = true -> get_stage s i = Some st -> nth_error (s_tasks st) t = Some tk -> t_status tk = RUNNING ->
  h_pre (handle_run_task orc s id i t a) = None /\
  h_commits (handle_run_task orc s id i t a) = [[OMark id; OPush (MCompleteTask i t CANCELED)]].
Proof.
  intros orc s id i t a st tk Hc Hs Ht Hr. unfold handle_run_task. rewrite Hs, Ht, Hr, Hc. split; reflexivity.
Qed.

(* non-vacuity: cancel processed while A's task is about to run: the RunTask delivered afterwards executes nothing,
   the workflow ends CANCELED *)
Example C17_witness :
  let s1 := run ok_oracle ex_chain [Submit; Deliver 1 true; Deliver 2 true; Deliver 3 true; Cancel; Deliver 5 true] in
  w_canceled s1 = true /\ g_execs s1 = [] /\
  let s2 := drain ok_oracle 40 s1 in
  g_execs s2 = [] /\ w_queue s2 = [] /\ statuses s2 = (CANCELED, [CANCELED; CANCELED]).
Proof. vm_compute. repeat split. Qed.

Print Assumptions C17_no_exec_after_cancel.
Print Assumptions C17_cancel_sets_flag.
Print Assumptions C17_jump_ignored.
Print Assumptions C17_cancel_fans_out.
Print Assumptions C17_cancel_stage_effect.
Print Assumptions C17_run_task_after_cancel.
