(* C17 — After a cancel is accepted no further task starts and the workflow ends.
   Statements over model/Engine.v (validated against the real engine at commit level on every run).

   PROVED (every oracle, every action list of any length: deliveries in any order, redeliveries, crashes
   after any commit, recovery sweeps, signals, jumps):
     C17_no_exec_after_cancel   once the cancel flag is durable no task is executed any more, and the flag stays
     C17_cancel_sets_flag       handling CancelWorkflow on an unfinished workflow sets the flag in its first commit
     C17_jump_ignored           a JumpToStage handled after the cancel re-arms nothing (F4 repair)
   OPEN (not proved; decided only by the correspondence + implementation monitors, see DESIGN.md):
     C17_all_canceled           every stage with work still to do ends CANCELED
     C17_final                  the workflow reaches a final status (needs the token invariant). *)
From Coq Require Import List Bool Arith ZArith.
Import ListNotations.
From Stab.model Require Import Base StatusM Readiness StageStat Engine.
From Stab.proofs Require Import EngineP EngineEx.

Theorem C17_no_exec_after_cancel : forall (orc : oracle) (acts : list action) (s : state),
  w_canceled s = true -> g_execs (run orc s acts) = g_execs s /\ w_canceled (run orc s acts) = true.
Proof. exact no_exec_after_cancel_run. Qed.

Theorem C17_cancel_sets_flag : forall s id,
  is_complete (w_status s) = false ->
  w_canceled (apply_commits (h_commits (handle_cancel_workflow s id)) s) = true.
Proof. exact cancel_workflow_sets_flag. Qed.

Theorem C17_jump_ignored : forall s id i tg c src,
  get_stage s i = Some src -> w_canceled s = true -> h_commits (handle_jump s id i tg c) = [[OMark id]].
Proof. intros s id i tg c src H Hc. unfold handle_jump. rewrite H, Hc. reflexivity. Qed.

(* non-vacuity: cancel processed while A's task is about to run: the RunTask delivered afterwards executes nothing,
   the workflow ends CANCELED *)
Example C17_witness :
  let s1 := run ok_oracle ex_chain [Submit; Deliver 1 true; Deliver 2 true; Deliver 3 true; Cancel; Deliver 5 true] in
  w_canceled s1 = true /\ g_execs s1 = [] /\
  let s2 := drain ok_oracle 40 s1 in
  g_execs s2 = [] /\ w_queue s2 = [] /\ statuses s2 = (CANCELED, [CANCELED; CANCELED]).
Proof. vm_compute. repeat split. Qed.

Print Assumptions C17_no_exec_after_cancel.
Print Assumptions C17_cancel_sets_flag.
Print Assumptions C17_jump_ignored.
