(* C18 — Persistent signals are never lost; a suspended stage resumes once per signal.
   PROVED (facts about the commits SignalStage and the suspend path of RunTask produce, in any state)
     C18_persistent_not_lost   a persistent signal is delivered (stage SUSPENDED: stage and its suspended task back to
                               RUNNING, RunTask pushed, signal recorded) or buffered (any other status: buffer grows by
                               exactly this signal, nothing else of the stage changes) — in ONE commit together with the
                               message's processed mark, so a crash cannot lose it and a redelivery cannot double it
     C18_transient             a transient signal for a stage that is not SUSPENDED changes nothing
     C18_consume_once          on suspend with a non-empty buffer exactly the first buffered signal is consumed and the
                               task re-queued in the same commit
     C18_suspend_waits         with an empty buffer the stage and task become SUSPENDED durably and no continuation
                               is pushed
     C18_suspended_stays       StartStage / CompleteStage / SkipStage never write a SUSPENDED stage
     C18_rearm_keeps_mailbox   every stage write of a JumpToStage or RestartStage handling (re-arm of the target, the
                               source, their downstream and synthetic stages) leaves the written stage's buffered
                               signals exactly as they were, and creates no stage: a persistent signal that arrived
                               before its stage suspended survives every loop iteration
   OPEN: C18_persistent_once as a counting theorem over whole runs (sent = buffered + delivered) and C18_race
     (signal handler vs. suspending task result interleaved at statement level; known finding F8 for
     SignalStage vs StartStage) are decided by correspondence / interleaving runs only. *)
From Coq Require Import List Bool Arith ZArith.
Import ListNotations.
From Stab.model Require Import Base StatusM Readiness StageStat Engine.
From Stab.proofs Require Import EngineLegal SignalP BufferedP EngineEx.

Theorem C18_persistent_not_lost : forall s id i n st,
  get_stage s i = Some st ->
  (s_status st = SUSPENDED ->
     exists st' m, h_commits (handle_signal_stage s id i n true) = [[OPut i st'; OMark id; OPush m]]
                   /\ s_status st' = RUNNING /\ s_signal st' = Some n /\ s_buffered st' = s_buffered st
                   /\ (m = MStartStage i 0 \/ exists t, m = MRunTask i t /\ exists tk, nth_error (s_tasks st) t = Some tk /\ t_status tk = SUSPENDED
                                                         /\ exists tk', nth_error (s_tasks st') t = Some tk' /\ t_status tk' = RUNNING)) /\
  (s_status st <> SUSPENDED ->
     exists st', h_commits (handle_signal_stage s id i n true) = [[OPut i st'; OMark id]]
                 /\ s_status st' = s_status st /\ s_buffered st' = s_buffered st ++ [n] /\ s_tasks st' = s_tasks st
                 /\ s_signal st' = s_signal st).
Proof. exact persistent_signal_not_lost. Qed.

Theorem C18_transient : forall s id i n st,
  get_stage s i = Some st -> s_status st <> SUSPENDED ->
  h_commits (handle_signal_stage s id i n false) = [[OMark id]].
Proof. exact transient_signal_dropped. Qed.

Theorem C18_consume_once : forall s id i t st tk sig rest,
  s_buffered st = sig :: rest ->
  exists st', process_result s id i t st tk RSuspend = [[OPut i st'; OMark id; OPush (MRunTask i t)]]
              /\ s_buffered st' = rest /\ s_signal st' = Some sig /\ s_status st' = RUNNING.
Proof. exact suspend_consumes_one_buffered. Qed.

Theorem C18_suspend_waits : forall s id i t st tk,
  s_buffered st = [] ->
  exists st', process_result s id i t st tk RSuspend = [[OPut i st'; OMark id]]
              /\ s_status st' = SUSPENDED /\ s_buffered st' = [].
Proof. exact suspend_waits. Qed.

Theorem C18_suspended_stays : forall s id i k st,
  get_stage s i = Some st -> s_status st = SUSPENDED ->
  Forall (fun c => forallb quiet c = true) (h_commits (handle_start_stage s id i k)) /\
  h_commits (handle_complete_stage s id i) = [] /\ h_commits (handle_skip_stage s id i) = [].
Proof.
  intros s id i k st H E. split; [eapply suspended_stage_untouched_start_stage; eassumption|].
  split; [eapply suspended_stage_untouched_complete_stage; eassumption|eapply suspended_stage_untouched_skip; eassumption].
Qed.

(* non-vacuity: signal before start is buffered, consumed by the first suspension; the stage then succeeds.
   And: stage suspends, stays suspended with an empty queue, a later persistent signal resumes it. *)
Example C18_witness :
  let early := drain susp_oracle 60 (run susp_oracle ex_chain [Submit; Signal 0 5 true]) in
  statuses early = (SUCCEEDED, [SUCCEEDED; SUCCEEDED]) /\ length (g_execs early) = 3 /\
  let waiting := drain susp_oracle 60 (step susp_oracle ex_chain Submit) in
  statuses waiting = (RUNNING, [SUSPENDED; NOT_STARTED]) /\ w_queue waiting = [] /\
  statuses (drain susp_oracle 60 (step susp_oracle waiting (Signal 0 5 true))) = (SUCCEEDED, [SUCCEEDED; SUCCEEDED]).
Proof. vm_compute. repeat split. Qed.

Theorem C18_rearm_keeps_mailbox : forall s id i tg c,
  KB s (handle_jump s id i tg c) /\ KB s (handle_restart_stage s id i).
Proof. intros. split; [apply jump_keeps_buffered|apply restart_keeps_buffered]. Qed.

Print Assumptions C18_persistent_not_lost.
Print Assumptions C18_rearm_keeps_mailbox.
Print Assumptions C18_transient.
Print Assumptions C18_consume_once.
Print Assumptions C18_suspend_waits.
Print Assumptions C18_suspended_stays.
