(* C19 — What is stored or queued is read back unchanged; saving a stage never alters fields the caller did
   not change.   Statements only; proofs live in coq/proofs (CodecP, MsgCodecP: generic soundness of the
   computed checks; CodecGenP: the checks evaluated on the lists regenerated from the source).

   Reading guide
     json_ok enc dec jempty order   the trusted premise: json.loads (json.dumps v) = v for JSON-representable
                                    v (jrep), json.dumps never returns "", list(set) enumerates the set
     wf_stage / wf_task / wf_workflow / wf_message   boolean, computed: every field holds a value of its
                                    declared type (JSON fields: jrep — no tuples, no int dict keys, no NaN),
                                    Raw ints fit 64 bits, NOT NULL columns are not None, and what an
                                    `or`-default cannot represent is excluded (Workflow.origin = "" comes back
                                    "unknown"; a new task's version is the SQL literal 0)
     reads_back R listed r rw       every listed field of r is read from row rw equal (sets: as sets)
   Not persisted at all, hence outside the listed fields: Workflow.config_version, StageExecution
   .cleanup_on_failure / .finalizer_names (and .output_reducers except through context["_output_reducers"]). *)
From Coq Require Import List ZArith String Bool Permutation.
Import ListNotations.
From Stab.model Require Import CodecT Codec MsgCodec CodecSpec.
From Stab.gen Require Import Gen_Codec Gen_Messages.
From Stab.proofs Require Import CodecGenP.
Open Scope string_scope.

Section C19.
Variable jtext : Type.
Variable enc : pyval -> jtext.
Variable dec : jtext -> option pyval.
Variable jempty : jtext -> bool.
Variable order : list pyval -> list pyval.
Variable iso : Z -> string.
Hypothesis J : json_ok enc dec jempty order.

Notation TO_ROW := (to_row jtext enc order enum_table obj_specs).
Notation READ := (read_field jtext dec jempty enum_table obj_specs).
Notation UPDATE := (apply_update jtext enc order enum_table obj_specs).
Notation reads_back := (reads_back jtext dec jempty).
Notation msg_back := (msg_back jtext enc dec iso).

(* 1. a stage: INSERT by insert_stage, read by row_to_stage — all 25 persisted fields *)
Theorem C19_stage_roundtrip : forall s, wf_stage s = true ->
  exists rw, TO_ROW stage_columns stage_insert s = Some rw /\ reads_back stage_read stage_listed s rw.
Proof. exact (stage_roundtrip jtext enc dec jempty order J). Qed.

(* 2. a task, and the tasks of a stage in order: inserted in list order, SELECT … ORDER BY id of both
      retrieve and retrieve_stage returns them in the same order when the ids ascend *)
Theorem C19_task_roundtrip : forall t, wf_task t = true ->
  exists rw, TO_ROW task_columns task_insert t = Some rw /\ reads_back task_read task_listed t rw.
Proof. exact (task_roundtrip jtext enc dec jempty order J). Qed.

Theorem C19_tasks_in_order : forall ts, wf_tasks ts = true ->
  exists rows, map_opt (TO_ROW task_columns task_insert) ts = Some rows
    /\ select_tasks jtext tasks_order_retrieve rows = Some rows
    /\ select_tasks jtext tasks_order_retrieve_stage rows = Some rows
    /\ Forall2 (reads_back task_read task_listed) ts rows.
Proof. exact (tasks_in_order jtext enc dec jempty order J). Qed.

(* 3. a workflow: execution_to_dict + INSERT, read by row_to_execution *)
Theorem C19_workflow_roundtrip : forall w, wf_workflow w = true ->
  exists rw, TO_ROW workflow_columns workflow_insert w = Some rw /\ reads_back workflow_read workflow_listed w rw.
Proof. exact (workflow_roundtrip jtext enc dec jempty order J). Qed.

(* 4. store_stage: the four UPDATE statements (store / transaction copy, with / without expected_phase) are
      the same statement, write exactly status, context, outputs, start_time, end_time and bump version … *)
Theorem C19_update_copies_equal :
  stage_update_txn = stage_update_store /\ stage_update_store_phase = stage_update_store
  /\ stage_update_txn_phase = stage_update_store
  /\ stage_where_txn = stage_where_store /\ stage_where_txn_phase = stage_where_store_phase
  /\ stage_where_store_phase = (stage_where_store ++ [mkW "status" "expected_phase" WParam])%list
  /\ store_stage_flow_store = (store_stage_flow_txn ++ [FCommit])%list
  /\ map w_col stage_update_store = stage_update_cols
  /\ map w_col stage_where_store = ["id"; "version"].
Proof. exact update_copies_equal. Qed.

(* … hence (no wf premise) every other column, and every listed field outside the six, is read back as
   before, whatever the caller's in-memory stage s contains … *)
Theorem C19_update_frame : forall s rw rw', UPDATE stage_columns stage_update_store s rw = Some rw' ->
  (forall c, ~ In c stage_update_cols -> sget c rw' = sget c rw)
  /\ (forall f, In f stage_frame -> READ stage_read rw' f = READ stage_read rw f).
Proof. exact (stage_update_frame jtext enc dec jempty order). Qed.

Theorem C19_update_frame_covers : Permutation (stage_frame ++ stage_updated ++ ["version"])%list stage_listed.
Proof. exact frame_covers. Qed.

(* … rows of other stages (WHERE id = :id AND version = :version not satisfied) are untouched … *)
Theorem C19_update_other_rows : forall s tbl tbl',
  update_table jtext enc order enum_table obj_specs stage_columns stage_update_store stage_where_store s tbl = Some tbl' ->
  Forall2 (fun rw rw' => if row_matches jtext enc order enum_table obj_specs stage_where_store s rw
                         then UPDATE stage_columns stage_update_store s rw = Some rw' else rw' = rw) tbl tbl'.
Proof. exact (stage_update_other_rows jtext enc order). Qed.

(* … and the five written fields are read back as the caller's values, version as the stored one + 1 *)
Theorem C19_update_written : forall s rw, wf_stage_update s rw = true ->
  exists rw', UPDATE stage_columns stage_update_store s rw = Some rw'
    /\ reads_back stage_read stage_updated s rw'
    /\ (forall z, sget "version" rw = Some (CInt z) -> sget "version" rw' = Some (CInt (z + 1)))
    /\ (forall c, ~ In c stage_update_cols -> sget c rw' = sget c rw)
    /\ (forall f, In f stage_frame -> READ stage_read rw' f = READ stage_read rw f).
Proof. exact (stage_update_sound jtext enc dec jempty order J). Qed.

(* the task UPDATE of upsert_task writes every mutable field, never id / stage_id *)
Theorem C19_task_update : forall t rw, wf_task_update t rw = true ->
  exists rw', UPDATE task_columns task_update t rw = Some rw'
    /\ reads_back task_read task_updated t rw'
    /\ (forall z, sget "version" rw = Some (CInt z) -> sget "version" rw' = Some (CInt (z + 1)))
    /\ sget "id" rw' = sget "id" rw /\ sget "stage_id" rw' = sget "stage_id" rw.
Proof. exact (task_update_sound jtext enc dec jempty order J). Qed.

(* 5. messages: pushed by SqliteQueue.push (serialize_message) or inside a transaction
      (AtomicTransaction.push_message), polled with deserialize_message *)
Theorem C19_message_roundtrip : forall m, wf_message m = true -> msg_back ser_queue m /\ msg_back ser_txn m.
Proof. exact (message_roundtrip jtext enc dec jempty order J iso). Qed.

Theorem C19_message_serialisers_agree : ser_txn = ser_queue
  /\ forall m, serialize jtext enc iso enum_table ser_txn m = serialize jtext enc iso enum_table ser_queue m
               /\ type_name m = m_cls m.
Proof. exact (conj serialisers_equal (serialisers_agree jtext enc iso)). Qed.

End C19.

(* the keys deserialize_message drops are queue bookkeeping only (so "equal outside the popped keys" cannot
   silently widen) *)
Theorem C19_message_metadata_only : forall f, In f deser_popped -> In f msg_metadata.
Proof. exact popped_are_metadata. Qed.

(* MESSAGE_TYPES: name <-> class is a bijection, keys are the class names, every concrete class is registered *)
Theorem C19_message_registry :
  NoDup (map fst message_types) /\ NoDup (map snd message_types)
  /\ (forall k c, In (k, c) message_types -> k = c /\ In c (map fst msg_classes))
  /\ (forall c, In c (map fst msg_classes) -> In c (map snd message_types) \/ In c (map snd msg_bases)).
Proof. exact registry_bijection. Qed.

(* ---------- non-vacuity ---------- *)
(* the JSON premise is satisfiable *)
Example C19_json_premise_satisfiable : json_ok ideal_enc ideal_dec ideal_empty ideal_order.
Proof. exact json_ideal_ok. Qed.

(* concrete records meet the wf predicates (every kind of field set, empty string / zero / None included) *)
Example C19_wf_examples :
  wf_stage ex_stage = true /\ wf_task (ex_task "01T1") = true /\ wf_workflow ex_workflow = true
  /\ wf_tasks [ex_task "01T1"; ex_task "01T2"; ex_task "01T3"] = true
  /\ wf_tasks [ex_task "01T2"; ex_task "01T1"] = false.
Proof. vm_compute. repeat split. Qed.

(* every registered message class has a wf instance, and the polled fields overwritten by poll_one
   (message_id, attempts) are among the popped metadata keys *)
Example C19_every_message_class_inhabited :
  forallb (fun kc => wf_message (default_msg (snd kc))) message_types = true
  /\ forallb (fun f => smem f deser_popped) poll_overwrites = true.
Proof. exact (conj every_class_has_wf_instance poll_overwrites_popped). Qed.

(* the update premise is met by a stored row and a caller's copy that changed status, outputs, end_time —
   and name, which the UPDATE does not write: the model reads the OLD name back *)
Example C19_update_example :
  match ideal_row stage_columns stage_insert ex_stage with
  | Some rw => wf_stage_update ex_stage_changed rw = true
               /\ match ideal_update stage_columns stage_update_store ex_stage_changed rw with
                  | Some rw' => ideal_read stage_read rw' "status" = Some (VEnum "WorkflowStatus" "SUCCEEDED")
                                /\ ideal_read stage_read rw' "name" = Some (VStr "")
                                /\ ideal_read stage_read rw' "version" = Some (VInt 1)
                  | None => False
                  end
  | None => False
  end.
Proof. vm_compute. repeat split. Qed.

Print Assumptions C19_stage_roundtrip.
Print Assumptions C19_task_roundtrip.
Print Assumptions C19_tasks_in_order.
Print Assumptions C19_workflow_roundtrip.
Print Assumptions C19_update_copies_equal.
Print Assumptions C19_update_frame.
Print Assumptions C19_update_frame_covers.
Print Assumptions C19_update_other_rows.
Print Assumptions C19_update_written.
Print Assumptions C19_task_update.
Print Assumptions C19_message_roundtrip.
Print Assumptions C19_message_serialisers_agree.
Print Assumptions C19_message_metadata_only.
Print Assumptions C19_message_registry.
