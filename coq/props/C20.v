(* C20 — graph validation and condition expressions are sound and total.
   Statements only; proofs live in coq/proofs/GraphP.v and coq/proofs/ExprP.v.
   Part G: dag/topological.py (validate_stage_graph, topological_sort) over model/Graph.v.
   Part E: expressions.py (evaluate_expression, _eval_node) over model/Expr.v, and its two callers
           (shape from gen/Gen_ExprCallers.v, regenerated from the source on every check). *)
From Coq Require Import List Bool Arith ZArith Lia Permutation.
Import ListNotations.
From Stab.gen Require Import Gen_ExprCallers.
From Stab.model Require Import Base Graph Expr ExprCallers.
From Stab.proofs Require Import GraphP ExprP.

(* ================================================================== Part G: graphs *)

(* G1. Workflow.create / validate_stage_graph accepts a stage list exactly when its top-level
   stages have unique refs, no self edge, only known requisites, and are acyclic (a numbering of
   the refs strictly increasing along every edge exists) *)
Theorem C20_validate_iff : forall g,
  validate g = VOk <->
  NoDup (refs (top_level g)) /\ no_self (top_level g) /\ known (top_level g) /\ acyclic (top_level g).
Proof. exact validate_ok_iff. Qed.

(* G2. which error: duplicates win; then self-edge / unknown ref (the first defective stage in list
   order decides which, self-edge before unknown within a stage); a cycle is reported only for a
   structurally sound graph; the model's fuel never runs out *)
Theorem C20_validate_error_kind : forall g,
  (validate g = VDup <-> ~ NoDup (refs (top_level g)))
  /\ ((validate g = VSelf \/ validate g = VUnknown) <->
      NoDup (refs (top_level g)) /\ ~ (no_self (top_level g) /\ known (top_level g)))
  /\ (validate g = VCycle <->
      NoDup (refs (top_level g)) /\ no_self (top_level g) /\ known (top_level g) /\ ~ acyclic (top_level g))
  /\ validate g <> VFuel.
Proof.
  exact (fun g => conj (validate_dup_iff g) (conj (validate_struct_iff g)
                   (conj (validate_cycle_iff g) (validate_never_fuel g)))).
Qed.

Theorem C20_struct_error_first : forall seen l e, struct_err seen l = Some e ->
  exists l1 s l2, l = l1 ++ s :: l2
    /\ (forall x, In x l1 -> ~ In (s_ref x) (s_reqs x) /\ incl (s_reqs x) seen)
    /\ ((e = VSelf /\ In (s_ref s) (s_reqs s))
        \/ (e = VUnknown /\ ~ In (s_ref s) (s_reqs s) /\ ~ incl (s_reqs s) seen)).
Proof. exact struct_err_first. Qed.

(* G3. the computed order (topological_sort: all = false; topological_sort_all_stages: all = true),
   for ANY stage list: a permutation of the (filtered) stages in which every stage comes after all
   of its requisites; it is the concatenation of the execution layers; the fuel never runs out;
   and on a closed duplicate-free graph the result is CircularDependencyError exactly when the
   graph is cyclic. *)
Theorem C20_order_sound : forall all g,
  (forall o, topo_sort all g = SortOk o ->
     Permutation o (filtered all g) /\ after_reqs o /\ o = concat (sort_layers all g))
  /\ topo_sort all g <> SortFuel
  /\ (NoDup (refs (filtered all g)) -> known (filtered all g) ->
      ((exists rest, topo_sort all g = SortCycle rest) <-> ~ acyclic (filtered all g))
      /\ ((exists o, topo_sort all g = SortOk o) <-> acyclic (filtered all g))).
Proof.
  exact (fun all g =>
    conj (fun o H => conj (proj1 (topo_sort_sound all g o H))
                      (conj (proj2 (topo_sort_sound all g o H)) (topo_sort_layers all g o H)))
    (conj (topo_sort_fuel all g)
          (fun Hnd Hk => conj (topo_sort_cycle_iff all g Hnd Hk) (topo_sort_ok_iff all g Hnd Hk)))).
Qed.

(* G4. the rank definition of acyclic is the usual one: no non-empty path from a ref to itself *)
Theorem C20_acyclic_iff_no_cycle : forall t,
  NoDup (refs t) -> known t -> (acyclic t <-> no_cycle t).
Proof. exact acyclic_iff_no_cycle. Qed.

(* non-vacuity: a diamond with a synthetic stage is accepted and ordered; each defect is reported
   with the precedence of the code *)
Local Open Scope Z_scope.
Definition st (r : Z) (reqs : list Z) := mkStage r r reqs false.
Example C20_graph_nonvacuous :
  validate [st 4 [2; 3]; st 2 [1]; mkStage 9 9 [77] true; st 3 [1]; st 1 []] = VOk
  /\ topological_sort [st 4 [2; 3]; st 2 [1]; st 3 [1]; st 1 []]
     = SortOk [st 1 []; st 2 [1]; st 3 [1]; st 4 [2; 3]]
  /\ validate [st 1 [2]; st 2 [3]; st 3 [1]] = VCycle
  /\ validate [st 1 [1]; st 2 [7]] = VSelf
  /\ validate [st 1 [7]; st 2 [2]] = VUnknown
  /\ validate [st 1 [1; 7]] = VSelf
  /\ validate [st 1 [1]; st 2 [7]; st 1 []] = VDup
  /\ topological_sort [st 1 [2]; st 2 [1]; st 3 []] = SortCycle [st 1 [2]; st 2 [1]].
Proof. vm_compute. repeat split. Qed.
Local Close Scope Z_scope.

(* ================================================================== Part E: expressions *)

(* E1. totality of the REPAIRED evaluator (fixes/C20-expr-total.diff; cfg = fixed): for every
   identity oracle, context, source text, parse outcome that ast.parse can have, and recursion
   budget, evaluate_expression returns a value or raises ExpressionError — never another exception *)
Theorem C20_total_fixed : forall ident ctx src p rl,
  parse_catchable p -> forall k, evaluate_py ident fixed ctx src p rl <> Crash k.
Proof. exact evaluate_fixed_total. Qed.

(* E1'. on the unchanged tree (cfg = cur) totality is FALSE: four different exceptions escape.
   x = "abc": `-x` ; d = {}: `d[[1]]` ; `not not not x` under a recursion budget of 3 ;
   a text on which ast.parse raises ValueError. *)
Definition w_x : list Z := [120]%Z.
Definition w_d : list Z := [100]%Z.
Definition w_ctx : context := [(w_x, VStr [97; 98; 99]%Z); (w_d, VDict [])].
Definition no_ident (a b : value) : bool := false.
Theorem C20_total_refuted :
  evaluate_py no_ident cur w_ctx [45; 120]%Z (Parsed (EUnary UUSub (EName w_x))) 100 = Crash CrTypeUSub
  /\ evaluate_py no_ident cur w_ctx [100; 91; 91; 49; 93; 93]%Z
       (Parsed (ESub (EName w_d) (EList [EConst (VInt 1)]))) 100 = Crash CrTypeUnhashable
  /\ evaluate_py no_ident cur w_ctx [110; 111; 116; 32; 120]%Z
       (Parsed (EUnary UNot (EUnary UNot (EUnary UNot (EName w_x))))) 3 = Crash CrRecursion
  /\ evaluate_py no_ident cur w_ctx [39; 55296; 39]%Z (PCrash CrValue) 100 = Crash CrValue.
Proof. vm_compute. repeat split. Qed.

(* each of the three repairs is needed: a configuration that is total is the fully repaired one *)
Theorem C20_total_needs_all_fixes : forall c,
  (forall ident ctx src p rl, parse_catchable p -> forall k, evaluate_py ident c ctx src p rl <> Crash k)
  -> c = fixed.
Proof. exact total_needs_all_fixes. Qed.

(* E2. no code is executed, no effect: `eval` is a function of (identity oracle, context,
   budget, expression) returning only an outcome; a non-whitelisted node (Call, Lambda, BinOp,
   comprehension, f-string, walrus, ...) has no sub-expressions in the model and evaluating it
   raises ExpressionError.  Stated with a marker: let such a node raise an exception nothing
   catches (run m) instead of ExpressionError (run r).  Either m ends with the marker — an Other
   node was evaluated — and then r is exactly ExpressionError; or no Other node was evaluated and
   the two runs coincide. *)
Theorem C20_no_effects : forall ident c ctx rl e,
  let m := eval ident (Crash CrOther) c ctx rl e in
  let r := eval_py ident c ctx rl e in
  ((m = Crash CrOther /\ r = Err) \/ (m = r /\ m <> Crash CrOther))
  /\ eval_py ident c ctx (S rl) EOther = Err.
Proof. exact (fun ident c ctx rl e => conj (eval_marker ident c ctx rl e) (eval_other ident c ctx rl)). Qed.

(* E3. a larger recursion budget never changes an outcome other than RecursionError *)
Theorem C20_budget_monotone : forall ident c ctx rl e r,
  eval_py ident c ctx rl e = r -> r <> Crash CrRecursion ->
  forall rl', rl <= rl' -> eval_py ident c ctx rl' e = r.
Proof. exact (fun ident c ctx => eval_mono ident Err c ctx). Qed.

(* E3'. ... and a budget at least the nesting depth of the expression suffices: RecursionError then
   never comes from the evaluator (what the correspondence relies on when it runs the model with a
   budget of 3000 on parse trees of depth <= 400) *)
Theorem C20_budget_suffices : forall ident c ctx rl e,
  edepth e <= rl -> eval_py ident c ctx rl e <> Crash CrRecursion.
Proof. exact (fun ident c ctx => eval_depth_enough ident Err c ctx (fun H => ltac:(discriminate H))). Qed.

(* E4. callers (what they catch and decide is read from the source): a value decides by
   truthiness; ExpressionError means "skip this branch" (OR-split) / "do not skip the stage"
   (stageEnabled); so no outcome other than a foreign exception can fail the stage ... *)
Theorem C20_callers :
  (forall v, apply_split (Ok v) = Decided (if truthy v then Activate else SkipBranch))
  /\ apply_split Err = Decided SkipBranch
  /\ (forall v, should_skip (Ok v) = Decided (negb (truthy v)))
  /\ should_skip Err = Decided false
  /\ (forall r, (forall k, r <> Crash k) ->
        (exists d, apply_split r = Decided d) /\ (exists b, should_skip r = Decided b)).
Proof.
  exact (conj apply_split_value (conj apply_split_err (conj should_skip_value
          (conj should_skip_err callers_decide)))).
Qed.

(* ... and with the repaired evaluator no input at all can *)
Theorem C20_callers_total_fixed : forall ident ctx src p rl, parse_catchable p ->
  (exists d, apply_split (evaluate_py ident fixed ctx src p rl) = Decided d)
  /\ (exists b, should_skip (evaluate_py ident fixed ctx src p rl) = Decided b).
Proof.
  exact (fun ident ctx src p rl Hp =>
           callers_decide _ (evaluate_fixed_total ident ctx src p rl Hp)).
Qed.

(* on the unchanged tree a malformed condition does crash the stage handler *)
Theorem C20_callers_refuted :
  apply_split (evaluate_py no_ident cur w_ctx [45; 120]%Z (Parsed (EUnary UUSub (EName w_x))) 100)
    = Raises CrTypeUSub
  /\ should_skip (evaluate_py no_ident cur w_ctx [100; 91; 91; 49; 93; 93]%Z
       (Parsed (ESub (EName w_d) (EList [EConst (VInt 1)]))) 100) = Raises CrTypeUnhashable.
Proof. vm_compute. split; reflexivity. Qed.

(* non-vacuity: the premise of E1 is met by real parse outcomes, the repaired evaluator turns the
   four witnesses into ExpressionError, and ordinary conditions evaluate *)
Example C20_expr_nonvacuous :
  parse_catchable (Parsed (EName w_x)) /\ parse_catchable PSyntaxError /\ parse_catchable (PCrash CrValue)
  /\ evaluate_py no_ident fixed w_ctx [45; 120]%Z (Parsed (EUnary UUSub (EName w_x))) 100 = Err
  /\ evaluate_py no_ident fixed w_ctx [100; 91; 91; 49; 93; 93]%Z
       (Parsed (ESub (EName w_d) (EList [EConst (VInt 1)]))) 100 = Err
  /\ evaluate_py no_ident fixed w_ctx [110; 111; 116; 32; 120]%Z
       (Parsed (EUnary UNot (EUnary UNot (EUnary UNot (EName w_x))))) 3 = Err
  /\ evaluate_py no_ident fixed w_ctx [39; 55296; 39]%Z (PCrash CrValue) 100 = Err
  /\ evaluate_py no_ident cur w_ctx [120; 32; 61; 61; 32; 39; 97; 98; 99; 39]%Z
       (Parsed (ECompare (EName w_x) [(CEq, EConst (VStr [97; 98; 99]%Z))])) 100 = Ok (VBool true)
  /\ evaluate_py no_ident cur w_ctx [32; 84; 82; 85; 69; 10]%Z PSyntaxError 100 = Ok (VBool true)
  /\ evaluate_py no_ident cur w_ctx [102; 40; 41]%Z (Parsed EOther) 100 = Err.
Proof. vm_compute. repeat split. Qed.

Print Assumptions C20_validate_iff.
Print Assumptions C20_validate_error_kind.
Print Assumptions C20_struct_error_first.
Print Assumptions C20_order_sound.
Print Assumptions C20_acyclic_iff_no_cycle.
Print Assumptions C20_total_fixed.
Print Assumptions C20_total_refuted.
Print Assumptions C20_total_needs_all_fixes.
Print Assumptions C20_no_effects.
Print Assumptions C20_budget_monotone.
Print Assumptions C20_budget_suffices.
Print Assumptions C20_callers.
Print Assumptions C20_callers_total_fixed.
Print Assumptions C20_callers_refuted.
