"""Driver: ./check <Cnn> [--tier quick|thorough] [--seed N] | ./check setup | ./check replay <file>

For one property:
  1. regenerate coq/gen/*.v from /repo's working tree (translator, fail-closed);
  2. build the cone of coq/props/Cnn.v (full .vo), scan for Admitted/Axiom/..., Print Assumptions;
  3. run the property's correspondence (model vs. implementation) with the implementation-side
     monitors on;
  4. if a proof obligation or the correspondence broke, search for a concrete failing input;
  5. write evidence/Cnn.json, print KNOWN-FINDING / VIOLATION lines, exit 0 / 1.
"""
from __future__ import annotations

import argparse
import importlib
import json
import os
import random
import sys
import time
import traceback

from harness import lib
from harness.lib import Ctx, RunResult, Violation


def _load(pid: str):
    return importlib.import_module(f"harness.props.{pid.lower()}")


def do_setup() -> int:
    """Build what the claimed checks need (their Coq cones + the engine oracle). Files of properties that are
    not claimed yet (work in progress) are not built here and cannot break the setup."""
    from harness import translate
    t0 = time.time()
    errs = translate.run_all()
    for e in errs:
        print("translator:", e)
    claimed = (lib.VERIF / "harness" / "claimed.txt").read_text().split()
    targets = ["model/Engine.vo", "model/EngineInv.vo"]
    for pid in claimed:
        try:
            targets += list(getattr(_load(pid), "COQ_TARGETS", []))
        except Exception as e:
            print("cannot load", pid, e)
    targets = sorted(set(targets))
    b = lib.coq_build(targets, timeout=3000)
    print(b.log[-3000:])
    rc = 0 if b.ok else 1
    try:
        from harness import oracle
        err = oracle.build(force=True)
        if err:
            print("oracle:", err)
            rc = 1
    except ImportError:
        pass
    print(f"setup done in {time.time()-t0:.1f}s rc={rc} targets={len(targets)}")
    return rc


def known_match(known: list[dict], pid: str, v: Violation) -> dict | None:
    for k in known:
        if k.get("property") == pid and k.get("status", "open") == "open" and k.get("signature") == v.signature:
            return k
    return None


def run_check(pid: str, tier: str, seed: int) -> int:
    t0 = time.time()
    os.environ["VERIF_TIER"] = tier
    os.environ["VERIF_SEED"] = str(seed)
    mod = _load(pid)
    ctx = Ctx(pid=pid, tier=tier, seed=seed, rng=random.Random(seed * 1000003 + int(pid[1:])))
    broken: list[str] = []

    # 1. translator
    from harness import translate
    try:
        terrs = translate.run_all()
    except Exception as e:  # fail closed
        terrs = [f"translator crashed: {e!r}"]
    cone = lib.gen_cone(list(getattr(mod, "COQ_TARGETS", [])))
    for e in terrs:
        gen_name = e.split(":", 1)[0].strip()
        if cone is None or gen_name.replace(".v", "") in cone or gen_name.startswith(("translator crashed", "Gen_broken")):
            broken.append(f"translator: {e}")
        else:
            print(f"  (translator error outside this property's cone, ignored here: {e[:200]})")

    # 2. proofs
    targets = list(getattr(mod, "COQ_TARGETS", []))
    theorems = list(getattr(mod, "THEOREMS", []))
    if not theorems:      # default: every `Theorem` of the property file
        import re as _re
        pf = lib.COQ / "props" / f"{pid}.v"
        if pf.exists():
            theorems = [f"Stab.props.{pid}.{m}" for m in _re.findall(r"^Theorem\s+(\w+)", pf.read_text(), _re.M)]
    build = lib.coq_build(targets) if targets else lib.BuildResult(ok=True)
    ctx.build = build
    if not build.ok:
        broken.append("coq build failed: " + ", ".join(build.failed) + " :: " + _first_error(build.log))
    for h in build.hygiene:
        broken.append("hygiene: " + h)
    assum: dict[str, list[str]] = {}
    if build.ok and theorems:
        assum = lib.print_assumptions(theorems)
        for t, axs in assum.items():
            bad = [a for a in axs if a not in lib.ALLOWED_AXIOMS]
            if bad:
                broken.append(f"theorem {t} depends on axioms {bad}")
    discharged = sum(1 for t in theorems if build.ok and not [a for a in assum.get(t, ["?"]) if a not in lib.ALLOWED_AXIOMS])
    # thorough tier: the independent checker re-checks the compiled property file and everything it depends on and
    # prints the axioms / guard, positivity and universe escapes it relies on
    coqchk_summary = None
    if tier == "thorough" and build.ok and (lib.COQ / "props" / f"{pid}.vo").exists():
        r = lib.sh(f"timeout 1500 coqchk -silent -o -Q . Stab Stab.props.{pid}", cwd=lib.COQ, timeout=1600)
        txt = r.stdout[-1500:]
        coqchk_summary = " ".join(txt.split())[-600:]
        import re as _re2
        ok = r.returncode == 0 and all(_re2.search(pat + r":\s*<none>", txt) for pat in (
            r"Axioms", r"relying on type-in-type", r"relying on unsafe \(co\)fixpoints", r"positivity is assumed"))
        if not ok:
            broken.append("coqchk: the independent checker reports axioms or unchecked constants: " + coqchk_summary)

    # 3. correspondence + monitors
    ctx.broken = broken
    try:
        res: RunResult = mod.run(ctx)
    except Exception:
        res = RunResult()
        broken.append("correspondence harness crashed: " + traceback.format_exc()[-1500:])
    for d in res.disagreements[:20]:
        broken.append("correspondence: model and implementation differ: " + json.dumps(d, default=str)[:600])

    # 4. search when something broke and no concrete failing input is at hand
    violations: list[Violation] = list(res.violations)
    known0 = lib.load_known()
    unexplained = [v for v in violations if known_match(known0, pid, v) is None]
    if broken and not unexplained and hasattr(mod, "search"):
        try:
            violations += mod.search(ctx, broken)
        except Exception:
            broken.append("search crashed: " + traceback.format_exc()[-800:])

    # 5. verdict
    known = lib.load_known()
    reported: list[Violation] = []
    known_hit: dict[str, Violation] = {}
    for v in violations:
        k = known_match(known, pid, v)
        if k is not None:
            known_hit.setdefault(k["signature"], v)
        else:
            reported.append(v)
    # broken items that are fully explained by nothing else remain violations (no failing input)
    lines = []
    for sig, v in known_hit.items():
        lines.append(f"KNOWN-FINDING: property={pid} {v.what}")
    # de-duplicate reported by signature
    seen = set()
    uniq = []
    for v in reported:
        if v.signature not in seen:
            seen.add(v.signature)
            uniq.append(v)
    exit_code = 0
    replay_paths = []
    for v in uniq[:5]:
        path = lib.write_replay(pid, {"property": pid, "what": v.what, "signature": v.signature,
                                      "replay": v.replay, "broken": broken, "tier": tier, "seed": seed})
        replay_paths.append(path)
        lines.append(f"VIOLATION property={pid} replay={path}")
        exit_code = 1
    if broken and not uniq:
        path = lib.write_replay(pid, {"property": pid, "what": "proof obligation or correspondence no longer checks",
                                      "no_longer_checks": broken, "tier": tier, "seed": seed,
                                      "note": "searched the model and the implementation for a failing input; none found"})
        replay_paths.append(path)
        lines.append(f"VIOLATION property={pid} replay={path} no-failing-input-found")
        exit_code = 1

    wall = time.time() - t0
    cov = {
        "obligations": len(theorems),
        "discharged": discharged,
        "checker_cmd": "cd /verif/coq && coq_makefile -f _CoqProject -o Makefile && make " + " ".join(targets)
                       + "  (coqc 8.16.1, full .vo; Print Assumptions per theorem"
                       + ("; coqchk -o: " + coqchk_summary if coqchk_summary else "") + ")",
        "trusted_base": getattr(mod, "TRUSTED_BASE", []) + [
            "Coq 8.16.1 kernel (coqc; vm_compute used, native_compute not used)",
            "harness/translate.py (Python ast -> coq/gen/*.v, fail-closed)",
            "harness correspondence check (runs model definitions inside Coq / extracted OCaml against /repo)",
        ],
        "theorems": theorems,
        "axioms_per_theorem": assum,
        "evaluations": res.evaluations,
        "distinct_nontrivial": res.distinct_nontrivial,
        "rule": res.rule,
        "samples": res.samples[:8] if res.samples else [{"note": "no correspondence cases were run"}],
        "traces_validated_against_impl": res.traces_validated,
        "disagreements": len(res.disagreements),
        "exhaustive": res.exhaustive,
        "input_distribution": res.distribution,
        "notes": res.notes,
        "coq_build_s": round(build.wall_s, 2),
        "no_longer_checks": broken,
        "known_findings_reproduced": sorted(known_hit),
    }
    cov.update(res.extra)
    lib.write_evidence(pid, {
        "property_id": pid, "tier": tier, "seed": seed, "level": "proof", "coverage": cov,
        "assumptions": getattr(mod, "ASSUMPTIONS", []),
        "wall_s": round(wall, 2), "violations": len(uniq) + (1 if (broken and not uniq) else 0),
    })
    for ln in lines:
        print(ln)
    print(f"[{pid}] tier={tier} seed={seed} theorems={discharged}/{len(theorems)} cases={res.evaluations} "
          f"disagreements={len(res.disagreements)} violations={len(uniq)} known={len(known_hit)} "
          f"broken={len(broken)} wall={wall:.1f}s -> exit {exit_code}")
    if broken:
        for b in broken[:10]:
            print("  no longer checks:", b[:400])
    return exit_code


def _first_error(log: str) -> str:
    lines = log.splitlines()
    for i, ln in enumerate(lines):
        if ln.startswith("Error") or "Error:" in ln:
            return " | ".join(lines[max(0, i - 2): i + 4])[:600]
    return log[-300:]


def do_replay(path: str) -> int:
    obj = json.load(open(path))
    pid = obj["property"]
    mod = _load(pid)
    if not hasattr(mod, "replay"):
        print("no replay support for", pid)
        return 2
    ok = mod.replay(obj)
    print("replay:", "property holds on this input" if ok else f"VIOLATION property={pid} replay={path}")
    return 0 if ok else 1


def main(argv=None) -> int:
    ap = argparse.ArgumentParser()
    ap.add_argument("what")
    ap.add_argument("arg", nargs="?")
    ap.add_argument("--tier", default=os.environ.get("VERIF_TIER", "quick"))
    ap.add_argument("--seed", type=int, default=None)
    a = ap.parse_args(argv)
    if a.what == "setup":
        return do_setup()
    if a.what == "replay":
        return do_replay(a.arg)
    seed = a.seed if a.seed is not None else lib.seed()
    tier = a.tier if a.tier in ("quick", "thorough") else "quick"
    if a.what == "all":
        rc = 0
        for p in sorted(os.listdir(lib.VERIF / "harness" / "props")):
            if p.startswith("c") and p.endswith(".py"):
                rc |= run_check(p[:-3].upper(), tier, seed)
        return rc
    return run_check(a.what.upper(), tier, seed)


if __name__ == "__main__":
    sys.exit(main())
