"""Rewrite the seeded-changes table of DESIGN.md from seeded/*/meta.json and seeded/regression.json."""
import json
from pathlib import Path

V = Path(__file__).resolve().parent.parent


def main():
    reg = {}
    rp = V / "seeded" / "regression.json"
    if rp.exists():
        for r in json.loads(rp.read_text()):
            reg.setdefault(r["id"], []).append(r)
    rows = ["| seed | property | what was changed | needs | caught by (re-run against /repo HEAD) |", "|---|---|---|---|---|"]
    for d in sorted((V / "seeded").iterdir()):
        if not (d / "meta.json").exists():
            continue
        m = json.loads((d / "meta.json").read_text())
        rs = reg.get(d.name, [])
        if rs:
            caught = "; ".join(
                f"`./check {r['property']}` {r['tier']}: " + ("patch no longer applies" if not r["applies"] else
                (f"exit {r['exit']}" + (", concrete replay" if r["exit"] == 1 and not r.get("no_failing_input") else
                                        (", proof / correspondence broken, no-failing-input-found" if r["exit"] == 1 else " (MISSED)"))))
                for r in rs)
        else:
            caught = m.get("detected_by", "")
        rows.append("| %s | %s | %s | %s | %s |" % (d.name, m["property"], m["summary"].replace("|", "/")[:300],
                                                   m.get("needs", "").replace("|", "/")[:260], caught.replace("|", "/")))
    p = V / "DESIGN.md"
    s = p.read_text()
    a, b = "<!-- SEEDED-TABLE-BEGIN -->", "<!-- SEEDED-TABLE-END -->"
    i, j = s.index(a) + len(a), s.index(b)
    p.write_text(s[:i] + "\n" + "\n".join(rows) + "\n" + s[j:])


if __name__ == "__main__":
    main()
