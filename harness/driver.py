"""Drives the REAL engine (/repo) one operation at a time, deterministically.

  Env(spec)         scratch file DB under /dev/shm, real SqliteWorkflowStore / SqliteQueue / QueueProcessor
  env.submit()      Orchestrator.start
  env.rows()        queue rows in id order
  env.deliver(id, ack=True, crash_at=None)   real poll_one -> _handle_message -> ack, counting write commits;
                    crash_at=k: the k-th write commit (0-based) of this delivery is rolled back and the
                    "process" dies (BaseException no handler catches)
  env.restart()     drop all in-memory state (connections, dedup filter, executing-task set, bus/recorder)
  env.recover()     processor.run_recovery()
  env.cancel() / env.signal(ref, name, persistent)
  env.alpha()       canonical abstraction of the durable state (see DESIGN.md section 3)
  env.ledger        every Task.execute call: (stage ref, task index, n-th execution, ...)

Workflow spec (JSON-able):
  {"stages":[{"ref":"A","reqs":[],"join":"AND","threshold":0,"split":"AND","conds":{},"mutex":null,
              "choice":null,"enabled":null,"ctx":{},"tasks":[[step,...],...]}], "wctx":{}}
  step (one per execution of that task; the last repeats):
     "ok" | "ok:k=v,..." | "fail" | "failc" (FAILED_CONTINUE) | "stop" | "run" (RUNNING) | "run:k=v"
     | "trans" | "trans:k=v" (TransientError with context_update) | "perm" (PermanentError)
     | "exc" (plain Exception) | "jump:REF" | "susp" | "skip" | "cancel" | "redir"
"""
from __future__ import annotations

import json
import os
import sqlite3
import threading
from datetime import UTC, datetime, timedelta

from harness import lib

lib.ensure_repo_on_path()
import logging as _logging
_logging.disable(_logging.CRITICAL)

_real_connect = sqlite3.connect


class Crash(BaseException):
    pass


class _Obs:
    """commit observer / crash injector shared by all engine connections of the current Env"""
    count = 0
    crash_at = None
    enabled = False
    on_commit = None


class ObservedConnection(sqlite3.Connection):
    def commit(self):
        if _Obs.enabled and self.in_transaction:
            if _Obs.crash_at is not None and _Obs.count == _Obs.crash_at:
                self.rollback()
                _Obs.crash_at = None
                raise Crash()
            super().commit()
            _Obs.count += 1
            if _Obs.on_commit is not None:
                _Obs.on_commit()
            return
        super().commit()


def _connect(*a, **kw):
    kw.setdefault("factory", ObservedConnection)
    return _real_connect(*a, **kw)


def install_connect_wrapper():
    sqlite3.connect = _connect


def parse_kv(s: str) -> dict:
    out = {}
    if not s:
        return out
    for part in s.split(","):
        k, _, v = part.partition("=")
        if v.startswith("[") and v.endswith("]"):
            out[k] = [x for x in v[1:-1].split("|") if x]
        else:
            try:
                out[k] = int(v)
            except ValueError:
                out[k] = v
    return out


SYN_KINDS = ("before", "after", "on_failure")


import threading as _threading
_tl_guard = _threading.local()


class Env:
    def __init__(self, spec: dict, *, events: bool = False, trust_negative: bool = False,
                 max_wait_retries: int | None = None, tag: str = "eng", threaded: bool = False):
        self.spec = spec
        self.threaded = threaded             # every delivery on a fresh worker thread (new thread-local connections)
        self.events = events
        self.trust_negative = trust_negative
        self.dir = lib.scratch_dir(tag)
        self.db = str(self.dir / "w.db")
        self.url = f"sqlite:///{self.db}"
        self.ledger: list[dict] = []
        self.exec_count: dict[tuple, int] = {}
        self.handled: list[tuple] = []       # (row id, type) for every handler invocation that started
        self.wf_id = None
        self.stage_ids: dict[str, str] = {}  # ref -> id
        self.id_ref: dict[str, str] = {}
        self.task_ids: dict[str, tuple] = {}  # task id -> (ref, idx)
        self.max_wait_retries = max_wait_retries
        self.bus_log: list = []
        self.delayed: dict[int, bool] = {}   # row id -> was pushed with a delay (recorded at first sight)
        self.due: dict[int, float] = {}      # row id -> the deliver_at it was pushed with (first sight; deliver() rewrites the column)
        self._hc = None
        install_connect_wrapper()
        self._open(first=True)

    # ---------------------------------------------------------------- lifecycle
    def _reset_globals(self):
        from stabilize import RunTaskHandler
        from stabilize.persistence.connection import ConnectionManager, SingletonMeta
        from stabilize.queue.dedup import get_deduplicator, reset_deduplicator
        try:
            ConnectionManager().close_all()
        except Exception:
            pass
        SingletonMeta.reset(ConnectionManager)
        RunTaskHandler._executing_tasks.clear()
        try:
            from stabilize.resilience.cancellation import reset_cancellation_state
            reset_cancellation_state()
        except Exception:
            pass
        reset_deduplicator()
        get_deduplicator(expected_items=2000)
        from stabilize.events import reset_event_bus, reset_event_recorder
        reset_event_bus()
        reset_event_recorder()
        try:   # a BaseException (simulated crash) inside a transaction block leaves the scope bound to the thread
            from stabilize.events import txn_scope
            txn_scope._local.scope = None
        except Exception:
            pass

    def _open(self, first=False):
        from stabilize import QueueProcessor, SqliteQueue, SqliteWorkflowStore, TaskRegistry
        from stabilize.queue.processor.config import QueueProcessorConfig
        from stabilize.resilience.config import HandlerConfig
        self._reset_globals()
        _Obs.enabled = False
        self.store = SqliteWorkflowStore(self.url, create_tables=True)
        self.queue = SqliteQueue(self.url, table_name="queue_messages")
        self.queue._create_table()
        if self.events:
            from stabilize.events import configure_event_sourcing
            from stabilize.events.store.sqlite import SqliteEventStore
            self.event_store = SqliteEventStore(self.url, create_tables=True)
            configure_event_sourcing(self.event_store)
            from stabilize.events import get_event_bus
            bus = get_event_bus()
            try:
                bus.subscribe("verif-sync", lambda ev: self.bus_log.append(getattr(ev, "sequence", None)))
            except Exception:
                pass
        self.registry = TaskRegistry()
        for st in self.spec["stages"]:
            for i, _ in enumerate(st.get("tasks", [])):
                # "alias": the stage's tasks name their implementation through a registry ALIAS (resolved by the handlers
                # through message.task_type only); behaviour is the same, so the model does not know about it
                self.registry.register(f"vt_{st['ref']}_{i}", self._make_task(st["ref"], i, st),
                                       aliases=([f"va_{st['ref']}_{i}"] if st.get("alias") else None))
            for kind in SYN_KINDS:
                for ch in st.get(kind, []):
                    for i, _ in enumerate(ch.get("tasks", [])):
                        self.registry.register(f"vt_{ch['ref']}_{i}", self._make_task(ch["ref"], i, ch))
        self._register_builders()
        hc = HandlerConfig()
        if self.max_wait_retries is not None:
            import dataclasses
            hc = dataclasses.replace(hc, max_stage_wait_retries=self.max_wait_retries)
        self._hc = hc
        cfg = QueueProcessorConfig.from_handler_config(hc)
        try:
            cfg.dedup_trust_negative_cache = self.trust_negative
        except Exception:
            pass
        import stabilize.resilience.config as rc
        self._patch_global_handler_config(rc, hc)
        self.processor = QueueProcessor(self.queue, config=cfg, store=self.store, task_registry=self.registry,
                                        handler_config=hc)
        self._wrap_handlers()
        self.hconn = _real_connect(self.db, timeout=30, isolation_level=None, check_same_thread=False)  # harness-owned, autocommit
        self.hconn.row_factory = sqlite3.Row
        if first:
            self._create_foreign_workflow()
            self._install_triggers()
            self._create_workflow()
        _Obs.enabled = True
        _Obs.count = 0
        _Obs.crash_at = None

    def _register_builders(self):
        """stage types with synthetic children: a StageDefinitionBuilder per parent (`vs_<ref>`: adds the before /
        after / on-failure children of the spec) and per child (`vc_<ref>`: builds the child's scripted tasks)"""
        from stabilize import StageExecution, TaskExecution
        from stabilize.models.stage import SyntheticStageOwner
        from stabilize.stages.builder import StageDefinitionBuilder, get_default_factory
        fac = get_default_factory()
        for st in self.spec["stages"]:
            if st.get("built"):
                # a stage whose tasks are built by its StageDefinitionBuilder at start time (like the built-in wait stage)
                def mk_built(st=st):
                    class BuiltBuilder(StageDefinitionBuilder):
                        @property
                        def type(self):
                            return "vb_" + st["ref"]

                        def build_tasks(self, stage):
                            n = len(st.get("tasks", []))
                            return [TaskExecution.create(name=f"t{i}", implementing_class=f"vt_{st['ref']}_{i}",
                                                         stage_start=(i == 0), stage_end=(i == n - 1)) for i in range(n)]
                    return BuiltBuilder()
                fac.register(mk_built())
        for st in self.spec["stages"]:
            kids = {k: st.get(k, []) for k in SYN_KINDS}
            if not any(kids.values()):
                continue

            def mk_parent(st=st, kids=kids):
                class ParentBuilder(StageDefinitionBuilder):
                    @property
                    def type(self):
                        return "vs_" + st["ref"]

                    def _add(self, stage, graph, lst, owner):
                        for ch in lst:
                            c = StageExecution.create_synthetic(type="vc_" + ch["ref"], name=ch["ref"], parent=stage,
                                                                owner=owner, context=dict(ch.get("ctx", {})))
                            (graph.append if ch.get("chain") else graph.add)(c)

                    def before_stages(self, stage, graph):
                        self._add(stage, graph, kids["before"], SyntheticStageOwner.STAGE_BEFORE)

                    def after_stages(self, stage, graph):
                        self._add(stage, graph, kids["after"], SyntheticStageOwner.STAGE_AFTER)

                    def on_failure_stages(self, stage, graph):
                        self._add(stage, graph, kids["on_failure"], SyntheticStageOwner.STAGE_AFTER)
                return ParentBuilder()
            fac.register(mk_parent())
            for lst in kids.values():
                for ch in lst:
                    def mk_child(ch=ch):
                        class ChildBuilder(StageDefinitionBuilder):
                            @property
                            def type(self):
                                return "vc_" + ch["ref"]

                            def build_tasks(self, stage):
                                n = len(ch.get("tasks", []))
                                return [TaskExecution.create(name=f"t{i}", implementing_class=f"vt_{ch['ref']}_{i}",
                                                             stage_start=(i == 0), stage_end=(i == n - 1)) for i in range(n)]
                        return ChildBuilder()
                    fac.register(mk_child())

    def _refresh_ids(self):
        """synthetic stages and their tasks are created at run time: learn their ids (name = child ref)"""
        for r in self.hconn.execute("SELECT id, name FROM stage_executions WHERE execution_id = ? ORDER BY rowid", (self.wf_id,)):
            if r["id"] not in self.id_ref:
                self.id_ref[r["id"]] = r["name"]
                self.stage_ids.setdefault(r["name"], r["id"])
        for r in self.hconn.execute("SELECT t.id, t.stage_id, t.name FROM task_executions t ORDER BY t.id"):
            if r["id"] not in self.task_ids and r["stage_id"] in self.id_ref and str(r["name"])[1:].isdigit():
                self.task_ids[r["id"]] = (self.id_ref[r["stage_id"]], int(r["name"][1:]))

    def _patch_global_handler_config(self, rc, hc):
        # handlers built without an explicit config call get_handler_config(); make it return ours
        rc._default_handler_config = hc

    def _wrap_handlers(self):
        env = self
        for mt, h in list(self.processor._handlers.items()):
            orig = h.handle

            def wrapped(message, _orig=orig, _mt=mt):
                env.handled.append((getattr(message, "message_id", None), _mt.__name__))
                return _orig(message)
            h.handle = wrapped

    def restart(self):
        """kill -9 + fresh process: every in-memory object is dropped; the file stays."""
        try:
            self.hconn.close()
        except Exception:
            pass
        self._open(first=False)

    def close(self):
        _Obs.enabled = False
        try:
            self.hconn.close()
        except Exception:
            pass
        try:
            self._reset_globals()
        except Exception:
            pass
        lib.rm_rf(self.dir)

    # ---------------------------------------------------------------- workflow construction
    def _make_task(self, ref, idx, st):
        from stabilize import Task, TaskResult
        from stabilize.tasks.interface import SkippableTask
        env = self
        steps = st["tasks"][idx]

        class VTask(Task):
            def execute(self, stage):
                key = (ref, idx)
                n = env.exec_count.get(key, 0)
                env.exec_count[key] = n + 1
                step = steps[min(n, len(steps) - 1)]
                ctx = dict(stage.context)
                try:
                    canceled = bool(stage.execution.is_canceled)
                except Exception:
                    canceled = None
                env.ledger.append({"ref": ref, "task": idx, "n": n, "step": step,
                                   "ctx": {k: v for k, v in ctx.items() if not k.startswith("_") or k in ("_signal_name", "_jump_count")},
                                   "canceled": canceled, "commit_no": env.total_commits(), "audit_seq": env.audit_max(),
                                   "stage_status": stage.status.name})
                kind, _, arg = step.partition(":")
                kv = parse_kv(arg) if kind not in ("jump",) else {}
                if kind == "ok":
                    return TaskResult.success(outputs=kv or None)
                if kind == "fail":
                    return TaskResult.terminal("scripted failure")
                if kind == "failc":
                    return TaskResult.failed_continue("scripted failure (continue)")
                if kind == "stop":
                    from stabilize.models.status import WorkflowStatus
                    return TaskResult(status=WorkflowStatus.STOPPED)
                if kind == "run":
                    return TaskResult.running(context=kv or None)
                if kind == "trans":
                    from stabilize.errors import TransientError
                    if kv:
                        raise TransientError("scripted transient", context_update=kv)
                    raise TransientError("scripted transient")
                if kind == "perm":
                    from stabilize.errors import PermanentError
                    raise PermanentError("scripted permanent")
                if kind == "exc":
                    raise RuntimeError("scripted exception")
                if kind == "jump":
                    return TaskResult.jump_to(arg)
                if kind == "susp":
                    return TaskResult.suspend() if hasattr(TaskResult, "suspend") else TaskResult(status=_ws("SUSPENDED"))
                if kind == "skip":
                    return TaskResult.skipped() if hasattr(TaskResult, "skipped") else TaskResult(status=_ws("SKIPPED"))
                if kind == "cancel":
                    return TaskResult(status=_ws("CANCELED"))
                if kind == "redir":
                    return TaskResult(status=_ws("REDIRECT"))
                raise AssertionError("unknown step " + step)

        if st.get("skippable_disabled") and idx in st["skippable_disabled"]:
            class VSkip(SkippableTask):
                def is_enabled(self, stage):
                    return False

                def do_execute(self, stage):
                    return VTask().execute(stage)
            return VSkip()
        return VTask()

    def _create_foreign_workflow(self):
        """An older, FINISHED execution in the same store whose stages have the same ref_ids as the workflow under test but
        no requisites, one task each and a different status: every query of the engine is scoped by execution id, so it must
        be invisible.  A lookup that forgets the scope (ref_id alone, or all rows of a table) picks these rows up first.
        Stored before the audit triggers exist; never submitted; the model does not know about it."""
        if self.spec.get("no_foreign"):
            return
        from stabilize import StageExecution, TaskExecution, Workflow
        from stabilize.models.status import WorkflowStatus
        stages = []
        for st in self.spec["stages"]:
            s = StageExecution(ref_id=st["ref"], type="verif_foreign", name=st["ref"], context={"k1": 99, "k2": 99, "k3": 99},
                               requisite_stage_ref_ids=set(),
                               tasks=[TaskExecution.create(name="t0", implementing_class="vt_foreign", stage_start=True, stage_end=True)])
            s.status = WorkflowStatus.SUCCEEDED
            s.outputs = {"k1": 98, "k4": 98}
            for t in s.tasks:
                t.status = WorkflowStatus.SUCCEEDED
            stages.append(s)
        wf = Workflow.create(application="verif", name="verif-foreign", stages=stages)
        wf.status = WorkflowStatus.SUCCEEDED
        self.store.store(wf)
        self.foreign_id = wf.id

    def _create_workflow(self):
        from stabilize import StageExecution, TaskExecution, Workflow
        from stabilize.models.stage import JoinType, SplitType
        stages = []
        for st in self.spec["stages"]:
            ctx = dict(st.get("ctx", {}))
            if st.get("enabled") is not None:
                ctx["stageEnabled"] = st["enabled"]
            s = StageExecution(
                ref_id=st["ref"], type=("vb_" + st["ref"] if st.get("built") else "vs_" + st["ref"] if any(st.get(k) for k in SYN_KINDS) else "verif"), name=st["ref"], context=ctx,
                requisite_stage_ref_ids=set(st.get("reqs", [])),
                join_type=JoinType[st.get("join", "AND")], join_threshold=st.get("threshold", 0),
                split_type=SplitType[st.get("split", "AND")], split_conditions=dict(st.get("conds", {})),
                mutex_key=st.get("mutex"), deferred_choice_group=st.get("choice"),
                milestone_ref_id=(st["milestone"][0] if st.get("milestone") else None),
                milestone_status=(st["milestone"][1] if st.get("milestone") else None),
                start_time_expiry=(1 if st.get("expired") else None),
                tasks=[TaskExecution.create(name=f"t{i}", implementing_class=("va_" if st.get("alias") else "vt_") + f"{st['ref']}_{i}",
                                            stage_start=(i == 0), stage_end=(i == len(st["tasks"]) - 1))
                       for i in range(0 if st.get("built") else len(st.get("tasks", [])))],
            )
            stages.append(s)
        wf = Workflow.create(application="verif", name="verif", stages=stages)
        for k, v in self.spec.get("wctx", {}).items():
            wf.context[k] = v
        self.store.store(wf)
        self.wf_id = wf.id
        for s in wf.stages:
            self.stage_ids[s.ref_id] = s.id
            self.id_ref[s.id] = s.ref_id
            for i, t in enumerate(s.tasks):
                self.task_ids[t.id] = (s.ref_id, i)

    def _install_triggers(self):
        c = self.hconn
        c.execute("CREATE TABLE IF NOT EXISTS verif_audit (seq INTEGER PRIMARY KEY AUTOINCREMENT, kind TEXT, "
                  "ent TEXT, old TEXT, new TEXT, extra TEXT)")
        c.execute("CREATE TRIGGER IF NOT EXISTS verif_st AFTER UPDATE OF status ON stage_executions "
                  "WHEN OLD.status IS NOT NEW.status BEGIN INSERT INTO verif_audit(kind, ent, old, new, extra) "
                  "VALUES ('stage', NEW.id, OLD.status, NEW.status, json_object('jc', json_extract(NEW.context, '$._jump_count'), "
                  "'old_bypass', json_extract(OLD.context, '$._jump_bypass'), 'old_fired', json_extract(OLD.context, '$._join_fired'), "
                  "'old_activated', json_extract(OLD.context, '$._activated_branches'))); END")
        c.execute("CREATE TRIGGER IF NOT EXISTS verif_st_add AFTER INSERT ON stage_executions BEGIN "
                  "INSERT INTO verif_audit(kind, ent, old, new) VALUES ('stage_add', NEW.id, NULL, NEW.status); END")
        c.execute("CREATE TRIGGER IF NOT EXISTS verif_tk AFTER UPDATE OF status ON task_executions "
                  "WHEN OLD.status IS NOT NEW.status BEGIN INSERT INTO verif_audit(kind, ent, old, new) "
                  "VALUES ('task', NEW.id, OLD.status, NEW.status); END")
        c.execute("CREATE TRIGGER IF NOT EXISTS verif_wf AFTER UPDATE OF status ON pipeline_executions "
                  "WHEN OLD.status IS NOT NEW.status BEGIN INSERT INTO verif_audit(kind, ent, old, new) "
                  "VALUES ('workflow', NEW.id, OLD.status, NEW.status); END")
        c.execute("CREATE TRIGGER IF NOT EXISTS verif_qi AFTER INSERT ON queue_messages BEGIN "
                  "INSERT INTO verif_audit(kind, ent, old, new, extra) VALUES ('push', NEW.id, NULL, NEW.message_type, NEW.payload); END")
        c.execute("CREATE TRIGGER IF NOT EXISTS verif_cancel AFTER UPDATE OF is_canceled ON pipeline_executions "
                  "WHEN OLD.is_canceled IS NOT NEW.is_canceled BEGIN INSERT INTO verif_audit(kind, ent, old, new) "
                  "VALUES ('canceled', NEW.id, OLD.is_canceled, NEW.is_canceled); END")

    # ---------------------------------------------------------------- operations
    def total_commits(self) -> int:
        return _Obs.count

    def submit(self):
        from stabilize import Orchestrator
        wf = self.store.retrieve(self.wf_id)
        Orchestrator(self.queue, store=self.store).start(wf)

    def queue_max_id(self) -> int:
        """highest id the queue table has ever allocated (AUTOINCREMENT sequence)"""
        try:
            r = self.hconn.execute("SELECT seq FROM sqlite_sequence WHERE name = 'queue_messages'").fetchone()
            return int(r[0]) if r else 0
        except Exception:
            return 0

    def rows(self) -> list[dict]:
        out = []
        for r in self.hconn.execute("SELECT id, message_type, payload, attempts, deliver_at, locked_until, max_attempts "
                                    "FROM queue_messages ORDER BY id"):
            p = json.loads(r["payload"])
            if r["id"] not in self.delayed:
                try:
                    da = datetime.fromisoformat(r["deliver_at"])
                    self.delayed[r["id"]] = (da - datetime.now(UTC)) > timedelta(seconds=3)
                    self.due[r["id"]] = da.timestamp()
                except Exception:
                    self.delayed[r["id"]] = False
                    self.due[r["id"]] = 0.0
            out.append({"id": r["id"], "type": r["message_type"], "payload": p, "attempts": r["attempts"],
                        "delayed": self.delayed[r["id"]], "due": self.due.get(r["id"], 0.0),
                        "deliver_at": r["deliver_at"], "locked_until": r["locked_until"], "max_attempts": r["max_attempts"]})
        return out

    def _make_visible(self, row_id: int, reset_attempts: bool):
        now = datetime.now(UTC)
        far = (now + timedelta(hours=1)).isoformat()
        near = (now - timedelta(minutes=1)).isoformat()
        self.hconn.execute("UPDATE queue_messages SET deliver_at = ?, locked_until = NULL WHERE id != ?", (far, row_id))
        if reset_attempts:
            self.hconn.execute("UPDATE queue_messages SET deliver_at = ?, locked_until = NULL, attempts = 0 WHERE id = ?", (near, row_id))
        else:
            self.hconn.execute("UPDATE queue_messages SET deliver_at = ?, locked_until = NULL WHERE id = ?", (near, row_id))

    def deliver(self, row_id: int, ack: bool = True, crash_at: int | None = None, reset_attempts: bool = False,
                on_commit=None, in_thread: bool = False) -> dict:
        """Deliver exactly that row through the real poll_one / _handle_message / ack path.
        crash_at = k: the k-th write commit of this delivery (0 = the poll's claim commit) is rolled back
        and the process dies there.  in_thread: the delivery runs on a fresh worker thread (joined before returning), so
        every thread-local connection of the store / queue / event store is new - what a QueueProcessor pool thread sees."""
        if in_thread or (self.threaded and not getattr(_tl_guard, "inside", False)):
            import threading
            box: dict = {}

            def run():
                _tl_guard.inside = True
                try:
                    box["r"] = self.deliver(row_id, ack=ack, crash_at=crash_at, reset_attempts=reset_attempts, on_commit=on_commit)
                except BaseException as e:  # noqa
                    box["e"] = e
            t = threading.Thread(target=run, name="verif-worker")
            t.start()
            t.join()
            if "e" in box:
                raise box["e"]
            return box["r"]
        self._make_visible(row_id, reset_attempts)
        base = _Obs.count
        res = {"polled": None, "crashed": False, "exception": None}
        if crash_at is not None:
            _Obs.crash_at = base + crash_at
        _Obs.on_commit = on_commit
        try:
            msg = self.queue.poll_one()
            if msg is None or int(msg.message_id) != row_id:
                res["commits"] = _Obs.count - base
                return res
            res["polled"] = type(msg).__name__
            try:
                self.processor._handle_message(msg)
                res["handler_commits"] = _Obs.count - base - 1
                if ack:
                    self.queue.ack(msg)
            except Crash:
                raise
            except Exception as e:  # what process_and_ack does: record + reschedule
                res["exception"] = type(e).__name__ + ": " + str(e)[:200]
                try:
                    msg.set_error_context(e)
                    _Obs.enabled = False      # the reschedule only moves deliver_at / lock: not modelled
                    self.queue.reschedule(msg, self.processor.config.retry_delay)
                finally:
                    _Obs.enabled = True
            res["commits"] = _Obs.count - base
        except Crash:
            res["crashed"] = True
            res["commits"] = _Obs.count - base
        finally:
            _Obs.crash_at = None
            _Obs.on_commit = None
        return res

    def recover(self, crash_at: int | None = None) -> dict:
        base = _Obs.count
        if crash_at is not None:
            _Obs.crash_at = base + crash_at
        try:
            self.processor.run_recovery()
            return {"crashed": False, "commits": _Obs.count - base}
        except Crash:
            return {"crashed": True, "commits": _Obs.count - base}
        finally:
            _Obs.crash_at = None

    def deliver_with_sweep(self, row_id: int, k: int) -> dict:
        """Deliver the row; right after the k-th write commit of the delivery (0 = the poll's claim commit) a recovery
        sweep runs on ANOTHER thread (its own connections, as the processor's sweeper has) and is joined before the
        handler continues: a sweep at a moment that lies between two commits of one handler.  Harness-only (no model step)."""
        import threading
        base = _Obs.count
        state = {"done": False, "swept": False}

        def hook():
            if state["done"] or _Obs.count - base != k + 1:
                return
            state["done"] = True

            def sweep():
                _Obs.enabled = False      # the sweep's own commits are not steps of this delivery
                try:
                    self.processor.run_recovery()
                    state["swept"] = True
                finally:
                    _Obs.enabled = True
            t = threading.Thread(target=sweep, name="verif-sweeper")
            t.start()
            t.join()
        r = self.deliver(row_id, on_commit=hook)
        r["swept"] = state["swept"]
        return r

    def maintenance(self):
        """what the processor loop does between deliveries besides polling: the retention sweep of stage claims.  Not a
        modelled step: for a live workflow it must change nothing (its commit, if any, is not counted)."""
        _Obs.enabled = False
        try:
            self.store.cleanup_completed_stage_claims()
        finally:
            _Obs.enabled = True

    def cancel(self):
        from stabilize import Orchestrator
        wf = self.store.retrieve(self.wf_id)
        Orchestrator(self.queue, store=self.store).cancel(wf, user="verif", reason="verif")

    def signal(self, ref: str, name: str = "go", persistent: bool = True, data: dict | None = None):
        from stabilize.queue.messages import SignalStage
        with self.store.transaction(self.queue) as txn:
            txn.push_message(SignalStage(execution_type="PIPELINE", execution_id=self.wf_id,
                                         stage_id=self.stage_ids[ref], signal_name=name,
                                         signal_data=data or {}, persistent=persistent))

    def pause(self):
        self.store.pause(self.wf_id, "verif")

    def unpause(self):
        from stabilize import Orchestrator
        Orchestrator(self.queue, store=self.store).unpause(self.store.retrieve(self.wf_id))

    def restart_stage(self, ref: str):
        from stabilize import Orchestrator
        Orchestrator(self.queue, store=self.store).restart(self.store.retrieve(self.wf_id), self.stage_ids[ref])

    def sweep_dlq(self):
        self.processor._check_dlq()

    # ---------------------------------------------------------------- observation
    def workflow(self):
        return self.store.retrieve(self.wf_id)

    def audit(self, since: int = 0) -> list[dict]:
        return [dict(r) for r in self.hconn.execute("SELECT * FROM verif_audit WHERE seq > ? ORDER BY seq", (since,))]

    def audit_max(self) -> int:
        r = self.hconn.execute("SELECT COALESCE(MAX(seq), 0) FROM verif_audit").fetchone()
        return r[0]

    def processed_ids(self) -> set:
        return {r[0] for r in self.hconn.execute("SELECT message_id FROM processed_messages")}

    def dlq_rows(self) -> list:
        try:
            return [dict(r) for r in self.hconn.execute("SELECT * FROM queue_messages_dlq ORDER BY id")]
        except sqlite3.OperationalError:
            return []

    def claims(self) -> list:
        try:
            return [(r["claim_key"], self.id_ref.get(r["stage_id"], r["stage_id"]))
                    for r in self.hconn.execute("SELECT claim_key, stage_id FROM stage_claims ORDER BY claim_key")]
        except sqlite3.OperationalError:
            return []

    def alpha(self) -> dict:
        """Canonical abstraction of the durable state, read through the harness connection."""
        c = self.hconn
        self._refresh_ids()
        w = c.execute("SELECT status, is_canceled FROM pipeline_executions WHERE id = ?", (self.wf_id,)).fetchone()
        stages = []
        for r in c.execute("SELECT id, ref_id, status, start_time, end_time, version, context, outputs, parent_stage_id, "
                           "synthetic_stage_owner FROM stage_executions WHERE execution_id = ? ORDER BY rowid", (self.wf_id,)):
            ctx = json.loads(r["context"] or "{}")
            outs = json.loads(r["outputs"] or "{}")
            tasks = [(t["status"], t["version"], t["start_time"] is not None) for t in c.execute(
                "SELECT status, version, start_time FROM task_executions WHERE stage_id = ? ORDER BY id", (r["id"],))]
            stages.append({
                "ref": self.id_ref.get(r["id"], "syn:" + str(r["parent_stage_id"])), "status": r["status"],
                "id": r["id"], "parent": r["parent_stage_id"], "owner": r["synthetic_stage_owner"],
                "onfail": 1 if ctx.get("_on_failure_planned") else 0,
                "started": r["start_time"] is not None, "ended": r["end_time"] is not None, "version": r["version"],
                "fired": bool(ctx.get("_join_fired", False)), "completed_branches": list(ctx.get("_completed_branches", [])),
                "activated": ctx.get("_activated_branches"), "bypass": bool(ctx.get("_jump_bypass", False)),
                "jump_count": ctx.get("_jump_count"), "buffered": len(ctx.get("_buffered_signals", []) or []),
                "signal": ctx.get("_signal_name"), "ctx_keys": sorted(k for k in ctx if not k.startswith("_") and k not in ("exception",)),
                "has_exception": "exception" in ctx, "plan_pending": bool(ctx.get("_plan_pending", False)), "hydrated": list(ctx.get("_hydrated_keys", []) or []),
                "user_ctx": {k: v for k, v in ctx.items() if k.startswith("k") and k[1:].isdigit()},
                "outputs": outs, "tasks": tasks,
            })
        queue = []
        for r in self.rows():
            p = r["payload"]
            queue.append({"id": r["id"], "type": r["type"], "stage": self.id_ref.get(p.get("stage_id", ""), None),
                          "stage_id": p.get("stage_id"), "phase": p.get("phase"),
                          "task": self.task_ids.get(p.get("task_id", ""), (None, None))[1],
                          "status": p.get("status"), "retry_count": p.get("retry_count", 0),
                          "attempts_carried": p.get("attempts", 0), "row_attempts": r["attempts"],
                          "target": p.get("target_stage_ref_id"), "persistent": p.get("persistent"),
                          "signal": p.get("signal_name")})
        return {"wf": w["status"], "canceled": bool(w["is_canceled"]), "stages": stages, "queue": queue,
                "processed": sorted(int(x) for x in self.processed_ids() if str(x).isdigit()),
                "claims": self.claims(), "dlq": len(self.dlq_rows())}


def _ws(name):
    from stabilize.models.status import WorkflowStatus
    return WorkflowStatus[name]


# ------------------------------------------------------------------------------------------------
# convenience: run a schedule policy to quiescence
# ------------------------------------------------------------------------------------------------

def drain(env: Env, pick=None, max_steps: int = 2000, on_step=None) -> int:
    """Deliver until the queue is empty. pick(rows, step) -> row id (default: lowest id = FIFO,
    non-delayed rows first is NOT applied: logical order only)."""
    steps = 0
    while steps < max_steps:
        rows = env.rows()
        if not rows:
            break
        rid = pick(rows, steps) if pick else rows[0]["id"]
        r = env.deliver(rid)
        if on_step:
            on_step(env, rid, r)
        steps += 1
    return steps
