"""Commit-level correspondence between coq/model/Engine.v (extracted to OCaml) and the real engine.

A Session drives the real engine (harness/driver.Env) with a list of actions chosen online from the
real queue, records the canonical abstraction alpha(db) after EVERY write commit, then replays the same
action list through the extracted model and compares state by state.  Row ids are AUTOINCREMENT and the
model allocates ids in push order, so "deliver row 7" means the same message on both sides.

Implementation-side monitors (one per property) evaluate the property statement directly on the real
trace (status audit triggers, task ledger, final store); they are the search for a failing input.
"""
from __future__ import annotations

import json
import os
import random
import re
import time
from concurrent.futures import ProcessPoolExecutor

from harness import lib, oracle
from harness.lib import RunResult, Violation

STATUSES = ["NOT_STARTED", "RUNNING", "PAUSED", "SUSPENDED", "SUCCEEDED", "FAILED_CONTINUE", "TERMINAL",
            "CANCELED", "REDIRECT", "STOPPED", "SKIPPED", "BUFFERED"]


# ------------------------------------------------------------------------------------------------
# spec <-> oracle text, alpha -> canonical string
# ------------------------------------------------------------------------------------------------

def kname(k: str) -> int:
    assert k.startswith("k") and k[1:].isdigit(), k
    return int(k[1:])


def kv_str(d: dict) -> str:
    return ",".join(f"{k}:{v}" for k, v in sorted((kname(k), int(v)) for k, v in d.items()))


def spec_index(spec: dict) -> dict:
    return {st["ref"]: i for i, st in enumerate(spec["stages"])}


SYN_KINDS = ("before", "after", "on_failure")


def spec_children(spec: dict) -> list[dict]:
    """the child templates of every stage, in a fixed order (their position + 1000 is the oracle's script key)"""
    return [ch for st in spec["stages"] for kind in SYN_KINDS for ch in st.get(kind, [])]


def child_script_id(spec: dict, ref: str) -> int:
    return 1000 + [ch["ref"] for ch in spec_children(spec)].index(ref)


def tmpl_str(spec: dict, st: dict, kind: str) -> str:
    return ",".join("%d:%d:%d:%d" % (child_script_id(spec, ch["ref"]), len(ch.get("tasks", [])), 1 if ch.get("chain") else 0,
                                   1 if ch.get("ctx", {}).get("_blocking_failure") else 0)
                    for ch in st.get(kind, []))


def spec_to_oracle(spec: dict) -> str:
    idx = spec_index(spec)
    out = ["CASE"]
    for st in spec["stages"]:
        ctx = {k: v for k, v in st.get("ctx", {}).items() if k.startswith("k") and k[1:].isdigit()}
        en = st.get("enabled")
        ms = st.get("milestone")
        out.append("STAGE blocking=%d milestone=%s expired=%d script=%d before=%s after=%s fail=%s reqs=%s join=%s thr=%d cof=%d fp=%d en=%s mutex=%s choice=%s maxj=%s ctx=%s tasks=%d dis=%s sor=%d conds=%s" % (
            1 if st.get("ctx", {}).get("_blocking_failure") else 0,
            "-" if not ms else "%d:%s" % (idx.get(ms[0], 999), ms[1]), 1 if st.get("expired") else 0,
            idx[st["ref"]], tmpl_str(spec, st, "before"), tmpl_str(spec, st, "after"), tmpl_str(spec, st, "on_failure"),
            ",".join(str(idx[r]) for r in sorted(st.get("reqs", []), key=lambda r: idx[r])),
            st.get("join", "AND"), st.get("threshold", 0),
            1 if st.get("ctx", {}).get("continuePipelineOnFailure") else 0,
            1 if st.get("ctx", {}).get("failPipeline", True) else 0,
            "-" if en is None else ("1" if en else "0"),
            "-" if st.get("mutex") is None else str(kname(st["mutex"])),
            "-" if st.get("choice") is None else str(kname(st["choice"])),
            "-" if st.get("ctx", {}).get("_max_jumps") is None else str(st["ctx"]["_max_jumps"]),
            kv_str(ctx), len(st.get("tasks", [])), ",".join(str(x) for x in st.get("skippable_disabled", [])),
            1 if st.get("split", "AND") == "OR" else 0,
            ",".join(f"{idx[r]}:{1 if str(v).strip().lower() in ('true', '1') else 0}" for r, v in st.get("conds", {}).items())))
    wm = spec.get("wctx", {}).get("_max_jumps")
    out.append("WMAX " + ("-" if wm is None else str(wm)))
    for i, st in enumerate(spec["stages"]):
        for t, steps in enumerate(st.get("tasks", [])):
            toks = []
            for step in steps:
                kind, _, arg = step.partition(":")
                if kind == "jump":
                    toks.append(f"jump:{idx[arg]}")
                elif arg:
                    toks.append(kind + ":" + ",".join(f"{kname(p.split('=')[0])}={p.split('=')[1]}" for p in arg.split(",")))
                else:
                    toks.append(kind)
            out.append(f"SCRIPT {i} {t} " + " ".join(toks))
    for ch in spec_children(spec):
        for t, steps in enumerate(ch.get("tasks", [])):
            toks = []
            for step in steps:
                kind, _, arg = step.partition(":")
                if kind == "jump" and arg in idx:            # a synthetic stage's task may jump to a top-level stage
                    toks.append(f"jump:{idx[arg]}")
                elif arg and kind != "jump":
                    toks.append(kind + ":" + ",".join(f"{kname(p.split('=')[0])}={p.split('=')[1]}" for p in arg.split(",")))
                else:
                    toks.append(kind)
            out.append(f"SCRIPT {child_script_id(spec, ch['ref'])} {t} " + " ".join(toks))
    return "\n".join(out) + "\n"


def action_to_oracle(a: tuple) -> str:
    k = a[0]
    if k == "D":
        return f"ACT D {a[1]} {1 if a[2] else 0}"
    if k == "X":
        return f"ACT X {a[1]} {a[2]}"
    if k == "R":
        return "ACT R"
    if k == "C":
        return "ACT C"
    if k == "B":
        return "ACT B"
    if k == "S":
        return f"ACT S {a[1]} {a[2]} {1 if a[3] else 0}"
    if k in ("P", "U"):
        return f"ACT {k}"
    if k == "T":
        return f"ACT T {a[1]}"
    if k == "W":
        return "ACT W"
    raise ValueError(a)


_MSG_FMT = {
    "StartWorkflow": lambda q: "StartWorkflow()",
    "CompleteWorkflow": lambda q: f"CompleteWorkflow({q['retry_count']})",
    "CancelWorkflow": lambda q: "CancelWorkflow()",
    "StartStage": lambda q: f"StartStage({q['si']},{q['retry_count']})",
    "CompleteStage": lambda q: f"CompleteStage({q['si']})",
    "SkipStage": lambda q: f"SkipStage({q['si']})",
    "CancelStage": lambda q: f"CancelStage({q['si']})",
    "StartTask": lambda q: f"StartTask({q['si']},{q['task']})",
    "RunTask": lambda q: f"RunTask({q['si']},{q['task']})",
    "CompleteTask": lambda q: f"CompleteTask({q['si']},{q['task']},{q['status']})",
    "JumpToStage": lambda q: f"JumpToStage({q['si']},{q['ti']})",
    "SignalStage": lambda q: f"SignalStage({q['si']},{q['sig']},{1 if q['persistent'] else 0})",
    "PauseTask": lambda q: f"PauseTask({q['si']},{q['task']})",
    "ResumeStage": lambda q: f"ResumeStage({q['si']})",
    "RestartStage": lambda q: f"RestartStage({q['si']})",
    "ContinueParentStage": lambda q: f"ContinueParentStage({q['si']},{'B' if 'BEFORE' in str(q.get('phase')) else 'A'},{q['retry_count']})",
}


def signame(s) -> int:
    return int(s[1:]) if isinstance(s, str) and s[:1] == "g" and s[1:].isdigit() else 0


def canon(a: dict, idx: dict, nexec: int) -> str:
    """idx: spec ref -> index of the top-level stages; synthetic children are appended in row (creation) order"""
    b = [f"W {a['wf']} {1 if a['canceled'] else 0} |"]
    idx = dict(idx)
    pos = {}                                    # stage id -> model index (row order = creation order)
    for i, s in enumerate(a["stages"]):
        pos[s["id"]] = i
        if s["ref"] in idx and s["parent"] is None:
            if idx[s["ref"]] != i:
                raise AssertionError(f"row order of top-level stages differs from the spec: {s['ref']} at {i}")
        else:
            idx.setdefault(s["ref"], i)
    for i, s in enumerate(a["stages"]):
        b.append(" S%d u%s%s n%d %s %d%d v%d f%d [%s] b%d j%d q%d g%s e%d p%d h[%s] {%s} {%s} [%s];" % (
            i, "-" if s["parent"] is None else pos.get(s["parent"], "?"),
            "-" if not s["owner"] else ("B" if "BEFORE" in s["owner"] else "A"), s.get("onfail", 0),
            s["status"], s["started"], s["ended"], s["version"], s["fired"],
            ",".join(str(idx[r]) for r in s["completed_branches"]), s["bypass"], s["jump_count"] or 0, s["buffered"],
            "-" if s["signal"] is None else str(signame(s["signal"])), s["has_exception"], s.get("plan_pending", 0),
            ",".join(str(x) for x in sorted(kname(k) for k in s.get("hydrated", []) if k.startswith("k") and k[1:].isdigit())),
            kv_str(s["user_ctx"]), kv_str({k: v for k, v in s["outputs"].items() if k.startswith("k") and k[1:].isdigit()}),
            ",".join(t[0] + ("+" if t[2] else "-") for t in s["tasks"])))
    idx = {**idx, **{sid: i for sid, i in pos.items()}}
    b.append(" | Q")
    for q in a["queue"]:
        q = dict(q)
        q["si"] = pos.get(q.get("stage_id"), idx.get(q["stage"], "?"))
        q["ti"] = idx.get(q.get("target"), "?")
        q["sig"] = signame(q.get("signal"))
        f = _MSG_FMT.get(q["type"])
        b.append(" %d:%s:%d" % (q["id"], f(q) if f else q["type"] + "(?)", q["row_attempts"]))
    b.append(" | P")
    for p in a["processed"]:
        b.append(f" {p}")
    b.append(" | C")
    for key, owner in a["claims"]:
        kind, _, name = key.partition(":")
        b.append(" %s%d=%s" % ("m" if kind == "mutex" else "c", kname(name), idx.get(owner, "?")))
    b.append(f" | X{nexec}")
    return "".join(b)


# ------------------------------------------------------------------------------------------------
# session
# ------------------------------------------------------------------------------------------------

class Session:
    def __init__(self, spec: dict, **envkw):
        from harness.driver import Env
        self.spec = spec
        self.idx = spec_index(spec)
        self.env = Env(spec, **envkw)
        self.actions: list[tuple] = []
        self.traces: list[list[str]] = []     # per action: alpha after every write commit
        self.results: list[dict] = []
        self.audit_marks: list[int] = []      # max audit seq after each action
        self.ledger_marks: list[int] = []     # ledger length after each action
        self.queue_marks: list[int] = []      # highest queue row id ever allocated, after each action

    def snap(self) -> str:
        return canon(self.env.alpha(), self.idx, len(self.env.ledger))

    def do(self, a: tuple) -> dict:
        env = self.env
        tr: list[str] = []
        k = a[0]
        r: dict = {}
        if k == "D":
            r = env.deliver(a[1], ack=a[2], on_commit=lambda: tr.append(self.snap()))
        elif k == "X":
            r = env.deliver(a[1], crash_at=a[2], on_commit=lambda: tr.append(self.snap()))
            env.restart()
        elif k == "R":
            r = env.recover()
            tr.append(self.snap())
        elif k == "C":
            env.cancel()
            tr.append(self.snap())
        elif k == "B":
            env.submit()
            tr.append(self.snap())
        elif k == "S":
            ref = [x for x, i in self.idx.items() if i == a[1]][0]
            env.signal(ref, f"g{a[2]}", a[3])
            tr.append(self.snap())
        elif k == "P":
            env.pause()
            tr.append(self.snap())
        elif k == "U":
            env.unpause()
            tr.append(self.snap())
        elif k == "T":
            ref = [x for x, i in self.idx.items() if i == a[1]][0]
            env.restart_stage(ref)
            tr.append(self.snap())
        elif k == "W":
            env.maintenance()
            tr.append(self.snap())
        elif k == "M":
            r = env.deliver_with_sweep(a[1], a[2])
            tr.append(self.snap())
        self.actions.append(a)
        self.traces.append(tr)
        self.results.append(r)
        self.audit_marks.append(env.audit_max())
        self.ledger_marks.append(len(env.ledger))
        self.queue_marks.append(env.queue_max_id())
        return r

    def rows(self):
        rs = self.env.rows()
        for r in rs:
            r["stage_ref"] = self.env.id_ref.get(r["payload"].get("stage_id"))
        return rs

    def oracle_text(self) -> str:
        return spec_to_oracle(self.spec) + "\n".join(action_to_oracle(a) for a in self.actions) + "\nEND\n"

    def close(self):
        self.env.close()


INV_FAILS: list = []   # (case index, action index, failing clause indices) from the last parse_oracle call


def parse_oracle(out: str) -> list[list[list[str]]]:
    """-> per case: per action: list of state strings"""
    cases, cur, act = [], None, None
    INV_FAILS.clear()
    for ln in out.splitlines():
        if ln == "CASE":
            cur, act = [], []
            cases.append(cur)
        elif ln == ".":
            cur.append(act)
            act = []
        elif ln.startswith("  !INV "):
            INV_FAILS.append((len(cases) - 1, len(cur), ln[7:]))
        elif ln.startswith("  "):
            act.append(ln[2:])
    return cases


def diff_session(spec, actions, traces, model_traces) -> dict | None:
    """first disagreement between the real per-commit trace and the model's, or None"""
    for ai, (a, real, model) in enumerate(zip(actions, traces, model_traces)):
        if a[0] in ("R", "U", "W"):
            # recovery: a sweep that pushes nothing performs no commit; compare the state after the action
            real_last = real[-1] if real else None
            model_last = model[-1] if model else None
            if real_last != model_last:
                return {"action_index": ai, "action": a, "commit": "final", "impl": real_last, "model": model_last}
            continue
        n = max(len(real), len(model))
        for ci in range(n):
            rs = real[ci] if ci < len(real) else "<no such commit on the implementation>"
            ms = model[ci] if ci < len(model) else "<no such commit in the model>"
            if rs != ms:
                return {"action_index": ai, "action": a, "commit": ci, "impl": rs, "model": ms,
                        "impl_commits": len(real), "model_commits": len(model)}
    if len(model_traces) != len(actions):
        return {"action_index": len(model_traces), "action": None, "commit": None, "impl": "", "model": "model produced fewer actions"}
    return None


# ------------------------------------------------------------------------------------------------
# workflow families and generators
# ------------------------------------------------------------------------------------------------

def S(ref, reqs=(), tasks=(("ok",),), **kw):
    d = {"ref": ref, "reqs": list(reqs), "tasks": [list(t) for t in tasks]}
    d.update(kw)
    return d


def families() -> dict[str, dict]:
    f = {}
    f["chain3"] = {"stages": [S("A", tasks=[["ok:k1=1"]]), S("B", ["A"], tasks=[["ok:k2=2"]]), S("C", ["B"])]}
    f["diamond"] = {"stages": [S("A", tasks=[["ok:k1=1"]]), S("B", ["A"], tasks=[["ok:k2=2"]]),
                               S("C", ["A"], tasks=[["ok:k3=3"]]), S("D", ["B", "C"])]}
    f["multitask"] = {"stages": [S("A", tasks=[["ok:k1=1"], ["ok:k2=2"], ["ok"]]), S("B", ["A"], tasks=[["ok"], ["ok"]])]}
    f["fail_terminal"] = {"stages": [S("A"), S("B", ["A"], tasks=[["fail"]]), S("C", ["B"])]}
    f["fail_next_to_branch"] = {"stages": [S("A"), S("B", ["A"], tasks=[["fail"]]), S("C", ["A"], tasks=[["ok"], ["ok"], ["ok"]]),
                                           S("D", ["B", "C"])]}
    f["continue_on_failure"] = {"stages": [S("A"), S("B", ["A"], tasks=[["fail"]], ctx={"continuePipelineOnFailure": True}),
                                           S("C", ["B"])]}
    f["stop_no_fail"] = {"stages": [S("A"), S("B", ["A"], tasks=[["fail"]], ctx={"failPipeline": False}), S("C", ["A"])]}
    f["poll"] = {"stages": [S("A", tasks=[["run:k1=1", "run:k1=2", "ok:k2=5"]]), S("B", ["A"])]}
    f["transient2"] = {"stages": [S("A", tasks=[["trans:k1=1", "trans", "ok"]]), S("B", ["A"])]}
    f["perm_exc"] = {"stages": [S("A", tasks=[["perm"]]), S("B", ["A"])]}
    f["first_of"] = {"stages": [S("A"), S("B", ["A"], tasks=[["ok"]]), S("C", ["A"], tasks=[["ok"], ["ok"]]),
                                S("J", ["B", "C"], join="DISCRIMINATOR"), S("E", ["J"])]}
    f["quorum"] = {"stages": [S("A"), S("B", ["A"]), S("C", ["A"], tasks=[["ok"], ["ok"]]), S("D", ["A"], tasks=[["fail"]], ctx={"continuePipelineOnFailure": True}),
                              S("J", ["B", "C", "D"], join="N_OF_M", threshold=2)]}
    f["skip_disabled"] = {"stages": [S("A"), S("B", ["A"], enabled=False), S("C", ["B"])]}
    f["self_loop"] = {"stages": [S("A", tasks=[["jump:A", "jump:A", "ok:k1=1"]]), S("B", ["A"])]}
    f["cycle2"] = {"stages": [S("A", tasks=[["ok:k1=1", "ok:k1=2"]]), S("B", ["A"], tasks=[["jump:A", "ok"]]), S("C", ["B"])]}
    f["jump_limit"] = {"stages": [S("A", tasks=[["jump:A"]]), S("B", ["A"])], "wctx": {"_max_jumps": 2}}
    f["forward_jump"] = {"stages": [S("A", tasks=[["jump:D"]]), S("B", ["A"]), S("C", ["B"]), S("D", ["C"])]}
    f["suspend"] = {"stages": [S("A", tasks=[["susp", "ok"]]), S("B", ["A"])]}
    f["mutex_pair"] = {"stages": [S("A"), S("B", ["A"], mutex="k1", tasks=[["ok"], ["ok"]]), S("C", ["A"], mutex="k1"), S("D", ["B", "C"])]}
    f["choice3"] = {"stages": [S("A"), S("B", ["A"], choice="k1"), S("C", ["A"], choice="k1"), S("D", ["A"], choice="k1")]}
    # the mutex holder parks (its task suspends) while a sibling keeps retrying; a signal brings the holder back
    f["mutex_suspend"] = {"stages": [S("A"), S("B", ["A"], mutex="k1", tasks=[["susp", "ok"]]), S("C", ["A"], mutex="k1"), S("D", ["B", "C"])]}
    f["mutex_fail"] = {"stages": [S("A"), S("B", ["A"], mutex="k1", tasks=[["fail"]], ctx={"failPipeline": False}), S("C", ["A"], mutex="k1")]}
    f["skippable_disabled"] = {"stages": [S("A", tasks=[["ok"], ["ok"]], skippable_disabled=[0]), S("B", ["A"], tasks=[["ok"]], skippable_disabled=[0])]}
    f["or_split"] = {"stages": [S("A", split="OR", conds={"B": "true", "C": "false"}), S("B", ["A"]), S("C", ["A"]),
                                S("J", ["B", "C"], join="OR")]}
    f["or_split_none"] = {"stages": [S("A", split="OR", conds={"B": "false", "C": "false", "D": "false"}), S("B", ["A"]), S("C", ["A"]),
                                     S("D", ["A"], tasks=[["ok"], ["ok"]])]}
    # a condition that cannot be evaluated (ordering comparison with a key nobody produced: ExpressionError) skips its
    # branch - the branch must not be left neither started nor skipped
    f["or_split_error"] = {"stages": [S("A", split="OR", conds={"B": "true", "C": "nokey > 50"}), S("B", ["A"]), S("C", ["A"]),
                                      S("D", ["B", "C"])]}
    f["or_split_error_all"] = {"stages": [S("A", split="OR", conds={"B": "nokey > 50", "C": "len(nokey) > 1"}), S("B", ["A"]), S("C", ["A"]),
                                          S("J", ["B", "C"], join="OR")]}
    f["first_of_leaf"] = {"stages": [S("A"), S("B", ["A"]), S("C", ["A"], tasks=[["ok"], ["ok"], ["ok"]]),
                                     S("J", ["B", "C"], join="DISCRIMINATOR")]}
    f["taskless"] = {"stages": [S("A", tasks=[]), S("B", ["A"])]}
    f.update(syn_families())
    # rarely used start conditions / completion flags
    f["blocking_failure"] = {"stages": [S("A", tasks=[["failc"]], ctx={"_blocking_failure": True}), S("B", ["A"])]}
    f["blocking_child"] = {"stages": [S("A", before=[S("A.b0", tasks=[["failc"]], ctx={"_blocking_failure": True})]), S("B", ["A"])]}
    # a milestone is a time window by design: whether M starts while A is still RUNNING depends on the delivery order
    f["milestone_ok"] = {"order_dependent": True,
                         "stages": [S("A", tasks=[["run", "run", "ok"]]), S("M", milestone=["A", "RUNNING"]), S("C", ["A", "M"])]}
    f["milestone_missed"] = {"stages": [S("A"), S("M", ["A"], milestone=["A", "RUNNING"]), S("C", ["M"])]}
    f["milestone_unknown"] = {"stages": [S("A"), S("M", ["A"], milestone=["nope", "RUNNING"]), S("C", ["M"])]}
    f["start_expired"] = {"stages": [S("A"), S("B", ["A"], expired=True), S("C", ["B"])]}
    return f


def syn_families() -> dict[str, dict]:
    """synthetic stages: before / after / on-failure children planned by a StageDefinitionBuilder"""
    f = {}
    f["syn_before_after"] = {"stages": [S("A", tasks=[["ok:k1=1"]], before=[S("A.b0")], after=[S("A.a0")]), S("B", ["A"])]}
    f["syn_before_chain"] = {"stages": [S("A", before=[S("A.b0"), S("A.b1", chain=True)]), S("B", ["A"])]}
    f["syn_par_before"] = {"stages": [S("A", before=[S("A.b0"), S("A.b1")]), S("B", ["A"])]}
    f["syn_two_after"] = {"stages": [S("A", after=[S("A.a0"), S("A.a1")]), S("B", ["A"])]}
    f["syn_after_chain"] = {"stages": [S("A", after=[S("A.a0"), S("A.a1", chain=True)]), S("B", ["A"])]}
    f["syn_on_failure"] = {"stages": [S("A", tasks=[["fail"]], on_failure=[S("A.f0")]), S("B", ["A"])]}
    f["syn_fail_chain_after"] = {"stages": [S("A", tasks=[["fail"]], on_failure=[S("A.f0"), S("A.f1", chain=True)], after=[S("A.a0")]),
                                            S("B", ["A"])]}
    f["syn_taskless_parent"] = {"stages": [S("A", tasks=[], before=[S("A.b0")], after=[S("A.a0")]), S("B", ["A"])]}
    f["syn_before_fails"] = {"stages": [S("A", before=[S("A.b0", tasks=[["fail"]])]), S("B", ["A"])]}
    f["syn_after_fails"] = {"stages": [S("A", after=[S("A.a0", tasks=[["fail"]])]), S("B", ["A"])]}
    # two parallel after stages, one fails terminally while the other is still at work (and the mirror image for
    # before stages): the parent must be finished by whichever child reports last
    f["syn_after_one_fails"] = {"stages": [S("A", after=[S("A.a0", tasks=[["fail"]]), S("A.a1", tasks=[["run", "ok"], ["ok"]])]), S("B", ["A"])]}
    f["syn_before_one_fails"] = {"stages": [S("A", before=[S("A.b0", tasks=[["ok"], ["run", "ok"]]), S("A.b1", tasks=[["fail"]])]), S("B", ["A"])]}
    f["syn_onfail_one_fails"] = {"stages": [S("A", tasks=[["fail"]], on_failure=[S("A.f0", tasks=[["fail"]]), S("A.f1", tasks=[["ok"], ["ok"]])]), S("B", ["A"])]}
    f["syn_failc_after"] = {"stages": [S("A", tasks=[["failc"]], after=[S("A.a0")]), S("B", ["A"])]}
    f["syn_child_failc"] = {"stages": [S("A", before=[S("A.b0", tasks=[["failc"]])], after=[S("A.a0", tasks=[["failc"]])]), S("B", ["A"])]}
    f["syn_two_parents"] = {"stages": [S("A", before=[S("A.b0")]), S("B", before=[S("B.b0")], after=[S("B.a0", tasks=[["ok"], ["ok"]])]),
                                       S("C", ["A", "B"])]}
    # jumps x synthetic stages: JumpToStageHandler._synthetic_reset_mutations re-arms the children of every re-armed stage
    f["jsyn_cycle"] = {"stages": [S("A", tasks=[["ok:k1=1"]], before=[S("A.b0")], after=[S("A.a0")]), S("B", ["A"], tasks=[["jump:A", "ok"]]),
                                  S("C", ["B"])]}
    f["jsyn_self_before"] = {"stages": [S("A", tasks=[["jump:A", "ok:k1=1"]], before=[S("A.b0")]), S("B", ["A"])]}
    f["jsyn_self_after"] = {"stages": [S("A", tasks=[["jump:A", "ok:k1=1"]], after=[S("A.a0")]), S("B", ["A"])]}
    f["jsyn_forward_over"] = {"stages": [S("A", tasks=[["jump:D"]]), S("B", ["A"], before=[S("B.b0")], after=[S("B.a0")]), S("C", ["B"]),
                                         S("D", ["C"])]}
    f["jsyn_forward_to_parent"] = {"stages": [S("A", tasks=[["jump:C"]]), S("B", ["A"]), S("C", ["B"], before=[S("C.b0")], after=[S("C.a0")])]}
    f["jsyn_source_kids"] = {"stages": [S("A"), S("B", ["A"], tasks=[["jump:A", "ok"]], before=[S("B.b0")], after=[S("B.a0")]), S("C", ["B"])]}
    f["jsyn_mid_kids"] = {"stages": [S("A"), S("M", ["A"], before=[S("M.b0"), S("M.b1", chain=True)], after=[S("M.a0")]),
                                     S("B", ["M"], tasks=[["jump:A", "ok"]]), S("C", ["B"])]}
    # the jumping task belongs to a synthetic child of the target: the source is re-armed twice in one commit
    f["jsyn_after_child_jumps"] = {"stages": [S("A", after=[S("A.a0", tasks=[["jump:A", "ok"]])]), S("B", ["A"])]}
    f["jsyn_before_child_jumps"] = {"stages": [S("A", before=[S("A.b0", tasks=[["jump:A", "ok"]])]), S("B", ["A"])]}
    # a side branch with parallel / chained children is re-armed while the loop A -> B -> A turns: how often its stages run
    # depends on how far the branch got when the jump re-armed it (schedule-dependent by design)
    f["jsyn_side"] = {"order_dependent": True,
                      "stages": [S("A"), S("B", ["A"], tasks=[["jump:A", "ok"]]),
                                 S("P", ["A"], before=[S("P.b0", tasks=[["ok"], ["ok"]]), S("P.b1")], after=[S("P.a0"), S("P.a1", chain=True)]),
                                 S("K", ["P"])]}
    # a parent with SEVERAL tasks and several parallel before / after stages: one ContinueParentStage arrives per child, the
    # late ones while the parent's first task is already running or done
    f["syn_par_before_multitask"] = {"stages": [S("A", tasks=[["run", "ok"], ["ok"], ["ok:k1=1"]],
                                                  before=[S("A.b0"), S("A.b1", tasks=[["run", "ok"]]), S("A.b2")],
                                                  after=[S("A.a0"), S("A.a1", tasks=[["run", "ok"]])]),
                                                S("B", ["A"])]}
    # a task-less stage with after stages only (no before stage): its CompleteStage is pushed by StartStage itself, and a
    # duplicate StartStage (recovery sweep, redelivery) re-plans it while it has no synthetic stage yet
    f["syn_taskless_after_only"] = {"stages": [S("A"), S("P", ["A"], tasks=[], after=[S("P.a0", tasks=[["run", "ok"], ["fail"]])]),
                                               S("D", ["P"])]}
    f["syn_multitask_child"] = {"stages": [S("A", tasks=[["ok"], ["ok"]], before=[S("A.b0", tasks=[["ok:k1=1"], ["run", "ok"]])],
                                           after=[S("A.a0", tasks=[["trans", "ok"]])])]}
    return f


SCRIPTS_BASIC = [["ok"], ["ok:k{n}=1"], ["ok"], ["ok"], ["fail"], ["failc"], ["run", "ok"], ["trans", "ok"], ["perm"], ["skip"], ["stop"]]


def random_spec(rng: random.Random, features: set[str]) -> dict:
    n = rng.randint(2, 7)
    stages = []
    for i in range(n):
        ref = "S%d" % i
        reqs = []
        if i > 0:
            k = rng.choice([0, 1, 1, 1, 2, 2, 3]) if i > 1 else rng.choice([0, 1, 1])
            reqs = rng.sample(["S%d" % j for j in range(i)], min(k, i))
        ntasks = rng.choice([1, 1, 1, 2, 3])
        tasks = []
        for t in range(ntasks):
            sc = [x.replace("{n}", str(rng.randint(1, 6))) for x in rng.choice(SCRIPTS_BASIC)]
            tasks.append(sc)
        st = S(ref, reqs, tasks)
        if len(reqs) >= 2 and "joins" in features:
            j = rng.choice(["AND", "AND", "DISCRIMINATOR", "N_OF_M"])
            st["join"] = j
            if j == "N_OF_M":
                st["threshold"] = rng.randint(1, len(reqs))
        ctx = {}
        if rng.random() < 0.15:
            ctx["continuePipelineOnFailure"] = True
        if rng.random() < 0.08:
            ctx["failPipeline"] = False
        if rng.random() < 0.3:
            ctx["k%d" % rng.randint(1, 6)] = rng.randint(10, 19)
        if ctx:
            st["ctx"] = ctx
        if "skip" in features and i > 0 and rng.random() < 0.1:
            st["enabled"] = False
        if (i * 7 + len(reqs) + ntasks) % 5 == 0:
            st["alias"] = True      # tasks referenced through a registry alias (no draw from rng: the stream of specs is unchanged)
        stages.append(st)
    return {"stages": stages}


CHILD_SCRIPTS = [["ok"], ["ok"], ["ok:k{n}=1"], ["run", "ok"], ["fail"], ["failc"], ["trans", "ok"]]


def decorate(spec: dict, rng: random.Random) -> dict:
    """feature-rich variant of a random DAG: synthetic before / after / on-failure children on some stages and one
    bounded jump (backward or onto itself).  Draws from its own rng."""
    spec = json.loads(json.dumps(spec))
    stages = spec["stages"]

    def child(ref, chain=False):
        nt = rng.choice([1, 1, 2])
        c = {"ref": ref, "reqs": [], "tasks": [[x.replace("{n}", str(rng.randint(1, 6))) for x in rng.choice(CHILD_SCRIPTS)] for _ in range(nt)]}
        if chain:
            c["chain"] = True
        return c
    for st in stages:
        if rng.random() < 0.35:
            nb, na = rng.choice([0, 1, 1, 2]), rng.choice([0, 0, 1, 2])
            if nb:
                st["before"] = [child(f"{st['ref']}.b{k}", chain=(k > 0 and rng.random() < 0.5)) for k in range(nb)]
            if na:
                st["after"] = [child(f"{st['ref']}.a{k}", chain=(k > 0 and rng.random() < 0.5)) for k in range(na)]
            if rng.random() < 0.3:
                st["on_failure"] = [child(f"{st['ref']}.f0")]
    cands = [i for i, st in enumerate(stages) if st.get("tasks")]
    if cands and rng.random() < 0.6:
        i = rng.choice(cands)
        # a loop: the target is the stage itself or one of its (transitive) requisites - a jump onto an unrelated parallel
        # branch makes the outcome depend on the delivery order by construction
        anc, todo = set(), list(stages[i].get("reqs", []))
        byref = {st["ref"]: st for st in stages}
        while todo:
            r = todo.pop()
            if r not in anc and r in byref:
                anc.add(r)
                todo += byref[r].get("reqs", [])
        target = rng.choice(sorted(anc) + [stages[i]["ref"]])
        t = rng.randrange(len(stages[i]["tasks"]))
        stages[i]["tasks"][t] = ["jump:" + target, "ok"]
    return spec


# ------------------------------------------------------------------------------------------------
# schedule policies (chosen online from the real queue)
# ------------------------------------------------------------------------------------------------

def pick(rows: list[dict], rng: random.Random, policy: str) -> int:
    """Realistic time: a delayed message (pushed with the 15 s retry delay / task backoff) is delivered
    only when no undelayed message is pending; the policy orders the rest."""
    now = [r["id"] for r in rows if not r.get("delayed")]
    if not now and policy != "eager_delayed":
        # only delayed messages are left: time passes and the one that falls due FIRST is delivered, whatever the
        # policy (an order that forever prefers a 15 s re-queue over a 1 s task retry is not a schedule the queue has)
        return min(rows, key=lambda r: (r.get("due", 0.0), r["id"]))["id"]
    ids = now or [r["id"] for r in rows]
    if policy in ("fifo",):
        return ids[0]
    if policy == "lifo":
        return ids[-1]
    if policy == "eager_delayed":       # adversarial w.r.t. budgets: ignore delays entirely
        return rng.choice([r["id"] for r in rows])
    if policy.startswith("starve:"):    # adversarial: messages of one stage are delivered only when nothing else is pending
        victim = policy.split(":", 1)[1]
        cand = [r for r in rows if not r.get("delayed")] or rows
        others = [r["id"] for r in cand if r.get("stage_ref") != victim]
        return (others or [r["id"] for r in cand])[0]
    return rng.choice(ids)


def run_policy(sess: Session, rng: random.Random, policy: str, max_steps: int = 400, inject=None,
               submit: bool = True) -> None:
    """inject(sess, step) may perform extra actions (recover, cancel, signal, cut) before a step"""
    if submit:
        sess.do(("B",))
    step = 0
    seen_noack: dict[int, int] = {}
    while step < max_steps:
        if inject:
            inject(sess, step)
        rows = sess.rows()
        if not rows:
            break
        rid = pick(rows, rng, "random" if policy == "redeliver" else policy)
        if policy == "redeliver" and rng.random() < 0.3 and seen_noack.get(rid, 0) < 3:
            seen_noack[rid] = seen_noack.get(rid, 0) + 1
            sess.do(("D", rid, False))
        else:
            sess.do(("D", rid, True))
        step += 1


# ------------------------------------------------------------------------------------------------
# one case = spec + policy + seed; run in a worker process
# ------------------------------------------------------------------------------------------------

def _park(sess: "Session", rng: random.Random, limit: int = 10) -> None:
    """after a pause request: FIFO deliveries until a stage is really parked PAUSED (RunTask -> PauseTask), so that the
    unpause that follows has a ResumeStage to send"""
    for _ in range(limit):
        if any(s["status"] == "PAUSED" for s in sess.env.alpha()["stages"]):
            return
        rows = sess.rows()
        if not rows:
            return
        sess.do(("D", pick(rows, rng, "fifo"), True))


def run_case(case: dict) -> dict:
    """runs the real engine; returns everything needed for comparison and monitoring"""
    rng = random.Random(case["seed"])
    spec = case["spec"]
    t0 = time.time()
    sess = Session(spec, **case.get("env", {}))
    try:
        kind = case["kind"]
        if kind == "policy":
            run_policy(sess, rng, case["policy"], max_steps=case.get("max_steps", 400))
        elif kind == "script":
            for a in case["actions"]:
                sess.do(tuple(a))
        elif kind == "crash":
            # FIFO up to the chosen global commit index, crash there, restart, recover, drain
            _run_crash(sess, rng, case)
        elif kind == "inject":
            _run_inject(sess, rng, case)
        elif kind == "signal_crash":
            # run until the stage waits, send the signal, crash its delivery after k commits, restart, recover, drain
            run_policy(sess, rng, "fifo", max_steps=case.get("max_steps", 200))
            for n in range(case.get("signals", 1)):
                sess.do(("S", case["stage"], case.get("signame", 1) + n, case.get("persistent", True)))
            rows = sess.rows()
            if rows:
                sess.do(("X", rows[0]["id"], case["k"]))
                sess.do(("R",))
            run_policy(sess, rng, case.get("policy", "fifo"), max_steps=case.get("max_steps", 200), submit=False)
        elif kind == "mid_sweep":
            # FIFO; delivery number `at` gets a recovery sweep from another thread right after its k-th commit
            sess.do(("B",))
            step = 0
            while step < case.get("max_steps", 150):
                rows = sess.rows()
                if not rows:
                    break
                rid = pick(rows, rng, "fifo")
                if step == case["at"]:
                    sess.do(("M", rid, case["k"]))
                else:
                    sess.do(("D", rid, True))
                step += 1
        elif kind == "pause_mid_sweep":
            # as pause_crash, but instead of a crash a sweeper thread runs right after the k-th commit of ResumeStage
            run_policy(sess, rng, "fifo", max_steps=case["at"])
            sess.do(("P",))
            _park(sess, rng)
            sess.do(("U",))
            rows = sess.rows()
            if rows:
                first = next((r for r in rows if r["type"] == "ResumeStage"), rows[0])
                sess.do(("M", first["id"], case["k"]))
            run_policy(sess, rng, case.get("policy", "fifo"), max_steps=case.get("max_steps", 200), submit=False)
        elif kind == "pause_crash":
            # FIFO for `at` steps, pause, a few more deliveries (RunTask -> PauseTask parks the tasks), unpause, then the
            # delivery of the first ResumeStage (or whatever is first) is cut after k commits; restart, recovery, drain
            run_policy(sess, rng, "fifo", max_steps=case["at"])
            sess.do(("P",))
            _park(sess, rng)
            sess.do(("U",))
            rows = sess.rows()
            if rows:
                first = next((r for r in rows if r["type"] == "ResumeStage"), rows[0])
                sess.do(("X", first["id"], case["k"]))
                sess.do(("R",))
            run_policy(sess, rng, case.get("policy", "fifo"), max_steps=case.get("max_steps", 200), submit=False)
        else:
            raise ValueError(kind)
        env = sess.env
        out = {
            "case": case, "actions": [list(a) for a in sess.actions], "traces": sess.traces,
            "oracle_text": ("" if case.get("monitor_only") else sess.oracle_text()), "ledger": env.ledger, "audit": env.audit(),
            "final": env.alpha(), "results": sess.results, "idx": sess.idx, "wall": time.time() - t0,
            "id_ref": env.id_ref, "task_ids": {k: list(v) for k, v in env.task_ids.items()},
            "handled": env.handled, "audit_marks": sess.audit_marks, "ledger_marks": sess.ledger_marks, "queue_marks": sess.queue_marks,
            "quiescent": len(env.rows()) == 0,
        }
        return out
    finally:
        sess.close()


def _drain(sess: Session, rng: random.Random, policy: str, max_steps: int):
    run_policy(sess, rng, policy, max_steps=max_steps, submit=False)


def _run_crash(sess: Session, rng: random.Random, case: dict):
    """deliver FIFO; the delivery containing global commit number `at` is cut there."""
    at = case["at"]
    sess.do(("B",))
    done = 0
    crashed = False
    steps = 0
    while steps < case.get("max_steps", 400):
        rows = sess.rows()
        if not rows:
            break
        rid = rows[0]["id"]
        if not crashed:
            # how many commits will this delivery make? run it cut at (at - done) if that falls inside
            k = at - done
            before = len(sess.traces)
            r = sess.do(("X", rid, k)) if k < 12 else None
            if r is not None and r.get("crashed"):
                crashed = True
                for _ in range(case.get("recoveries", 1)):
                    sess.do(("R",))
                if case.get("second") is not None:
                    case = dict(case, at=case["second"], second=None)
                    at = case["at"]
                    done = 0
                    crashed = False
                steps += 1
                continue
            if r is None:
                r = sess.do(("D", rid, True))
            done += r.get("commits", 0)
        else:
            drain = case.get("drain", "fifo")
            if drain == "fifo":
                sess.do(("D", rid, True))
            elif drain == "lifo":      # what recovery re-queued is delivered before what was already waiting
                sess.do(("D", pick(rows, rng, "lifo"), True))
            else:
                sess.do(("D", rng.choice([x["id"] for x in rows]), True))
        steps += 1


def _run_inject(sess: Session, rng: random.Random, case: dict):
    what, at = case["what"], case["at"]
    st = {"unpaused": False}

    def unpause(s: Session):
        st["unpaused"] = True
        s.do(("U",))
        if case.get("cancel_with_unpause"):
            s.do(("C",))

    def inj(s: Session, step: int):
        if step == at:
            if what == "recover":
                for _ in range(case.get("times", 1)):
                    s.do(("R",))
            elif what == "cancel":
                s.do(("C",))
            elif what == "signal":
                s.do(("S", case["stage"], case.get("signame", 1), case.get("persistent", True)))
            elif what == "pause":
                s.do(("P",))
            elif what == "restart":
                s.do(("T", case["stage"]))
            elif what == "maintenance":
                s.do(("W",))
        if what == "pause" and case.get("sweep_at") is not None and step == case["sweep_at"]:
            s.do(("W",))
        if step in (case.get("recover_at") or ()):
            s.do(("R",))
        if what == "pause" and not st["unpaused"] and case.get("unpause_at") is not None and step == case["unpause_at"]:
            unpause(s)
        if what == "recover_every":
            s.do(("R",))
    run_policy(sess, rng, case.get("policy", "fifo"), max_steps=case.get("max_steps", 400), inject=inj)
    if what == "pause" and not st["unpaused"] and case.get("unpause_at") is not None:
        unpause(sess)
        run_policy(sess, rng, case.get("policy", "fifo"), max_steps=case.get("max_steps", 400), submit=False)


# ------------------------------------------------------------------------------------------------
# batch: run cases in parallel, compare with the oracle
# ------------------------------------------------------------------------------------------------

def run_batch(cases: list[dict], nproc: int = lib.NPROC) -> list[dict]:
    if not cases:
        return []
    if nproc <= 1 or len(cases) < 3:
        outs = [run_case(c) for c in cases]
    else:
        with ProcessPoolExecutor(max_workers=min(nproc, len(cases))) as ex:
            outs = list(ex.map(run_case, cases, chunksize=max(1, len(cases) // (nproc * 4))))
    err = oracle.build()
    if err:
        for o in outs:
            o["disagreement"] = {"what": "oracle build failed", "detail": err[:500]}
        return outs
    text = "".join(o["oracle_text"] for o in outs)
    try:
        model = parse_oracle(oracle.run(text))
    except Exception as e:
        for o in outs:
            o["disagreement"] = {"what": "oracle crashed", "detail": str(e)[:500]}
        return outs
    for o, m in zip([o for o in outs if o["oracle_text"]], model):
        o["model_traces"] = m
        o["disagreement"] = diff_session(o["case"]["spec"], [tuple(a) for a in o["actions"]], o["traces"], m)
    for o in outs:
        if not o["oracle_text"]:
            o["model_traces"], o["disagreement"] = [], None      # monitor-only case: judged by the monitors alone
    return outs


# ------------------------------------------------------------------------------------------------
# per-property case plans, monitors, and the hook used by harness/props/cNN.py
# ------------------------------------------------------------------------------------------------

from harness import monitors as M  # noqa: E402

REQUIRED_INVARIANTS = {"running_task_in_running_stage", "mutex", "choice", "ids"}

CRASH_QUICK = ["chain3", "diamond", "multitask", "fail_terminal", "continue_on_failure", "poll", "transient2",
               "first_of", "quorum", "self_loop", "choice3", "mutex_pair", "or_split",
               "syn_before_after", "syn_before_chain", "syn_two_after", "syn_on_failure", "syn_after_one_fails",
               "jsyn_cycle", "jsyn_after_child_jumps"]


RANDX_QUICK = int(os.environ.get("VERIF_RANDX", "10"))


def spec_key(spec) -> str:
    return json.dumps(spec, sort_keys=True)


def plan(pid: str, tier: str, rng: random.Random) -> list[dict]:
    fam = families()
    thorough = tier == "thorough"
    cases: list[dict] = []

    def add(**kw):
        kw.setdefault("seed", rng.randrange(1 << 30))
        kw.setdefault("max_steps", 150)
        cases.append(kw)

    def schedules(specs, pols, reps):
        for name, spec in specs:
            for pol in pols:
                for _ in range(1 if pol in ("fifo", "lifo") else reps):
                    add(kind="policy", policy=pol, spec=spec, name=name)

    rnd = [("rand%d" % i, random_spec(rng, {"joins", "skip"})) for i in range(120 if thorough else 25)]
    # feature-rich variants (synthetic children, one bounded jump) of some of them; own rng, the stream above is unchanged
    rng2 = random.Random(rng.randrange(1 << 30) if False else (len(rnd) * 7919 + sum(len(sp["stages"]) for _, sp in rnd)))
    rndx = [("randx%d" % i, decorate(sp, rng2)) for i, (_, sp) in enumerate(rnd[: (60 if thorough else RANDX_QUICK)])]
    if pid in ("C02", "C03", "C05", "C06", "C09"):
        schedules(list(fam.items()) + rnd + rndx, ["fifo", "lifo", "random", "redeliver"], 6 if thorough else 2)
        # the same engine with every delivery on a fresh worker thread (what a pool thread sees: new thread-local connections)
        for name, spec in list(fam.items())[:: (1 if thorough else 3)] + rnd[: (30 if thorough else 5)]:
            add(kind="policy", policy="random", spec=spec, name=name, env={"threaded": True})
        # starve every stage in turn: its messages are delivered only when nothing else is pending
        for name, spec in list(fam.items()) + rnd[: (40 if thorough else 8)]:
            for st in spec["stages"]:
                add(kind="policy", policy="starve:" + st["ref"], spec=spec, name=name)
                # ... and every synthetic child in turn (its StartStage is overtaken by its siblings' whole chains)
                for kind in ("before", "after", "on_failure"):
                    for ch in st.get(kind, []):
                        add(kind="policy", policy="starve:" + ch["ref"], spec=spec, name=name)
    if pid in ("C09",):
        # the handler paths that commit WITHOUT touching a stage (RunTask of a cancelled / finished / paused workflow,
        # ContinueParentStage hand-offs): their pushes and the processed record of the consumed message are one commit too
        for n in ("chain3", "multitask", "diamond", "syn_before_after"):
            for at in range(1, 11):
                add(kind="inject", what="cancel", at=at, spec=fam[n], name=n, policy=("redeliver" if at % 2 else "fifo"))
                add(kind="inject", what="pause", at=at, unpause_at=at + 3, spec=fam[n], name=n, policy=("redeliver" if at % 2 else "fifo"),
                    cancel_with_unpause=False)
        for n in ("chain3", "multitask"):
            for at in (3, 4, 6):
                for k in range(0, 4):
                    add(kind="pause_crash", at=at, k=k, spec=fam[n], name=n, policy="fifo")
    if pid in ("C03",):
        # the recovery sweep also decides which NOT_STARTED stages to (re)start: sweeps before every step of the join families,
        # and a crash at every second commit followed by recovery
        for n in ("diamond", "first_of", "quorum", "or_split", "fail_next_to_branch", "first_of_leaf", "syn_before_chain", "skip_disabled"):
            for at in range(0, 30 if thorough else 20):
                add(kind="inject", what="recover", at=at, times=1, spec=fam[n], name=n, policy=("fifo" if at % 2 else "lifo"))
            for at in range(0, 60 if thorough else 40, 2):
                add(kind="crash", at=at, spec=fam[n], name=n, drain=("fifo" if at % 4 else "lifo"))
    if pid in ("C02",):
        # redelivery / reordering of the messages a plain run never has: SignalStage, CancelWorkflow / CancelStage, ResumeStage
        for at in range(0, 12):
            for pol in ("redeliver", "lifo"):
                add(kind="inject", what="signal", stage=0, signame=1, persistent=True, at=at, spec=fam["suspend"], name="suspend", policy=pol)
        for n in ("chain3", "diamond", "multitask"):
            for at in range(1, 10, 2):
                add(kind="inject", what="cancel", at=at, spec=fam[n], name=n, policy="redeliver")
                add(kind="inject", what="pause", at=at, unpause_at=at + 3, spec=fam[n], name=n, policy="redeliver", cancel_with_unpause=False)
    if pid in ("C05",):
        # the explicit waiting states: paused (and resumed), suspended (and signalled) - after the resume / the signal the
        # workflow must finish; while parked it must be waiting, not stuck
        for n in ("chain3", "multitask", "diamond", "poll", "syn_before_after"):
            for at in range(1, 14 if thorough else 10):
                for ua in (at + 2, at + 5, None):
                    add(kind="inject", what="pause", at=at, unpause_at=ua, spec=fam[n], name=n, policy=("fifo" if at % 2 else "random"),
                        cancel_with_unpause=False)
        for n, stage in (("suspend", 0), ("mutex_suspend", 1)):
            for at in range(0, 14):
                add(kind="inject", what="signal", stage=stage, signame=1, persistent=True, at=at, spec=fam[n], name=n,
                    policy=("fifo" if at % 2 else "random"))
    if pid in ("C01", "C06", "C13"):
        names = list(fam) if thorough else CRASH_QUICK
        # every commit of the uninterrupted FIFO run is a crash point: measure the runs first
        probe = run_batch([{"kind": "policy", "policy": "fifo", "seed": 0, "spec": fam[n], "name": n, "max_steps": 200} for n in names])
        ncommits = {o["case"]["name"]: sum(len(t) for t in o["traces"]) for o in probe}
        for n in names:
            for at in range(0, min(ncommits.get(n, 100) + 1, 400 if thorough else 160)):
                add(kind="crash", at=at, spec=fam[n], name=n, drain="fifo")
                if pid == "C01" and (thorough or at % 2 == 0):
                    # after the restart, what the recovery sweep re-queued is delivered BEFORE what was already waiting
                    add(kind="crash", at=at, spec=fam[n], name=n, drain="lifo")
            if thorough:
                for at in range(0, 60, 2):
                    for second in range(0, 20, 3):
                        add(kind="crash", at=at, second=second, spec=fam[n], name=n, drain="random")
                    add(kind="crash", at=at, spec=fam[n], name=n, drain="random", recoveries=2)
        if thorough:
            for name, spec in rnd[:40]:
                for at in range(0, 60, 3):
                    add(kind="crash", at=at, spec=spec, name=name, drain="fifo")
        for name, spec in rndx[: (30 if thorough else 4)]:
            for at in range(0, 80 if thorough else 48, 2):
                add(kind="crash", at=at, spec=spec, name=name, drain=("fifo" if at % 4 else "lifo"))
        if pid == "C01":
            # the handlers a plain run never reaches: a crash inside SignalStage (stage suspended) and inside ResumeStage
            for k in range(0, 5):
                for pers in (True, False):
                    add(kind="signal_crash", stage=0, k=k, persistent=pers, signals=1, spec=fam["suspend"], name="suspend", policy="fifo")
                for at in (3, 4, 6, 8):
                    for n in ("chain3", "multitask"):
                        add(kind="pause_crash", at=at, k=k, spec=fam[n], name=n, policy="fifo")
    if pid in ("C10", "C06"):
        for n, spec in list(fam.items()) + (rnd[:30] if thorough else rnd[:6]) + (rndx[:30] if thorough else rndx[:6]):
            for at in range(0, 40 if thorough else 24):
                add(kind="inject", what="recover", at=at, times=1 + (at % 2), spec=spec, name=n,
                    policy=("fifo" if at % 3 else "lifo"))
            add(kind="inject", what="recover_every", at=-1, spec=spec, name=n, policy="fifo", max_steps=80)
        for n in ("mutex_pair", "choice3", "mutex_suspend", "diamond"):
            for at in range(0, 18, 3):
                add(kind="inject", what="maintenance", at=at, spec=fam[n], name=n, policy="fifo")
        # duplicates made by a sweep (a second StartStage -> a re-plan -> a second CompleteStage) delivered LATE: random order
        for n in ("syn_taskless_parent", "syn_taskless_after_only", "syn_two_after", "taskless"):
            for at in range(0, 12):
                for _rep in range(4 if thorough else 2):
                    add(kind="inject", what="recover", at=at, times=1, spec=fam[n], name=n, policy="random")
        # "at any moment" includes BETWEEN two commits of one handler: a sweeper thread right after the k-th commit of a
        # delivery (harness-only action M: judged by the monitors - same outcome, no extra execution - not by the model)
        for n in (list(fam) if thorough else ["chain3", "diamond", "multitask", "poll", "transient2", "first_of", "or_split",
                                              "syn_before_after", "self_loop", "mutex_pair", "continue_on_failure"]):
            for at in range(0, 30 if thorough else 22):
                for k in ((1, 2, 3) if thorough else (1 + at % 2,)):
                    add(kind="mid_sweep", at=at, k=k, spec=fam[n], name=n, monitor_only=True)
        for n in ("chain3", "multitask"):
            for at in (3, 4, 6, 8):
                for k in (1, 2):
                    add(kind="pause_mid_sweep", at=at, k=k, spec=fam[n], name=n, monitor_only=True)
        # sweeps around a signal to a suspended (or not yet suspended) stage and around an operator restart
        for at in range(0, 10):
            add(kind="inject", what="signal", stage=0, signame=1, persistent=True, at=at, recover_at=[at, at + 1, at + 2],
                spec=fam["suspend"], name="suspend", policy="fifo")
        for at in range(4, 14, 2):
            add(kind="inject", what="restart", at=at, stage=0, recover_at=[at, at + 1, at + 2], spec=fam["fail_terminal"], name="fail_terminal", policy="fifo")
        # sweeps around a pause / unpause: while tasks are parked, right after the unpause request and while ResumeStage
        # is being handled (each of these handlers must stay one commit: a sweep in between must find nothing to repair)
        for n in ("chain3", "multitask", "poll", "diamond"):
            for at in range(2, 12 if thorough else 9):
                for gap in (1, 3):
                    add(kind="inject", what="pause", at=at, unpause_at=at + gap + 2, recover_at=[at + 1, at + gap + 2, at + gap + 3, at + gap + 4],
                        spec=fam[n], name=n, policy="fifo", cancel_with_unpause=False)
    if pid in ("C17", "C06"):
        for n, spec in list(fam.items()) + (rnd[:30] if thorough else rnd[:6]) + (rndx[:30] if thorough else rndx[:6]):
            for at in range(0, 40 if thorough else 24):
                for pol in (("fifo", "random", "lifo") if thorough else ("fifo", "random")):
                    add(kind="inject", what="cancel", at=at, spec=spec, name=n, policy=pol)
    if pid in ("C17",):
        # a cancel that arrives while the workflow is paused with tasks parked (the unpause comes with it)
        for n in ("chain3", "multitask", "diamond", "syn_before_after"):
            for at in range(2, 12 if thorough else 9):
                for gap in (2, 4):
                    add(kind="inject", what="pause", at=at, unpause_at=at + gap, spec=fam[n], name=n, policy=("fifo" if at % 2 else "random"),
                        cancel_with_unpause=True)
    if pid in ("C06",):
        for n in (["chain3", "diamond", "multitask", "fail_terminal", "poll", "first_of"] if not thorough else list(fam)):
            spec = fam[n]
            for at in range(1, 26 if thorough else 14):
                for ua in (at + 1, at + 4, None):
                    for pol in ("fifo", "random"):
                        add(kind="inject", what="pause", at=at, unpause_at=ua, spec=spec, name=n, policy=pol,
                            cancel_with_unpause=bool(ua and (at + (ua or 0)) % 3 == 0))
            for at in range(4, 30 if thorough else 16, 2):
                for stage in range(min(2, len(spec["stages"]))):
                    if n == "syn_taskless_after_only" and stage == 1:
                        # NOT MODELLED (stated in DESIGN 0.1): an operator restart of a task-less stage that already has an
                        # after stage - the real re-plan re-sends StartStage to the finished after stage, Engine.v does not
                        continue
                    add(kind="inject", what="restart", at=at, stage=stage, spec=spec, name=n, policy="fifo")
        # pause with parallel branches in flight, then unpause + cancel together, remaining messages in random order
        par2 = {"stages": [S("A"), S("B", ["A"], tasks=[["ok"], ["ok"]]), S("C", ["A"], tasks=[["ok"]])]}
        for n, spec in (("par2", par2), ("diamond", fam["diamond"])):
            for at in range(7, 15):
                for rep in range(10 if thorough else 4):
                    add(kind="inject", what="pause", at=at, unpause_at=at + 6, spec=spec, name=n, policy="random",
                        cancel_with_unpause=True)
    if pid in ("C11",):
        # the members of a choice group hang off DIFFERENT upstreams and the loser's upstream never finishes (it is suspended):
        # the loser never gets a StartStage of its own - the winner must cancel it
        fam = dict(fam)
        fam["choice_split_upstreams"] = {"stages": [S("R"), S("U1", ["R"]), S("U2", ["R"], tasks=[["susp", "ok"]]),
                                                    S("A", ["U1"], choice="k1"), S("B", ["U2"], choice="k1"), S("Z", ["A"])]}
        mx = {n: fam[n] for n in ("mutex_pair", "choice3", "mutex_suspend", "mutex_fail", "choice_split_upstreams")}
        schedules(list(mx.items()), ["fifo", "lifo", "random", "redeliver"], 8 if thorough else 3)
        for n, spec in mx.items():
            for st in spec["stages"]:
                add(kind="policy", policy="starve:" + st["ref"], spec=spec, name=n)
        # the holder of the mutex is suspended; signal it at every step (the sibling's retries run in between)
        for at in range(0, 30 if thorough else 22):
            for pol in ("fifo", "random", "lifo"):
                add(kind="inject", what="signal", stage=1, signame=1, persistent=True, at=at, spec=fam["mutex_suspend"],
                    name="mutex_suspend", policy=pol)
        for n in ("mutex_pair", "mutex_suspend"):
            for at in range(4, 24, 2):
                add(kind="inject", what="pause", at=at, unpause_at=at + 5, spec=fam[n], name=n, policy="random", cancel_with_unpause=False)
            # the processor's maintenance sweep (claims of finished executions) while the workflow is paused with the holder
            # parked, and at every step of a plain run: a live execution's claims must survive it
            for at in range(3, 16):
                add(kind="inject", what="pause", at=at, sweep_at=at + 2, unpause_at=at + 6, spec=fam[n], name=n, policy="fifo",
                    cancel_with_unpause=False)
            for at in range(0, 20, 2):
                add(kind="inject", what="maintenance", at=at, spec=fam[n], name=n, policy="random")
            for at in range(0, 60 if thorough else 30, 2):
                add(kind="crash", at=at, spec=fam[n], name=n, drain="random")
    if pid in ("C16",):
        # what a task sees when its stage starts - through the ENGINE: every delivery order, a crash after every commit
        # (the claim / plan window included) with restart + recovery, and sweeps before every step
        data = {"data_chain": {"stages": [S("A", tasks=[["ok:k1=1,k2=1"]]), S("B", ["A"], tasks=[["ok:k2=2"]]), S("C", ["B"], tasks=[["ok"], ["ok:k3=3"]]),
                                          S("D", ["C"])]},
                "data_diamond": {"stages": [S("A", tasks=[["ok:k1=1,k2=1"]]), S("B", ["A"], tasks=[["ok:k1=2"]]), S("C", ["A"], tasks=[["ok:k3=3"]]),
                                            S("D", ["B", "C"], ctx={"k2": 12}), S("E", ["D"])]},
                "data_first_of": {"stages": [S("A", tasks=[["ok:k1=1"]]), S("B", ["A"], tasks=[["ok:k2=2"]]), S("C", ["A"], tasks=[["ok:k2=2"]]),
                                             S("J", ["B", "C"], join="DISCRIMINATOR"), S("K", ["J"])]},
                "data_syn": {"stages": [S("A", tasks=[["ok:k1=1"]]),
                                        dict(S("P", ["A"], tasks=[["ok:k2=2"]]), before=[{"ref": "P.b0", "reqs": [], "tasks": [["ok"]]}],
                                             after=[{"ref": "P.a0", "reqs": [], "tasks": [["ok"]]}]),
                                        S("Z", ["P"])]}}
        schedules(list(data.items()), ["fifo", "lifo", "random"], 4 if thorough else 2)
        probe = run_batch([{"kind": "policy", "policy": "fifo", "seed": 0, "spec": sp, "name": n, "max_steps": 200} for n, sp in data.items()])
        ncommits = {o["case"]["name"]: sum(len(t) for t in o["traces"]) for o in probe}
        for n, sp in data.items():
            for at in range(0, min(ncommits.get(n, 60) + 1, 120)):
                add(kind="crash", at=at, spec=sp, name=n, drain="fifo")
                add(kind="crash", at=at, spec=sp, name=n, drain="lifo")
                if thorough:
                    add(kind="crash", at=at, spec=sp, name=n, drain="random")
            for at in range(0, 30 if thorough else 18):
                add(kind="inject", what="recover", at=at, times=1 + (at % 2), spec=sp, name=n, policy="fifo")
    if pid in ("C18", "C06"):
        # a signal reaching a SUSPENDED stage whose EARLIER tasks ended in other completed statuses (FAILED_CONTINUE, SKIPPED):
        # only the suspended task may be touched
        mixed = {"stages": [S("A", tasks=[["failc"], ["skip"], ["susp", "ok:k1=1"], ["ok"]]), S("B", ["A"])]}
        for at in range(0, 18):
            for pers in (True, False):
                add(kind="inject", what="signal", stage=0, signame=1, persistent=pers, at=at, spec=mixed, name="suspend_mixed",
                    policy=("fifo" if at % 2 else "random"))
    if pid in ("C18",):
        sus2 = {"suspend": (fam["suspend"], 0), "suspend_twice": ({"stages": [S("A", tasks=[["susp", "susp", "ok"]]), S("B", ["A"])]}, 0),
                "suspend2": ({"stages": [S("A"), S("B", ["A"], tasks=[["ok"], ["susp", "ok:k1=1"]]), S("C", ["B"])]}, 1)}
        for n, (spec, stage) in sus2.items():
            for k in range(0, 6):
                for pers in (True, False):
                    for nsig in (1, 2):
                        for pol in ("fifo", "lifo"):
                            add(kind="signal_crash", stage=stage, k=k, persistent=pers, signals=nsig, spec=spec, name=n, policy=pol)
        sus = {"suspend": fam["suspend"],
               "suspend2": {"stages": [S("A"), S("B", ["A"], tasks=[["ok"], ["susp", "ok:k1=1"]]), S("C", ["B"])]},
               "suspend_twice": {"stages": [S("A", tasks=[["susp", "susp", "ok"]]), S("B", ["A"])]}}
        # a persistent signal buffered for a stage that has not suspended yet must survive a re-arm of that stage by a jump
        # loop (the gate is downstream of the loop's target, so every iteration resets it)
        loops = {"loop_gate": ({"stages": [S("A", tasks=[["jump:A", "ok"]]), S("G", ["A"], tasks=[["susp", "ok:k1=1"]]), S("Z", ["G"])]}, 1),
                 "cycle_gate": ({"stages": [S("A"), S("B", ["A"], tasks=[["jump:A", "ok"]]), S("G", ["A"], tasks=[["ok"], ["susp", "ok"]]),
                                            S("Z", ["B", "G"])]}, 2)}
        for n, (spec, stage) in loops.items():
            for at in range(0, 22 if thorough else 14):
                for pol in (("fifo", "random", "lifo") if thorough else ("fifo", "random")):
                    add(kind="inject", what="signal", stage=stage, signame=1, persistent=True, at=at, spec=spec, name=n, policy=pol)
            for at in range(0, 10, 3):
                add(kind="inject", what="signal", stage=stage, signame=1, persistent=False, at=at, spec=spec, name=n, policy="fifo")
        for n, spec in sus.items():
            stage = 1 if n == "suspend2" else 0
            for at in range(0, 16):
                for pers in (True, False):
                    for pol in ("fifo", "random", "redeliver"):      # redeliver: the SignalStage itself may be delivered twice
                        add(kind="inject", what="signal", stage=stage, signame=1 + (at % 3), persistent=pers, at=at,
                            spec=spec, name=n, policy=pol)
    return corpus(pid) + cases


def corpus(pid: str) -> list[dict]:
    """minimised cases that once failed (genuine defects since repaired, or false alarms since corrected): they run
    first in every tier.  One JSON case per line in /verif/corpus/<pid>.jsonl, committed; never written at run time."""
    path = lib.VERIF / "corpus" / f"{pid}.jsonl"
    if not path.exists():
        return []
    return [json.loads(line) for line in path.read_text().splitlines() if line.strip()]


def base_policy(c: dict) -> str:
    return c.get("policy") if c.get("policy") in ("fifo", "lifo") and c.get("kind") == "inject" else "fifo"


def baselines(cases: list[dict]) -> dict:
    """uninterrupted exactly-once runs (same deterministic delivery policy) of every spec in `cases`"""
    specs = {}
    for c in cases:
        specs.setdefault((spec_key(c["spec"]), base_policy(c)), c)
    outs = run_batch([{"kind": "policy", "policy": pol, "seed": 0, "spec": c["spec"], "name": c.get("name"),
                       "max_steps": 400, "env": c.get("env", {})} for (k, pol), c in specs.items()])
    return {(spec_key(o["case"]["spec"]), o["case"]["policy"]): o for o in outs}


def monitor(pid: str, out: dict, base: dict | None) -> list[Violation]:
    kind = out["case"]["kind"]
    what = out["case"].get("what")
    crashfree = kind in ("policy",) and out["case"]["policy"] != "eager_delayed"
    vs: list[Violation] = []
    if pid == "C06":
        vs += M.m_c06(out)
    if pid == "C02" and crashfree:
        vs += M.m_c02(out)
        if base is not None:
            # execution COUNTS are comparable with the in-order run only without jumps: a loop re-runs whatever part of a
            # parallel branch had already run when the jump was handled, which depends on the order by design (the
            # per-iteration rules of m_c02 above do apply)
            jumps = any(str(step).startswith("jump") for sp in M.spec_map(out).values() for steps in sp.get("tasks", []) for step in steps)
            vs += M.m_outcome(out, base, "reordered/redelivered", exec_slack=(None if jumps else {}))
    if pid == "C03":
        vs += M.m_c03(out)
    if pid == "C11":
        vs += M.m_c11(out)
        vs += M.m_c11_losers(out)
    if pid == "C05" and (crashfree or (kind == "inject" and what in ("pause", "signal"))):
        vs += M.m_c05(out)
    if pid == "C01" and kind == "crash" and base is not None:
        vs += M.m_c01(out, base)
    if pid == "C01" and kind in ("signal_crash", "pause_crash"):
        # no comparable uninterrupted baseline (the signal / the unpause is part of the history): nothing may be left stuck
        vs += [v for v in M.m_c05(out) if v.signature.startswith(("stuck", "running-leftover"))]
    if pid == "C10" and kind == "inject" and what in ("recover", "recover_every") and base is not None:
        vs += M.m_outcome(out, base, "recovery sweep in a healthy run", exec_slack={})
    if pid == "C10" and kind in ("mid_sweep", "pause_mid_sweep") and base is not None:
        vs += M.m_outcome(out, base, "recovery sweep between two commits of a handler", exec_slack={})
        vs += [v for v in M.m_c05(out) if v.signature.startswith(("stuck", "running-leftover"))]
    if pid == "C17" and (what == "cancel" or (what == "pause" and out["case"].get("cancel_with_unpause"))):
        vs += M.m_c17(out)
    if pid == "C18":
        vs += M.m_c18(out)
    if pid == "C16" and base is not None:
        vs += M.m_c16(out, base)
    return vs


def extend(ctx, res: RunResult, pid: str, extra_cases: list[dict] | None = None) -> list[dict]:
    """run the engine correspondence for `pid` and merge the outcome into res; returns the raw outputs"""
    cases = plan(pid, ctx.tier, ctx.rng) + (extra_cases or [])
    if not cases:
        return []
    t0 = time.time()
    outs = run_batch(cases)
    base = baselines(cases)
    ndis = 0
    distinct = set()
    dist = {"kinds": {}, "families": {}, "final_wf": {}, "actions_total": 0, "commits_compared": 0, "task_executions": 0}
    for o in outs:
        c = o["case"]
        dist["kinds"][c["kind"] + ":" + str(c.get("what") or c.get("policy") or "")] = dist["kinds"].get(c["kind"] + ":" + str(c.get("what") or c.get("policy") or ""), 0) + 1
        fam = re.sub(r"\d+$", "", c.get("name") or "?")
        dist["families"][fam] = dist["families"].get(fam, 0) + 1
        dist["final_wf"][o["final"]["wf"]] = dist["final_wf"].get(o["final"]["wf"], 0) + 1
        dist["actions_total"] += len(o["actions"])
        dist["commits_compared"] += sum(len(t) for t in o["traces"])
        dist["task_executions"] += len(o["ledger"])
        distinct.add(json.dumps(o["actions"]) + spec_key(c["spec"]))
        d = o.get("disagreement")
        if d:
            ndis += 1
            if len(res.disagreements) < 10:
                res.disagreements.append({"engine_case": {k: v for k, v in c.items() if k != "spec"}, "spec": c["spec"],
                                          "first_difference": {k: (v[:400] if isinstance(v, str) else v) for k, v in d.items()},
                                          "actions": o["actions"][: (d.get("action_index") or 0) + 1]})
        b = base.get((spec_key(c["spec"]), base_policy(c)))
        if b is not None and b.get("disagreement") and len(res.disagreements) < 10:
            res.disagreements.append({"engine_case": "fifo baseline", "spec": c["spec"], "first_difference": b["disagreement"]})
        for v in monitor(pid, o, b):
            res.violations.append(v)
    # candidate invariants (premises of the engine theorems) evaluated by the oracle on every visited state
    inv_names = ["running_task_in_running_stage", "not_started_stage", "suspended", "start_task_msg", "sequential", "one_active",
                 "complete_stage", "ids", "started_flag", "mutex", "choice", "plan_pending", "wf_not_started",
                 "start_task_exclusive", "complete_stage_msg", "not_started_no_msgs", "running_task_token"]
    inv_fail: dict = {}
    for (ci, ai, cl) in INV_FAILS:
        for c in cl.split(","):
            nm = inv_names[int(c)] if int(c) < len(inv_names) else c
            inv_fail[nm] = inv_fail.get(nm, 0) + 1
            if nm in REQUIRED_INVARIANTS and len(res.disagreements) < 10 and ci < len(outs):
                res.disagreements.append({"what": f"premise `{nm}` of the engine theorems is false in a state the implementation-validated model reaches",
                                          "spec": outs[ci]["case"]["spec"], "actions": outs[ci]["actions"][:ai + 1]})
    res.extra["invariant_clause_failures"] = inv_fail
    res.extra["states_checked_against_invariants"] = dist["commits_compared"]
    res.evaluations += len(outs)
    res.distinct_nontrivial += len(distinct)
    res.traces_validated += len(outs)
    res.rule = (res.rule + " | " if res.rule else "") + (
        "engine: each case = (workflow spec, scripted task behaviour, online-chosen action list: deliver row / deliver "
        "without ack / crash after k commits + restart / recovery sweep / cancel / signal); the real engine and the extracted "
        "Coq model run the same list and alpha(db) is compared after every write commit; distinct = distinct (spec, action list); "
        "all are non-trivial (>= 1 handler commit)")
    if outs:
        o = outs[min(len(outs) - 1, 3)]
        res.samples.append({"name": o["case"].get("name"), "kind": o["case"]["kind"], "spec": o["case"]["spec"],
                            "actions": o["actions"][:25], "final": {"wf": o["final"]["wf"], "stages": M.final_statuses(o)}})
    res.distribution["engine"] = dist
    res.extra["engine_wall_s"] = round(time.time() - t0, 1)
    res.extra["engine_disagreements"] = ndis
    return outs


def replay(obj) -> bool:
    """re-run a recorded engine replay against the implementation with the monitors of its property"""
    r = obj["replay"]
    pid = obj["property"]
    case = dict(r.get("case", {}))
    case["spec"] = r["spec"]
    case["kind"] = "script"
    case["actions"] = r["actions"]
    out = run_batch([case], nproc=1)[0]
    case2 = dict(r.get("case", {}), spec=r["spec"])
    base = baselines([case2]).get((spec_key(case["spec"]), base_policy(case2)))
    out["case"] = dict(out["case"], **{k: v for k, v in case2.items() if k in ("kind", "what", "policy")})
    vs = monitor(pid, out, base)
    return not any(v.signature == obj.get("signature") for v in vs) and not (obj.get("signature") is None and vs)
