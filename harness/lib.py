"""Shared machinery for every property check.

Conventions (see /verif/FRAMEWORK.md):
  * cwd is /verif; the implementation under test is /repo's working tree (PYTHONPATH=/repo/src).
  * Coq sources live under /verif/coq (logical root `Stab`): gen/ (regenerated from /repo on every
    run by harness/translate.py), model/ (hand-written executable models), proofs/ (lemmas),
    props/Cnn.v (property theorems only).
  * A property module harness/props/cNN.py exposes PID, COQ_TARGETS, THEOREMS and run(ctx).
"""
from __future__ import annotations

import fcntl
import hashlib
import json
import os
import random
import re
import shutil
import subprocess
import sys
import time
from dataclasses import dataclass, field
from pathlib import Path
from typing import Any

VERIF = Path(__file__).resolve().parent.parent
REPO = Path(os.environ.get("VERIF_REPO", "/repo"))
SRC = REPO / "src" / "stabilize"
# the three output locations can be redirected (used only to try a check against a scratch copy of the
# repository without disturbing /verif's own build): VERIF_COQ, VERIF_BUILD, VERIF_OUT
COQ = Path(os.environ.get("VERIF_COQ", str(VERIF / "coq")))
BUILD = Path(os.environ.get("VERIF_BUILD", str(VERIF / "build")))
EVIDENCE = Path(os.environ.get("VERIF_OUT", str(VERIF))) / "evidence"
REPLAYS = Path(os.environ.get("VERIF_OUT", str(VERIF))) / "replays"
PY = "/venv/bin/python"
NPROC = int(os.environ.get("VERIF_NPROC", "16"))

ALLOWED_AXIOMS: set[str] = set()  # no axiom is needed by any property theorem so far

HYGIENE_RE = re.compile(
    r"\b(Admitted|admit|Axiom|Axioms|Parameter|Parameters|Conjecture|Admit Obligations)\b"
    r"|Unset\s+Guard\s+Checking|bypass_check|Unset\s+Positivity|Unset\s+Universe\s+Checking"
    r"|-type-in-type|-impredicative-set|native_compute"
)


def tier() -> str:
    t = os.environ.get("VERIF_TIER", "quick")
    return t if t in ("quick", "thorough") else "quick"


def seed() -> int:
    try:
        return int(os.environ.get("VERIF_SEED", "0"))
    except ValueError:
        return 0


def sh(cmd, timeout=600, cwd=None, env=None, input=None) -> subprocess.CompletedProcess:
    return subprocess.run(
        cmd, shell=isinstance(cmd, str), cwd=cwd, env=env, input=input, text=True,
        stdout=subprocess.PIPE, stderr=subprocess.STDOUT, timeout=timeout,
    )


# --------------------------------------------------------------------------------------------
# Coq build
# --------------------------------------------------------------------------------------------

class _Lock:
    def __init__(self, name: str):
        BUILD.mkdir(exist_ok=True)
        self.path = BUILD / name

    def __enter__(self):
        self.f = open(self.path, "w")
        fcntl.flock(self.f, fcntl.LOCK_EX)
        return self

    def __exit__(self, *a):
        fcntl.flock(self.f, fcntl.LOCK_UN)
        self.f.close()


def coq_lock():
    return _Lock(".coq.lock")


def write_if_changed(path: Path, text: str) -> bool:
    if path.exists() and path.read_text() == text:
        return False
    path.parent.mkdir(parents=True, exist_ok=True)
    path.write_text(text)
    return True


def _coq_files() -> list[str]:
    out = []
    for sub in ("gen", "model", "proofs", "props"):
        d = COQ / sub
        if d.is_dir():
            out += sorted(str(p.relative_to(COQ)) for p in d.glob("*.v"))
    return out


def ensure_makefile() -> None:
    files = _coq_files()
    proj = "-Q . Stab\n-arg -w -arg -notation-overridden,-deprecated-hint-without-locality," \
           "-deprecated-instance-without-locality,-ambiguous-paths,-future-coercion-class-field\n" \
           + "\n".join(files) + "\n"
    changed = write_if_changed(COQ / "_CoqProject", proj)
    if changed or not (COQ / "Makefile").exists():
        r = sh("coq_makefile -f _CoqProject -o Makefile", cwd=COQ, timeout=120)
        if r.returncode != 0:
            raise RuntimeError("coq_makefile failed:\n" + r.stdout)


@dataclass
class BuildResult:
    ok: bool
    failed: list[str] = field(default_factory=list)   # .vo targets that did not build
    log: str = ""
    wall_s: float = 0.0
    hygiene: list[str] = field(default_factory=list)  # offending lines (must be empty)


def hygiene_scan() -> list[str]:
    bad = []
    for rel in _coq_files():
        p = COQ / rel
        txt = p.read_text()
        # strip comments (non-nested is enough to be conservative: we scan the raw text too)
        for i, line in enumerate(txt.splitlines(), 1):
            if HYGIENE_RE.search(_strip_coq_comment(line)):
                bad.append(f"{rel}:{i}: {line.strip()}")
    return bad


def _strip_coq_comment(line: str) -> str:
    return re.sub(r"\(\*.*?\*\)", "", line)


def coq_build(targets: list[str], timeout: int = 1500) -> BuildResult:
    """Build the cone of the given .vo targets (relative to coq/), full .vo, under a lock."""
    t0 = time.time()
    with coq_lock():
        ensure_makefile()
        r = sh(["timeout", str(timeout), "make", "-k", f"-j{NPROC}"] + targets, cwd=COQ, timeout=timeout + 30)
    failed = [t for t in targets if not (COQ / t).exists() or _stale(COQ / t)]
    log = r.stdout[-20000:]
    ok = r.returncode == 0 and not failed
    if r.returncode != 0 and not failed:
        failed = ["(make returned %d)" % r.returncode]
    return BuildResult(ok=ok, failed=failed, log=log, wall_s=time.time() - t0, hygiene=hygiene_scan())


def _stale(vo: Path) -> bool:
    v = vo.with_suffix(".v")
    return v.exists() and v.stat().st_mtime > vo.stat().st_mtime


def gen_cone(targets: list[str]) -> set | None:
    """names (without .v) of the coq/gen files in the transitive Require cone of the targets (textual scan)"""
    import re as _re
    seen, todo, gens = set(), [t[:-3] + ".v" if t.endswith(".vo") else t for t in targets], set()
    while todo:
        rel = todo.pop()
        if rel in seen:
            continue
        seen.add(rel)
        p = COQ / rel
        if not p.exists():
            continue
        txt = p.read_text()
        for m in _re.finditer(r"(?:From\s+Stab(?:\.(\w+))?\s+)?Require\s+(?:Import|Export)?\s+([^.]*(?:\.[^.\s]+)*)\.", txt):
            sub, names = m.group(1), m.group(2)
            for nm in names.split():
                parts = nm.split(".")
                if parts[0] == "Stab":
                    parts = parts[1:]
                if sub:
                    parts = [sub] + parts
                if len(parts) == 2 and parts[0] in ("gen", "model", "proofs", "props"):
                    if parts[0] == "gen":
                        gens.add(parts[1])
                    todo.append(f"{parts[0]}/{parts[1]}.v")
    return gens


def coq_run(vtext: str, name: str, timeout: int = 600) -> tuple[int, str]:
    """Compile a scratch .v file (build/tmp/<name>.v) against the Stab library; return (rc, output)."""
    d = BUILD / "tmp"
    d.mkdir(parents=True, exist_ok=True)
    f = d / f"{name}.v"
    f.write_text(vtext)
    r = sh(["timeout", str(timeout), "coqc", "-Q", str(COQ), "Stab", "-w", "-all", str(f)], cwd=d, timeout=timeout + 30)
    for ext in (".vo", ".vok", ".vos", ".glob"):
        try:
            (d / f"{name}{ext}").unlink()
        except FileNotFoundError:
            pass
    try:
        (d / f".{name}.aux").unlink()
    except FileNotFoundError:
        pass
    return r.returncode, r.stdout


def print_assumptions(theorems: list[str]) -> dict[str, list[str]]:
    """theorem (qualified, e.g. Stab.props.C06.foo) -> list of axioms ([] == closed)."""
    if not theorems:
        return {}
    mods = sorted({t.rsplit(".", 1)[0] for t in theorems})
    lines = [f"Require Import {m}." for m in mods]
    for t in theorems:
        lines.append(f'Goal True. idtac "@@BEGIN {t}". Abort.')
        lines.append(f"Print Assumptions {t}.")
        lines.append(f'Goal True. idtac "@@END {t}". Abort.')
    rc, out = coq_run("\n".join(lines) + "\n", "assump_" + hashlib.md5("".join(theorems).encode()).hexdigest()[:10])
    res: dict[str, list[str]] = {}
    if rc != 0:
        for t in theorems:
            res[t] = ["<Print Assumptions failed: %s>" % out.strip().splitlines()[-1:]]
        return res
    for t in theorems:
        m = re.search(r"@@BEGIN %s\n(.*?)@@END %s" % (re.escape(t), re.escape(t)), out, re.S)
        body = m.group(1) if m else "<missing>"
        if "Closed under the global context" in body:
            res[t] = []
        else:
            axs = []
            for ln in body.splitlines():
                mm = re.match(r"^([A-Za-z_][\w.']*)\s*:", ln)
                if mm:
                    axs.append(mm.group(1))
            res[t] = axs or [body.strip()[:200]]
    return res


def coq_list_nat(out: str) -> list[list[int]]:
    """Parse every `= [a; b; ...] : list nat` block printed by Eval/Compute."""
    res = []
    for m in re.finditer(r"=\s*(\[.*?\]|nil)\s*:\s*list nat", out, re.S):
        body = m.group(1)
        res.append([int(x) for x in re.findall(r"\d+", body)])
    return res


def coq_failing_indices(requires: str, check_fn: str, case_type: str, cases: list[str], name: str,
                        shard: int = 400, timeout: int = 600) -> tuple[list[int], str]:
    """Evaluate `check_fn : case_type -> bool` on every case *inside Coq* (vm_compute) and return
    the indices for which it is false.  The cases (inputs together with the outputs observed on the
    implementation) are written as Coq terms; the model is the one just compiled from coq/model.
    Returns (failing indices, error text or '')."""
    d = BUILD / "tmp"
    d.mkdir(parents=True, exist_ok=True)
    shards = [cases[i:i + shard] for i in range(0, len(cases), shard)]
    files = []
    for k, sh_cases in enumerate(shards):
        body = ["From Coq Require Import List Bool ZArith String.", requires, "Require Import Stab.model.Base.", "Import ListNotations.",
                f"Definition cases : list ({case_type}) := ["]
        body.append(";\n".join(sh_cases))
        body.append("].")
        body.append(f"Eval vm_compute in (Base.failing ({check_fn}) cases).")
        f = d / f"{name}_{k}.v"
        f.write_text("\n".join(body) + "\n")
        files.append(f)
    failing: list[int] = []
    err = ""
    procs = []
    for f in files:
        procs.append((f, subprocess.Popen(
            ["timeout", str(timeout), "coqc", "-Q", str(COQ), "Stab", "-w", "-all", str(f)], cwd=d,
            stdout=subprocess.PIPE, stderr=subprocess.STDOUT, text=True)))
        while sum(1 for _, p in procs if p.poll() is None) >= NPROC:
            time.sleep(0.05)
    for k, (f, p) in enumerate(procs):
        out, _ = p.communicate()
        if p.returncode != 0:
            err += f"[shard {k}] coqc rc={p.returncode}: {out[-1500:]}\n"
        else:
            lists = coq_list_nat(out)
            if len(lists) != 1:
                err += f"[shard {k}] unparsable output: {out[-500:]}\n"
            else:
                failing += [k * shard + i for i in lists[0]]
        for ext in (".v", ".vo", ".vok", ".vos", ".glob"):
            try:
                f.with_suffix(ext).unlink()
            except FileNotFoundError:
                pass
        try:
            (d / f".{f.stem}.aux").unlink()
        except FileNotFoundError:
            pass
    return failing, err


# --------------------------------------------------------------------------------------------
# Coq term printers
# --------------------------------------------------------------------------------------------

def cq_bool(b) -> str:
    return "true" if b else "false"


def cq_list(xs) -> str:
    return "[" + "; ".join(xs) + "]"


def cq_nat(n: int) -> str:
    assert 0 <= n < 5000, n
    return f"{n}%nat"


def cq_Z(n: int) -> str:
    return f"({n})%Z"


def cq_opt(x, f=str) -> str:
    return "None" if x is None else f"(Some {f(x)})"


def cq_string(s: str) -> str:
    assert all(32 <= ord(c) < 127 for c in s), s
    return '"' + s.replace('"', '""') + '"%string'


# --------------------------------------------------------------------------------------------
# Results, evidence, verdicts
# --------------------------------------------------------------------------------------------

@dataclass
class Violation:
    what: str                 # short description of what fails
    signature: str            # stable identity used to match known findings
    replay: dict              # concrete input / schedule / history that fails on the implementation


@dataclass
class RunResult:
    evaluations: int = 0
    distinct_nontrivial: int = 0
    rule: str = ""
    samples: list = field(default_factory=list)
    traces_validated: int = 0
    disagreements: list = field(default_factory=list)   # model != implementation (each a dict)
    violations: list = field(default_factory=list)      # list[Violation], found on the implementation
    distribution: dict = field(default_factory=dict)
    notes: list = field(default_factory=list)
    exhaustive: bool = False
    extra: dict = field(default_factory=dict)


@dataclass
class Ctx:
    pid: str
    tier: str
    seed: int
    rng: random.Random
    build: BuildResult | None = None
    broken: list = field(default_factory=list)


def load_known() -> list[dict]:
    out = []
    p = VERIF / "known_findings.json"
    if p.exists():
        out += json.loads(p.read_text()).get("findings", [])
    d = VERIF / "known_findings.d"
    if d.is_dir():
        for q in sorted(d.glob("*.json")):
            out += json.loads(q.read_text()).get("findings", [])
    return out


def write_replay(pid: str, obj: dict) -> str:
    REPLAYS.mkdir(exist_ok=True)
    blob = json.dumps(obj, sort_keys=True, default=str)
    h = hashlib.sha1(blob.encode()).hexdigest()[:12]
    path = REPLAYS / f"{pid}-{h}.json"
    path.write_text(json.dumps(obj, indent=1, sort_keys=True, default=str))
    return str(path)


def write_evidence(pid: str, payload: dict) -> None:
    EVIDENCE.mkdir(exist_ok=True)
    (EVIDENCE / f"{pid}.json").write_text(json.dumps(payload, indent=1, default=str) + "\n")


def repo_env(extra: dict | None = None) -> dict:
    env = dict(os.environ)
    env["PYTHONPATH"] = str(REPO / "src")
    env["PYTHONHASHSEED"] = "0"
    env["STABILIZE_VERIF"] = "1"
    env.setdefault("STABILIZE_SQLITE_SYNCHRONOUS", "OFF")
    if extra:
        env.update(extra)
    return env


def ensure_repo_on_path() -> None:
    p = str(REPO / "src")
    if p not in sys.path:
        sys.path.insert(0, p)
    os.environ.setdefault("STABILIZE_SQLITE_SYNCHRONOUS", "OFF")
    os.environ["STABILIZE_VERIF"] = "1"


def scratch_dir(tag: str) -> Path:
    base = Path("/dev/shm") if Path("/dev/shm").is_dir() else BUILD
    d = base / f"stabverif-{tag}-{os.getpid()}-{random.getrandbits(32):08x}"
    d.mkdir(parents=True)
    return d


def rm_rf(p: Path) -> None:
    shutil.rmtree(p, ignore_errors=True)
