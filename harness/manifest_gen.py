"""Regenerates MANIFEST.json from the property modules present (run: python -m harness.manifest_gen)."""
import importlib, json, os
from harness import lib

ALL = [f"C{i:02d}" for i in range(1, 21)]

# what each check claims, honestly: PROVED = a Coq theorem for all inputs / states / schedules the statement quantifies
# over (closed under the global context); PARTIAL = the part of the property text no theorem covers yet, decided by the
# correspondence check and the implementation-side monitors only (DESIGN.md section 0.2)
LEVELS = {
 "C01": "PROVED over model/Engine.v (tied to /repo by a commit-level correspondence on every run): a crash leaves exactly a prefix of a delivery's commits; the claim/plan window is recovered and re-planned with the merged upstream data; synthetic stages are created atomically with their parent's plan in every handler; every commit before the crash and of the recovery is a legal status change. PARTIAL: 'same outcome as the uninterrupted run / only the in-flight step re-executed' has no theorem (token invariant not proved) - decided by crash-at-every-commit runs + monitors.",
 "C02": "PROVED over model/Engine.v: a processed message is never handled again (state frame) for every state; no non-jump commit re-arms a started stage; completed statuses survive every non-jump step; a step executes only a task that was RUNNING when read. PARTIAL: 'same final outcome under every reordering' has no theorem - decided by schedules + monitors.",
 "C03": "PROVED: evaluate_readiness = READY iff the join condition, for all five join types and upstream lists of any length (model tied by an exhaustive differential); in ANY StartStage handling NOT_STARTED->RUNNING is written only with the bypass flag or the join condition over the statuses read; RunTask executes only RUNNING tasks; a parent's tasks start only after its before stages; a StartStage handling writes a synthetic child only when its parent has started.",
 "C04": "PROVED over model/Conc.v (statement-level interleavings of any number of workers, tied by real threads under a statement scheduler): one claim per stage, the loser writes nothing, snapshots never newer than the row, join-bump safety. PARTIAL: liveness of a join bumped by several concurrent writers; two witnesses are _refuted theorems (known finding F8).",
 "C05": "PROVED: the final-status decision (SUCCEEDED only if all continuable or the STOPPED branch - the full statement is _refuted, known finding; TERMINAL / CANCELED reported; final is completed), determine_status never finished while core work or after-stages are unfinished, and the engine stores exactly these functions' results (models tied by exhaustive differentials). PARTIAL: 'queue empty => finished or waiting' has no theorem - decided by engine schedules + monitors at quiescence.",
 "C06": "PROVED: the published table (regenerated from the source) gives completed statuses no exit; every commit of every non-jump delivery (complete, un-acked or cut by a crash), recovery sweep and request is a legal transition for workflow, stages and tasks (premise 'RUNNING task => RUNNING stage' for suspending tasks only; unconditional whole-run theorem for non-suspending non-jumping tasks); added rows are fresh. PARTIAL: that premise as an inductive invariant (checked on every visited state).",
 "C10": "PROVED: a recovery sweep only appends queue rows (no status, mark, claim or ledger change) and is a legal no-op; it leaves a parent waiting for its before stages alone. PARTIAL: 'healthy sweep changes no outcome / second sweep adds nothing' - decided by sweeps injected before every step + monitors; known finding F9.",
 "C17": "PROVED over model/Engine.v for every action list: once the cancel flag is durable no task executes; CancelWorkflow sets it and sends CancelStage to every unfinished stage; a jump after cancel re-arms nothing. PARTIAL: 'every unfinished stage ends CANCELED and the workflow reaches a final status' - decided by cancel-before-every-step runs + monitors.",
 "C18": "PROVED over model/Engine.v: a persistent signal is delivered or buffered in one commit with its processed mark; a transient one on a non-suspended stage changes nothing; suspend consumes exactly one buffered signal; no other handler writes a SUSPENDED stage; no stage write of a JumpToStage / RestartStage handling changes a stage's buffered signals. PARTIAL: the counting statement over whole runs and the two-worker race (F8, C04).",
}

PENDING_REASON = "check not built yet in this round (planned: see DESIGN.md section 6); no claim is made"

def main():
    checks, na = [], []
    claimed = set((lib.VERIF / "harness" / "claimed.txt").read_text().split())
    for pid in ALL:
        p = lib.VERIF / "harness" / "props" / f"{pid.lower()}.py"
        if not p.exists() or pid not in claimed:
            na.append({"property_id": pid, "reason": PENDING_REASON})
            continue
        m = importlib.import_module(f"harness.props.{pid.lower()}")
        if getattr(m, "NOT_APPLICABLE", None):
            na.append({"property_id": pid, "reason": m.NOT_APPLICABLE})
            continue
        checks.append({
            "property_id": pid,
            "quick_cmd": f"./check {pid} --tier quick",
            "thorough_cmd": f"./check {pid} --tier thorough",
            "evidence_file": f"/verif/evidence/{pid}.json",
            "replay_cmd_template": "./check replay {path}",
            "engine": "coq-proof+correspondence",
            "level_claimed": {"category": "proof", "text": LEVELS.get(pid) or getattr(m, "LEVEL_TEXT", m.__doc__.strip().split("\n\n")[0]),
                              "design_ref": f"DESIGN.md section 6 ({pid})"},
            "level_note": getattr(m, "LEVEL_NOTE", "Trusted: Coq 8.16.1 kernel; translator harness/translate.py; the correspondence "
                                  "harness tying hand-written models to /repo; see DESIGN.md section 8."),
            "technique": getattr(m, "TECHNIQUE", "machine-checked proof in Coq over a model tied to the source by translation + correspondence check"),
        })
    man = {
        "version": 1,
        "setup_cmd": "./check setup",
        "hooks": {"guard": "STABILIZE_VERIF", "enable": "no source hooks are needed: the harness observes through sqlite3.connect wrapping, SQL triggers in scratch databases and public APIs; STABILIZE_VERIF=1 is exported by ./check but read by nothing in /repo",
                  "baseline_off_cmd": "cd /repo && /venv/bin/python -m pytest -ra -q -p no:cacheprovider --timeout=900 --continue-on-collection-errors",
                  "source_commits": [], "add_only": True},
        "engines": [{"name": "coq-proof+correspondence", "path": "/verif/check",
                     "serves_properties": [c["property_id"] for c in checks],
                     "kind_free_text": "Coq 8.16.1 theorems over executable Gallina models; models regenerated from source (translator) or tied by a differential correspondence check run on every invocation"}],
        "checks": checks,
        "not_applicable": na,
        "notes": "See DESIGN.md. known_findings.json lists genuine defects found; seeded/ holds validated mutations.",
    }
    (lib.VERIF / "MANIFEST.json").write_text(json.dumps(man, indent=1) + "\n")
    print("claimed:", [c["property_id"] for c in checks])

if __name__ == "__main__":
    main()
