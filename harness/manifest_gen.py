"""Regenerates MANIFEST.json from the property modules present (run: python -m harness.manifest_gen)."""
import importlib, json, os
from harness import lib

ALL = [f"C{i:02d}" for i in range(1, 21)]
PENDING_REASON = "check not built yet in this round (planned: see DESIGN.md section 6); no claim is made"

def main():
    checks, na = [], []
    claimed = set((lib.VERIF / "harness" / "claimed.txt").read_text().split())
    for pid in ALL:
        p = lib.VERIF / "harness" / "props" / f"{pid.lower()}.py"
        if not p.exists() or pid not in claimed:
            na.append({"property_id": pid, "reason": PENDING_REASON})
            continue
        m = importlib.import_module(f"harness.props.{pid.lower()}")
        if getattr(m, "NOT_APPLICABLE", None):
            na.append({"property_id": pid, "reason": m.NOT_APPLICABLE})
            continue
        checks.append({
            "property_id": pid,
            "quick_cmd": f"./check {pid} --tier quick",
            "thorough_cmd": f"./check {pid} --tier thorough",
            "evidence_file": f"/verif/evidence/{pid}.json",
            "replay_cmd_template": "./check replay {path}",
            "engine": "coq-proof+correspondence",
            "level_claimed": {"category": "proof", "text": getattr(m, "LEVEL_TEXT", m.__doc__.strip().split("\n\n")[0]),
                              "design_ref": f"DESIGN.md section 6 ({pid})"},
            "level_note": getattr(m, "LEVEL_NOTE", "Trusted: Coq 8.16.1 kernel; translator harness/translate.py; the correspondence "
                                  "harness tying hand-written models to /repo; see DESIGN.md section 8."),
            "technique": getattr(m, "TECHNIQUE", "machine-checked proof in Coq over a model tied to the source by translation + correspondence check"),
        })
    man = {
        "version": 1,
        "setup_cmd": "./check setup",
        "hooks": {"guard": "STABILIZE_VERIF", "enable": "no source hooks are needed: the harness observes through sqlite3.connect wrapping, SQL triggers in scratch databases and public APIs; STABILIZE_VERIF=1 is exported by ./check but read by nothing in /repo",
                  "baseline_off_cmd": "cd /repo && /venv/bin/python -m pytest -ra -q -p no:cacheprovider --timeout=900 --continue-on-collection-errors",
                  "source_commits": [], "add_only": True},
        "engines": [{"name": "coq-proof+correspondence", "path": "/verif/check",
                     "serves_properties": [c["property_id"] for c in checks],
                     "kind_free_text": "Coq 8.16.1 theorems over executable Gallina models; models regenerated from source (translator) or tied by a differential correspondence check run on every invocation"}],
        "checks": checks,
        "not_applicable": na,
        "notes": "See DESIGN.md. known_findings.json lists genuine defects found; seeded/ holds validated mutations.",
    }
    (lib.VERIF / "MANIFEST.json").write_text(json.dumps(man, indent=1) + "\n")
    print("claimed:", [c["property_id"] for c in checks])

if __name__ == "__main__":
    main()
