"""Implementation-side monitors: each evaluates a property statement directly on what the REAL engine did
in one run (status audit rows written by SQL triggers, the task execution ledger kept by the scripted
task, the final store).  They are the search for a failing input (DESIGN.md 7.3) and the sanity check
that the Coq statements say what the properties say.  A monitor only reports what is a violation of the
property text; schedule-dependent parts of an outcome are never compared."""
from __future__ import annotations

import bisect
import json

from harness.lib import Violation

CONTINUABLE = {"SUCCEEDED", "FAILED_CONTINUE", "SKIPPED", "REDIRECT"}
HALT = {"TERMINAL", "CANCELED", "STOPPED"}
COMPLETE = {"SUCCEEDED", "FAILED_CONTINUE", "TERMINAL", "CANCELED", "STOPPED", "SKIPPED"}
WAITING = {"SUSPENDED", "PAUSED"}


def _replay(out, extra=None) -> dict:
    r = {"spec": out["case"]["spec"], "actions": out["actions"], "case": {k: v for k, v in out["case"].items() if k != "spec"}}
    if extra:
        r.update(extra)
    return r


def action_of(out, seq: int) -> int:
    return bisect.bisect_left(out["audit_marks"], seq)


def polled_type(out, ai: int):
    if ai >= len(out["results"]):
        return None
    a = out["actions"][ai]
    if a[0] in ("D", "X", "M"):      # M: a delivery with a sweeper thread in the middle - the handler is the polled message's
        return out["results"][ai].get("polled")
    return {"W": "<maintenance sweep>", "R": "<recovery>", "C": "<cancel request>", "B": "<submit>", "S": "<signal request>", "P": "<pause request>",
            "U": "<unpause request>", "T": "<restart request>"}.get(a[0])


def ref_of(out, ent):
    return out["id_ref"].get(ent, ent)


def task_of(out, ent):
    t = out["task_ids"].get(ent)
    return tuple(t) if t else (ent, None)


# ---------------------------------------------------------------------------------------------- C06
def m_c06(out) -> list[Violation]:
    from stabilize.models.status import WorkflowStatus, can_transition
    vs = []
    for row in out["audit"]:
        if row["kind"] not in ("stage", "task", "workflow"):
            continue
        old, new = WorkflowStatus[row["old"]], WorkflowStatus[row["new"]]
        if can_transition(old, new):
            continue
        ai = action_of(out, row["seq"])
        mt = polled_type(out, ai)
        if mt in ("JumpToStage", "RestartStage"):
            continue      # the explicit re-arm exception of the property
        who = ref_of(out, row["ent"]) if row["kind"] == "stage" else (task_of(out, row["ent"]) if row["kind"] == "task" else "workflow")
        sig = f"illegal:{row['kind']}:{row['old']}->{row['new']}:{mt}"
        if mt == "<pause request>" and row["kind"] == "workflow" and row["new"] == "PAUSED":
            sig = "illegal:pause-of-non-running-workflow"
        vs.append(Violation(
            what=f"durable status change {row['kind']} {who}: {row['old']} -> {row['new']} is not in the transition table (while handling {mt})",
            signature=sig,
            replay=_replay(out, {"audit_row": row, "action_index": ai})))
    return vs


# ---------------------------------------------------------------------------------------------- helpers
def stage_segments(out):
    """per stage ref: list of iterations; an iteration = audit rows between re-arms (-> NOT_STARTED)"""
    seg = {}
    for row in out["audit"]:
        if row["kind"] == "stage":
            ref = ref_of(out, row["ent"])
            seg.setdefault(ref, [[]])
            if row["new"] == "NOT_STARTED":
                seg[ref].append([])
            else:
                seg[ref][-1].append(row)
    return seg


SYN_KINDS = ("before", "after", "on_failure")


def spec_map(out) -> dict:
    """ref -> stage description, for the submitted stages AND the synthetic children their builders add
    (a chained child depends on the child added before it; `parent` / `kind` say where it belongs)"""
    m = {}
    for s in out["case"]["spec"]["stages"]:
        m[s["ref"]] = s
        for kind in SYN_KINDS:
            prev = None
            for ch in s.get(kind, []):
                d = dict(ch)
                d["reqs"] = [prev] if (ch.get("chain") and prev) else []
                d["parent"], d["kind"] = s["ref"], kind
                m[ch["ref"]] = d
                prev = ch["ref"]
    return m


def statuses_at(out, seq: int) -> dict:
    """stage ref -> durable status just before audit row `seq` (synthetic children from the commit that added them)"""
    st = {s["ref"]: "NOT_STARTED" for s in out["case"]["spec"]["stages"]}
    for row in out["audit"]:
        if row["seq"] >= seq:
            break
        if row["kind"] == "stage":
            st[ref_of(out, row["ent"])] = row["new"]
        elif row["kind"] == "stage_add":
            st.setdefault(ref_of(out, row["ent"]), "NOT_STARTED")
    return st


# ---------------------------------------------------------------------------------------------- C02
def m_c02(out) -> list[Violation]:
    """crash-free, recovery-free runs: per iteration a stage's first task is started once; a task whose
    result is recorded is never executed again in that iteration"""
    vs = []
    idx = out["idx"]
    # (a) StartTask pushes per (stage, task) per iteration of the stage
    resets = {}   # stage ref -> sorted seqs of re-arm rows
    for row in out["audit"]:
        if row["kind"] == "stage" and row["new"] == "NOT_STARTED":
            resets.setdefault(ref_of(out, row["ent"]), []).append(row["seq"])
    # a duplicate StartTask MESSAGE is harmless (the handler ignores it unless the task is NOT_STARTED; a parent with
    # several before stages gets one per ContinueParentStage): what must not happen is the task being STARTED twice
    starts = {}
    for row in out["audit"]:
        if row["kind"] == "task" and row["old"] == "NOT_STARTED" and row["new"] in ("RUNNING", "SKIPPED"):
            ref, t = task_of(out, row["ent"])
            it = bisect.bisect_left(resets.get(ref, []), row["seq"])
            starts[(ref, t, it)] = starts.get((ref, t, it), 0) + 1
    for (ref, t, it), n in starts.items():
        if n > 1:
            vs.append(Violation(
                what=f"stage {ref} task {t} was started {n} times in loop iteration {it}",
                signature=f"start-twice:{ref}:{t}", replay=_replay(out)))
    # (a') the tasks of a stage run one after the other: task t+1 starts only when task t is complete (outside jump
    #      loops, whose stale task messages are the known F10 family)
    has_jump = any(str(step).startswith("jump") for sp in spec_map(out).values() for steps in sp.get("tasks", []) for step in steps)
    if not has_jump:
        tstat = {}
        for row in out["audit"]:
            if row["kind"] != "task":
                continue
            ref, t = task_of(out, row["ent"])
            if row["old"] == "NOT_STARTED" and row["new"] == "RUNNING" and t is not None and t > 0:
                prev = tstat.get((ref, t - 1), "NOT_STARTED")
                if prev not in COMPLETE:
                    vs.append(Violation(
                        what=f"task {t} of stage {ref} started while task {t - 1} of the same stage was {prev}",
                        signature=f"task-out-of-order:{ref}", replay=_replay(out)))
                    break
            tstat[(ref, t)] = row["new"]
    # (b) re-execution after a recorded result
    done = {}     # task key -> list of (seq when completed)
    task_resets = {}
    for row in out["audit"]:
        if row["kind"] == "task":
            k = task_of(out, row["ent"])
            if row["new"] in COMPLETE:
                done.setdefault(k, []).append(row["seq"])
            if row["new"] == "NOT_STARTED":
                task_resets.setdefault(k, []).append(row["seq"])
    for e in out["ledger"]:
        k = (e["ref"], e["task"])
        for c in done.get(k, []):
            if e["audit_seq"] >= c and not any(c < r <= e["audit_seq"] for r in task_resets.get(k, [])):
                vs.append(Violation(
                    what=f"task {k} executed again (execution #{e['n']}) after its result had been recorded",
                    signature=f"reexec-after-result:{k[0]}:{k[1]}", replay=_replay(out, {"ledger_entry": e})))
                break
    return vs


def exec_counts(out) -> dict:
    c = {}
    for e in out["ledger"]:
        c[(e["ref"], e["task"])] = c.get((e["ref"], e["task"]), 0) + 1
    return c


def final_statuses(out) -> dict:
    return {s["ref"]: s["status"] for s in out["final"]["stages"]}


def halt_free(out) -> bool:
    fs = final_statuses(out)
    return out["final"]["wf"] == "SUCCEEDED" and all(v in ("SUCCEEDED", "SKIPPED", "FAILED_CONTINUE") for v in fs.values())


def m_outcome(out, base, tag: str, exec_slack=None) -> list[Violation]:
    """same outcome as the in-order exactly-once run `base`, on the schedule-independent part:
    the workflow's final status always; every stage's status (and, optionally, execution counts) when the
    baseline is halt-free (no failure whose propagation races with sibling branches)."""
    vs = []
    if not out["quiescent"] or not base["quiescent"]:
        return vs
    if out["case"]["spec"].get("order_dependent"):
        return vs      # the workflow's outcome is a function of the delivery order by design (milestone window)
    if out["final"]["wf"] != base["final"]["wf"]:
        vs.append(Violation(
            what=f"workflow ends {out['final']['wf']} but the in-order exactly-once run ends {base['final']['wf']} ({tag})",
            signature=(f"outcome:wf:{base['final']['wf']}->{out['final']['wf']}:{tag}" if out["final"]["wf"] in COMPLETE
                       else "stuck:" + stuck_diagnosis(out)),
            replay=_replay(out, {"baseline_final": final_statuses(base)})))
        return vs
    if halt_free(base):
        a, b = final_statuses(out), final_statuses(base)
        for ref in b:
            if a.get(ref) != b[ref]:
                if b[ref] == "SKIPPED":
                    # a branch the OR-split decided to skip was started instead (and its tasks ran)
                    vs.append(Violation(
                        what=f"stage {ref}, skipped by its OR-split in the reference run, ran and ends {a.get(ref)} ({tag})",
                        signature=f"skipped-branch-ran:{tag}", replay=_replay(out, {"baseline_final": b})))
                    return vs
                vs.append(Violation(
                    what=f"stage {ref} ends {a.get(ref)} but {b[ref]} in the in-order exactly-once run ({tag})",
                    signature=f"outcome:stage:{b[ref]}->{a.get(ref)}:{tag}",
                    replay=_replay(out, {"baseline_final": b})))
                break
        if exec_slack is not None:
            ca, cb = exec_counts(out), exec_counts(base)
            for k in set(ca) | set(cb):
                if ca.get(k, 0) > cb.get(k, 0) + exec_slack.get(k, 0):
                    vs.append(Violation(
                        what=f"task {k} executed {ca.get(k, 0)} times, {cb.get(k, 0)} in the baseline (+{exec_slack.get(k, 0)} allowed) ({tag})",
                        signature=f"extra-exec:{tag}", replay=_replay(out, {"baseline_counts": {str(x): y for x, y in cb.items()}})))
                    break
    return vs


# ---------------------------------------------------------------------------------------------- C03
def join_ok(stage_spec, sts: dict, old_ctx: dict) -> bool:
    reqs = stage_spec.get("reqs", [])
    if not reqs:
        return True
    ups = [sts[r] for r in reqs]
    j = stage_spec.get("join", "AND")
    if j == "N_OF_M" and stage_spec.get("threshold", 0) <= 0:
        j = "AND"
    if j == "AND":
        return all(u in CONTINUABLE for u in ups)
    if j == "OR":
        act = old_ctx.get("old_activated")
        if act is None:
            return all(u in CONTINUABLE for u in ups)
        act = json.loads(act) if isinstance(act, str) else act
        return all(sts[r] in CONTINUABLE for r in reqs if r in act)
    if j == "MULTI_MERGE":
        return any(u in CONTINUABLE for u in ups)
    if j == "DISCRIMINATOR":
        return not old_ctx.get("old_fired") and any(u in CONTINUABLE for u in ups)
    if j == "N_OF_M":
        return not old_ctx.get("old_fired") and sum(1 for u in ups if u in CONTINUABLE) >= stage_spec["threshold"]
    return False


def m_c03(out) -> list[Violation]:
    vs = []
    specs = spec_map(out)
    # synthetic ordering: a parent's task starts only after every before stage finished in a continuable status; an
    # after / on-failure stage starts only after the parent's own tasks are all complete
    kids = {}
    for ref, sp in specs.items():
        if sp.get("parent"):
            kids.setdefault((sp["parent"], sp["kind"]), []).append(ref)
    task_st = {}
    for row in out["audit"]:
        if row["kind"] == "task":
            k = task_of(out, row["ent"])
            if row["old"] == "NOT_STARTED" and row["new"] == "RUNNING" and kids.get((k[0], "before")):
                sts = statuses_at(out, row["seq"])
                bad = [c for c in kids[(k[0], "before")] if sts.get(c) not in CONTINUABLE]
                if bad:
                    vs.append(Violation(
                        what=f"task {k} of stage {k[0]} started while its before stage(s) {bad} were {[sts.get(c) for c in bad]}",
                        signature=f"task-before-before-stage:{k[0]}", replay=_replay(out)))
            task_st[k] = row["new"]
        elif row["kind"] == "stage" and row["old"] == "NOT_STARTED" and row["new"] == "RUNNING":
            ref = ref_of(out, row["ent"])
            sp = specs.get(ref)
            if sp and sp.get("kind") in ("after", "on_failure"):
                par = specs[sp["parent"]]
                pend = [t for t in range(len(par.get("tasks", []))) if task_st.get((sp["parent"], t), "NOT_STARTED") not in COMPLETE]
                if pend:
                    # an after / on-failure stage also follows a failure that ENDS the parent's core work early: a before
                    # stage that halted (the parent's tasks then never run; with continuePipelineOnFailure the parent still
                    # gets its after stages), or a task that failed with the later tasks left untouched.  What must not
                    # happen then is an after stage starting while a task of the parent is still in progress.
                    sts = statuses_at(out, row["seq"])
                    before_halted = any(sts.get(c) in ("TERMINAL", "STOPPED", "CANCELED") for c in kids.get((sp["parent"], "before"), []))
                    task_failed = any(task_st.get((sp["parent"], t)) in ("TERMINAL", "STOPPED", "CANCELED", "FAILED_CONTINUE")
                                      for t in range(len(par.get("tasks", []))))
                    if before_halted or task_failed:
                        pend = [t for t in pend if task_st.get((sp["parent"], t), "NOT_STARTED") in ("RUNNING", "PAUSED", "SUSPENDED")]
                if pend:
                    vs.append(Violation(
                        what=f"after stage {ref} started while tasks {pend} of its parent {sp['parent']} were not complete",
                        signature=f"after-stage-early:{ref}", replay=_replay(out)))
    for row in out["audit"]:
        if row["kind"] == "stage" and row["old"] == "NOT_STARTED" and row["new"] == "RUNNING":
            ref = ref_of(out, row["ent"])
            if ref not in specs:
                continue
            ex = json.loads(row["extra"]) if row["extra"] else {}
            if ex.get("old_bypass"):
                continue           # explicit target of a jump
            sts = statuses_at(out, row["seq"])
            if not join_ok(specs[ref], sts, ex):
                vs.append(Violation(
                    what=f"stage {ref} ({specs[ref].get('join', 'AND')} join) started while its upstream stages were "
                         f"{ {r: sts[r] for r in specs[ref].get('reqs', [])} }",
                    signature=f"early-start:{specs[ref].get('join', 'AND')}", replay=_replay(out, {"audit_row": row})))
    for e in out["ledger"]:
        if e["stage_status"] != "RUNNING":
            vs.append(Violation(what=f"task of stage {e['ref']} executed while the stage was {e['stage_status']}",
                                signature="exec-outside-running", replay=_replay(out, {"ledger_entry": e})))
    return vs


def stuck_diagnosis(out) -> str:
    """what the started-but-unfinished stages look like (the identity of a stuck-state finding)"""
    parts = set()
    for st in out["final"]["stages"]:
        if st["status"] not in COMPLETE and st["status"] != "NOT_STARTED":
            parts.add(st["status"] + "[" + ",".join(sorted({t[0] for t in st["tasks"]})) + "]")
    redirected = {p for p in parts if "REDIRECT" in p}
    if redirected:
        # the identity of the stale-REDIRECT findings (F10) is the task left REDIRECT in a RUNNING stage; the stages
        # that merely wait for it (its parent, its siblings) and the later tasks of the same stage (still NOT_STARTED)
        # are a consequence
        parts = {p.split("[")[0] + "[REDIRECT]" for p in redirected}
    if not parts:
        sts = {st["status"] for st in out["final"]["stages"]}
        parts = {"nothing-started" if sts == {"NOT_STARTED"} else
                 ("all-stages-complete" if all(x in COMPLETE for x in sts) else "only-NOT_STARTED-left")}
    return ";".join(sorted(parts)) + spec_tag(out)


def spec_tag(out) -> str:
    """which rarely-combined features the workflow uses: part of the identity of a stuck-state finding, so that the
    known stale-message findings of jump loops (F10 family) cannot hide a stuck workflow that has no jump at all"""
    specs = spec_map(out)
    has_jump = any(str(step).startswith("jump") for sp in specs.values() for steps in sp.get("tasks", []) for step in steps)
    has_syn = any(sp.get("parent") for sp in specs.values())
    return ("@jump" + ("+syn" if has_syn else "")) if has_jump else ""


# ---------------------------------------------------------------------------------------------- C05
def m_c05(out) -> list[Violation]:
    vs = []
    if not out["quiescent"]:
        return vs
    f = out["final"]
    fs = final_statuses(out)
    wf = f["wf"]
    submitted = any(a[0] == "B" for a in out["actions"])
    if wf not in COMPLETE:
        waiting = any(v in WAITING for v in fs.values()) or wf in ("BUFFERED", "PAUSED") or (wf == "NOT_STARTED" and not submitted)
        if not waiting:
            stuck = {k: v for k, v in fs.items() if v not in COMPLETE}
            vs.append(Violation(
                what=f"queue drained but workflow is {wf} with no stage waiting for a signal/resume; unfinished stages {stuck}",
                signature="stuck:" + stuck_diagnosis(out), replay=_replay(out, {"final": fs})))
    else:
        specs = spec_map(out)
        top = {k: v for k, v in fs.items() if not specs.get(k, {}).get("parent")}     # the property speaks of top-level stages:
        # a synthetic child's failure is absorbed (or not) by its parent's own failure policy
        if wf == "SUCCEEDED":
            bad = {k: v for k, v in top.items() if v not in CONTINUABLE}
            if bad:
                # the STOPPED path of _determine_final_status (a stage stopped with failPipeline=false / a task
                # returning STOPPED, nothing else incomplete) is a distinct, documented way to get here
                # (with a non-AND join downstream, stages can even start after the workflow was finalised and are then
                # canceled by RunTask's completed-workflow check: same root cause, same finding)
                sig = "succeeded-with-stopped-stage" if "STOPPED" in bad.values() and set(bad.values()) <= {"STOPPED", "NOT_STARTED", "CANCELED"} \
                    else "succeeded-unsound:" + ",".join(sorted(set(bad.values())))
                vs.append(Violation(what=f"workflow reported SUCCEEDED although stages {bad} did not finish in a continuable status",
                                    signature=sig, replay=_replay(out, {"final": fs})))
        if "TERMINAL" in top.values() and wf != "TERMINAL":
            vs.append(Violation(what=f"a stage failed terminally but the workflow is reported {wf}", signature="failed-not-reported",
                                replay=_replay(out, {"final": fs})))
        run = [k for k, v in fs.items() if v == "RUNNING"]
        if run:
            vs.append(Violation(what=f"workflow finished ({wf}) but stages {run} are left RUNNING", signature="running-leftover",
                                replay=_replay(out, {"final": fs})))
    if f["dlq"]:
        vs.append(Violation(what="messages ended in the dead-letter queue", signature="dlq-nonempty", replay=_replay(out)))
    return vs


# ---------------------------------------------------------------------------------------------- C17
def m_c17(out) -> list[Violation]:
    vs = []
    cseq = None
    for row in out["audit"]:
        if row["kind"] == "canceled" and str(row["new"]) in ("1", "True", "true"):
            cseq = row["seq"]
            break
    if cseq is None:
        return vs
    for e in out["ledger"]:
        if e["audit_seq"] >= cseq:
            vs.append(Violation(what=f"task {(e['ref'], e['task'])} began executing after the cancel was processed",
                                signature="exec-after-cancel", replay=_replay(out, {"ledger_entry": e})))
            break
    if out["quiescent"]:
        at_cancel = statuses_at(out, cseq)
        fs = final_statuses(out)
        decided = in_effect_finished(out, cseq)
        for ref, st in at_cancel.items():
            if st not in COMPLETE and fs[ref] != "CANCELED" and ref not in decided:
                # did any work of that stage happen after the cancel other than skipping?
                late = set()
                for row in out["audit"]:
                    if row["seq"] > cseq and row["kind"] == "task" and task_of(out, row["ent"])[0] == ref and row["new"] in COMPLETE:
                        late.add(row["new"])
                if fs[ref] in ("SKIPPED", "SUCCEEDED") and late <= {"SKIPPED"}:
                    sig = "not-canceled:completed-by-skipping-only"
                    what = (f"stage {ref} was {st} when the cancel was processed; afterwards it was completed {fs[ref]} purely by "
                            f"skipping (stageEnabled=false / disabled SkippableTask), not CANCELED; no task ran")
                else:
                    sig = f"not-canceled:{st}->{fs[ref]}"
                    what = f"stage {ref} was {st} (with work still to do) when the cancel was processed but ends {fs[ref]}, not CANCELED"
                vs.append(Violation(what=what, signature=sig, replay=_replay(out, {"final": fs})))
                break
        # a synthetic stage planned AFTER the cancel was processed (no CancelStage was ever sent for it): it must not be left
        # unfinished in the cancelled workflow
        for ref, st in fs.items():
            if ref not in at_cancel and st not in COMPLETE and out["final"]["wf"] in COMPLETE:
                vs.append(Violation(what=f"stage {ref} was created after the cancel was processed and is left {st} although the workflow "
                                         f"ended {out['final']['wf']}",
                                    signature=f"not-canceled:created-after-cancel:{st}:" +
                                              ("chained" if spec_map(out).get(ref, {}).get("chain") or spec_map(out).get(ref, {}).get("reqs") else "initial"),
                                    replay=_replay(out, {"final": fs})))
                break
        if out["final"]["wf"] not in COMPLETE:
            vs.append(Violation(what=f"workflow is {out['final']['wf']} after the cancel was processed and the queue drained",
                                signature="cancel-not-final", replay=_replay(out, {"final": fs})))
        elif out["final"]["wf"] != "CANCELED" and "CANCELED" in fs.values() and "TERMINAL" not in fs.values() \
                and not workflow_in_effect_finished(out, at_cancel, decided, fs):
            vs.append(Violation(what=f"a stage was canceled but the workflow ends {out['final']['wf']}",
                                signature=f"cancel-final:{out['final']['wf']}", replay=_replay(out, {"final": fs})))
    return vs


def workflow_in_effect_finished(out, at_cancel: dict, decided=(), fs=None) -> bool:
    """when the cancel was processed nothing could run any more: every stage was complete (or its outcome was
    already decided - every task result recorded / its CompleteStage or SkipStage pushed - and it then ended in
    that completed status), or NOT_STARTED with no way left to be started: an AND join behind a halted
    (TERMINAL / STOPPED / CANCELED) or itself blocked stage, any other join with EVERY upstream halted or blocked"""
    specs = spec_map(out)
    fs = fs or {}
    eff = {ref: (fs[ref] if st not in COMPLETE and ref in decided and fs.get(ref) in COMPLETE else st)
           for ref, st in at_cancel.items()}

    def blocked(ref, seen=()):
        if ref in seen:
            return False
        reqs = specs[ref].get("reqs", [])
        dead = [eff[r] in HALT or (eff[r] == "NOT_STARTED" and blocked(r, seen + (ref,))) for r in reqs]
        if not reqs:
            return False
        j = specs[ref].get("join", "AND")
        thr = specs[ref].get("threshold", 0) or 0
        if j in ("AND", "OR") or (j == "N_OF_M" and thr <= 0):     # an OR join without activation info waits like an AND join
            return any(dead)
        if j == "N_OF_M":
            return sum(1 for x in dead if not x) < thr             # too few upstreams can still become continuable
        return all(dead)
    return all(st in COMPLETE or (st == "NOT_STARTED" and blocked(ref)) for ref, st in eff.items())


def in_effect_finished(out, cseq: int) -> set:
    """stages whose outcome was already decided when the cancel was processed: every task has a recorded
    result (a completed status, or its CompleteTask was already pushed), or a SkipStage / CompleteStage for
    the stage was already pushed.  Their in-flight completion may still win the race with CancelStage."""
    specs = spec_map(out)
    task_status = {}
    pushed_ct, decided = set(), set()
    last_reset = {}
    for row in out["audit"]:
        if row["seq"] >= cseq:
            break
        if row["kind"] == "task":
            k = task_of(out, row["ent"])
            task_status[k] = row["new"]
            if row["new"] == "NOT_STARTED":
                pushed_ct.discard(k)
        elif row["kind"] == "stage" and row["new"] == "NOT_STARTED":
            decided.discard(ref_of(out, row["ent"]))
        elif row["kind"] == "push":
            p = json.loads(row["extra"])
            ref = out["id_ref"].get(p.get("stage_id"))
            if row["new"] == "CompleteTask":
                pushed_ct.add((ref, out["task_ids"].get(p.get("task_id"), [None, None])[1]))
            elif row["new"] in ("SkipStage", "CompleteStage", "JumpToStage"):
                decided.add(ref)
    halted = set()

    def halting(ref, stt):
        # a FAILED_CONTINUE task of a stage with _blocking_failure fails the stage terminally
        return stt in HALT or (stt == "FAILED_CONTINUE" and specs.get(ref, {}).get("ctx", {}).get("_blocking_failure"))
    for (ref, t), stt in task_status.items():
        if halting(ref, stt):
            halted.add(ref)
    for row in out["audit"]:
        if row["seq"] >= cseq:
            break
        if row["kind"] == "push" and row["new"] == "CompleteTask":
            p = json.loads(row["extra"])
            if halting(out["id_ref"].get(p.get("stage_id")), p.get("status")):
                halted.add(out["id_ref"].get(p.get("stage_id")))
    decided |= halted          # a task already failed / stopped: the stage's failure is decided
    # ... and so is its parent's: a halted synthetic child fails (or stops) the stage it belongs to
    stage_status = {}
    for row in out["audit"]:
        if row["seq"] >= cseq:
            break
        if row["kind"] == "stage":
            stage_status[ref_of(out, row["ent"])] = row["new"]
    for ref in list(halted) + [r for r, x in stage_status.items() if x in ("TERMINAL", "STOPPED")]:
        par = specs.get(ref, {}).get("parent")
        if par:
            decided.add(par)
    for ref, sp in specs.items():
        n = len(sp.get("tasks", []))
        if n and all(task_status.get((ref, t), "NOT_STARTED") in COMPLETE or (ref, t) in pushed_ct for t in range(n)):
            decided.add(ref)
        if n == 0:
            decided.add(ref)
    return decided


# ---------------------------------------------------------------------------------------------- C01 (crash runs)
def in_flight_tasks(out) -> dict:
    """tasks whose RunTask delivery was cut by a crash: one re-execution is allowed for each cut"""
    slack = {}
    for a, r in zip(out["actions"], out["results"]):
        if a[0] == "X" and r.get("crashed") and r.get("polled") == "RunTask":
            pass
    # identify by ledger: an execution immediately followed by a crash in the same action
    lm = out["ledger_marks"]
    for ai, (a, r) in enumerate(zip(out["actions"], out["results"])):
        if a[0] == "X" and r.get("crashed"):
            lo = lm[ai - 1] if ai > 0 else 0
            for e in out["ledger"][lo:lm[ai]]:
                k = (e["ref"], e["task"])
                slack[k] = slack.get(k, 0) + 1
    return slack


def script_shifted(out) -> bool:
    """a crash cut a RunTask delivery after the task body ran and the task's scripted behaviour depends on how often
    it has been called (jump first, succeed later ...): the re-execution allowed by at-least-once delivery then
    legitimately produces a different result than the uninterrupted run, so the data seen downstream is not
    comparable with the baseline (a harness artefact of scripting tasks by call count, not an engine property)"""
    scripts = {(ref, t): steps for ref, sp in spec_map(out).items() for t, steps in enumerate(sp.get("tasks", []))}
    return any(len(set(scripts.get(k, []))) > 1 for k in in_flight_tasks(out))


def seen_ctx(out) -> dict:
    d = {}
    for e in out["ledger"]:
        d.setdefault((e["ref"], e["task"]), []).append({k: v for k, v in e["ctx"].items() if k.startswith("k")})
    return d


FAILING_STEPS = ("fail", "failc", "perm", "stop", "cancel", "jump", "susp")


def m_c01(out, base) -> list[Violation]:
    shifted = script_shifted(out)
    vs = [] if shifted else m_outcome(out, base, "crash+restart+recovery", exec_slack=in_flight_tasks(out))
    if shifted and out["quiescent"] and base["quiescent"] and base["final"]["wf"] == "SUCCEEDED" \
            and out["final"]["wf"] in ("TERMINAL", "CANCELED", "STOPPED") \
            and not any(str(step).split(":")[0] in FAILING_STEPS for sp in spec_map(out).values()
                        for steps in sp.get("tasks", []) for step in steps):
        # the call-count shift of a polling / retried task only moves FORWARD in its script (fewer polls, fewer transient
        # failures): with no step scripted to fail, stop, cancel, jump or suspend a failed workflow is not an artefact
        vs.append(Violation(
            what=f"workflow ends {out['final']['wf']} after crash+restart+recovery although no task is scripted to fail "
                 f"(the uninterrupted run ends SUCCEEDED)",
            signature=f"outcome:wf:SUCCEEDED->{out['final']['wf']}:crash+restart+recovery:no-failing-step",
            replay=_replay(out, {"baseline_final": final_statuses(base)})))
    if out["quiescent"] and base["quiescent"] and halt_free(base) and not shifted:
        sa, sb = seen_ctx(out), seen_ctx(base)
        for k, ctxs in sa.items():
            want = sb.get(k, [])
            for c in ctxs:
                if want and c not in want:
                    vs.append(Violation(
                        what=f"after crash+recovery task {k} ran with upstream data {c}; the uninterrupted run gives it {want[0]}",
                        signature="crash:upstream-data-lost", replay=_replay(out)))
                    break
    vs += [v for v in m_c05(out) if v.signature.startswith(("stuck", "running-leftover"))]
    return vs


# ---------------------------------------------------------------------------------------------- C16
def m_c16(out, base) -> list[Violation]:
    """whatever the delivery order, the crash point and the recovery sweeps, every execution of a task sees the same
    upstream data as in the in-order uninterrupted run (the ancestors' outputs merged at plan time)"""
    vs = []
    if script_shifted(out) or not (out["quiescent"] and base["quiescent"] and halt_free(base)):
        return vs
    sa, sb = seen_ctx(out), seen_ctx(base)
    for k, ctxs in sa.items():
        want = sb.get(k, [])
        for c in ctxs:
            if want and c not in want:
                vs.append(Violation(
                    what=f"task {k} ran with upstream data {c}; the in-order uninterrupted run gives it {want[0]} "
                         f"(case {out['case'].get('kind')}/{out['case'].get('what') or out['case'].get('policy') or out['case'].get('drain')})",
                    signature="upstream-data-differs", replay=_replay(out)))
                return vs
    return vs


# ---------------------------------------------------------------------------------------------- C11
def m_c11(out) -> list[Violation]:
    """at every durable commit: two stages sharing a mutex key are never RUNNING together; at most one stage of a
    deferred-choice group ever leaves NOT_STARTED for RUNNING"""
    vs = []
    specs = spec_map(out)
    st = {ref: "NOT_STARTED" for ref in specs}
    started = {}
    for row in out["audit"]:
        if row["kind"] != "stage":
            continue
        ref = ref_of(out, row["ent"])
        st[ref] = row["new"]
        sp = specs.get(ref, {})
        if row["new"] == "RUNNING" and sp.get("mutex") is not None:
            both = [r for r, x in st.items() if x == "RUNNING" and specs.get(r, {}).get("mutex") == sp["mutex"]]
            if len(both) > 1:
                vs.append(Violation(what=f"stages {sorted(both)} share mutex {sp['mutex']!r} and are RUNNING together",
                                    signature="mutex-two-running", replay=_replay(out)))
                break
        if row["old"] == "NOT_STARTED" and row["new"] == "RUNNING" and sp.get("choice") is not None:
            g = started.setdefault(sp["choice"], set())
            g.add(ref)
            if len(g) > 1:
                vs.append(Violation(what=f"stages {sorted(g)} of deferred-choice group {sp['choice']!r} both started",
                                    signature="choice-two-winners", replay=_replay(out)))
                break
    return vs


def m_c11_losers(out) -> list[Violation]:
    """at quiescence: once one stage of a deferred-choice group has started, every other stage of the group is CANCELED
    (the winner cancels its siblings itself - a loser whose own StartStage never comes must not be left NOT_STARTED)"""
    vs = []
    specs = spec_map(out)
    fs = final_statuses(out)
    groups = {}
    for ref, sp in specs.items():
        if sp.get("choice") is not None:
            groups.setdefault(sp["choice"], []).append(ref)
    started = set()
    for row in out["audit"]:
        if row["kind"] == "stage" and row["old"] == "NOT_STARTED" and row["new"] == "RUNNING":
            started.add(ref_of(out, row["ent"]))
    if any(a[0] in ("C", "X", "T") for a in out["actions"]):
        return vs
    for g, members in groups.items():
        won = [m for m in members if m in started]
        # judged once the winner itself has finished (the CancelStage messages it sent at its claim are long delivered); the
        # workflow need not be quiescent - a loser behind a suspended upstream keeps CompleteWorkflow polling
        if len(won) == 1 and (out["quiescent"] or fs.get(won[0]) in COMPLETE):
            for m in members:
                if m != won[0] and fs.get(m) != "CANCELED":
                    vs.append(Violation(what=f"deferred-choice group {g!r}: {won[0]} started but {m} ends {fs.get(m)}, not CANCELED",
                                        signature=f"choice-loser-not-canceled:{fs.get(m)}", replay=_replay(out)))
                    return vs
    return vs


# ---------------------------------------------------------------------------------------------- C18
def m_c18(out) -> list[Violation]:
    """one resume per signal: the suspending task is executed at most once plus once per signal sent (a signal
    never resumes twice); every persistent signal sent while suspensions remain is consumed (the stage does not
    stay SUSPENDED with an unconsumed persistent signal)"""
    vs = []
    sent = [a for a in out["actions"] if a[0] == "S"]
    if not sent:
        return vs
    idx = out["idx"]
    refs = {i: r for r, i in idx.items()}
    for stage_i in {a[1] for a in sent}:
        ref = refs[stage_i]
        nsig = sum(1 for a in sent if a[1] == stage_i)
        npers = sum(1 for a in sent if a[1] == stage_i and a[3])
        spec = [s for s in out["case"]["spec"]["stages"] if s["ref"] == ref][0]
        for t, steps in enumerate(spec.get("tasks", [])):
            nsusp = sum(1 for x in steps if x.startswith("susp"))
            if not nsusp:
                continue
            crashed_exec = sum(1 for (a, r) in zip(out["actions"], out["results"]) if a[0] == "X" and r.get("crashed") and r.get("polled") == "RunTask")
            execs = sum(1 for e in out["ledger"] if e["ref"] == ref and e["task"] == t)
            # every re-arm of the stage by a jump loop lets the task run once more, signal or not
            rearms = sum(1 for row in out["audit"] if row["kind"] == "stage" and row["new"] == "NOT_STARTED" and ref_of(out, row["ent"]) == ref)
            if execs > 1 + nsig + crashed_exec + rearms:
                vs.append(Violation(
                    what=f"the suspending task {(ref, t)} was executed {execs} times although only {nsig} signal(s) were sent: a signal resumed the stage more than once",
                    signature="signal-resumed-twice", replay=_replay(out)))
            if out["quiescent"]:
                fs = final_statuses(out)
                if fs[ref] == "SUSPENDED" and npers >= nsusp:
                    vs.append(Violation(
                        what=f"stage {ref} is still SUSPENDED after {npers} persistent signal(s) for {nsusp} suspension(s): a persistent signal was lost",
                        signature="persistent-signal-lost", replay=_replay(out)))
    return vs
