"""Builds and runs the OCaml oracle extracted from coq/model/Engine.v (ExtrOcamlBasic only)."""
from __future__ import annotations

import subprocess
from pathlib import Path

from harness import lib

ODIR = lib.BUILD / "ocaml"
BIN = ODIR / "oracle"

EXTRACT_V = """Require Import Stab.model.Engine Stab.model.EngineInv.
Require Extraction.
Require Import ExtrOcamlBasic.
Extraction Language OCaml.
Extraction "engine_core.ml" Engine.step_trace Engine.step Engine.init_state Engine.mk_task Engine.kv_set EngineInv.inv_clauses.
"""


def build(force: bool = False) -> str:
    """returns '' on success, error text otherwise"""
    ODIR.mkdir(parents=True, exist_ok=True)
    with lib._Lock(".ocaml.lock"):
        srcs = [lib.COQ / "model" / "Engine.vo", lib.COQ / "model" / "EngineInv.vo", lib.VERIF / "ocaml" / "oracle.ml"]
        if any(not p.exists() for p in srcs):
            return "missing " + ", ".join(str(p) for p in srcs if not p.exists())
        if not force and BIN.exists() and all(BIN.stat().st_mtime > p.stat().st_mtime for p in srcs):
            return ""
        (ODIR / "extract.v").write_text(EXTRACT_V)
        r = lib.sh(["timeout", "300", "coqc", "-Q", str(lib.COQ), "Stab", "extract.v"], cwd=ODIR, timeout=330)
        if r.returncode != 0:
            return "extraction failed: " + r.stdout[-1500:]
        (ODIR / "oracle.ml").write_text((lib.VERIF / "ocaml" / "oracle.ml").read_text())
        r = lib.sh("ocamlfind ocamlopt -O2 -w -a engine_core.mli engine_core.ml oracle.ml -o oracle 2>&1 || "
                   "ocamlfind ocamlopt -w -a engine_core.mli engine_core.ml oracle.ml -o oracle", cwd=ODIR, timeout=300)
        if r.returncode != 0 or not BIN.exists():
            return "ocaml build failed: " + r.stdout[-1500:]
        return ""


def run(text: str, timeout: int = 600) -> str:
    p = subprocess.run([str(BIN)], input=text, text=True, stdout=subprocess.PIPE, stderr=subprocess.STDOUT, timeout=timeout)
    if p.returncode != 0:
        raise RuntimeError("oracle failed: " + p.stdout[-800:])
    return p.stdout
