"""C03 — a stage never runs before its dependencies allow it: readiness evaluators characterised by iff-theorems
(any upstream list), the StartStage start guard proved over the engine model; the Readiness model is tied to
dag/readiness.py by an exhaustive differential, the engine model by the commit-level correspondence."""
import itertools

from harness import engine_corr, lib
from harness.lib import RunResult, Violation, cq_bool, cq_list, cq_opt

PID = "C03"
COQ_TARGETS = ["props/C03.vo"]
THEOREMS = []   # default: every Theorem of coq/props/C03.v
TRUSTED_BASE = ["SQLite: a write transaction is atomic and isolated; a crash before COMMIT leaves no trace; AUTOINCREMENT ids increase",
                "task behaviour is a function of (stage, task, n-th execution) (scripted oracle mirrored by a scripted Python Task)",
                "OCaml extraction of coq/model/Engine.v (ExtrOcamlBasic only) + hand-written I/O driver ocaml/oracle.ml"]
ASSUMPTIONS = ["one handler runs at a time (sequential engine model); races are the subject of C04/C07/C11/C18",
               "delayed messages are delivered only when no undelayed message is pending (wall-clock realism of the schedule generator)"]

PHASES = {"READY": "P_READY", "NOT_READY": "P_NOT_READY", "SKIP": "P_SKIP", "UNDEFINED": "P_UNDEFINED"}


def readiness_cases(ctx):
    lib.ensure_repo_on_path()
    from stabilize.dag.readiness import evaluate_readiness
    from stabilize.models.stage import JoinType, StageExecution
    from stabilize.models.status import ACTIVE_STATUSES, WorkflowStatus
    sts = list(WorkflowStatus)
    thorough = ctx.tier == "thorough"
    configs = [("AND", 0, False, None), ("MULTI_MERGE", 0, False, None),
               ("DISCRIMINATOR", 0, False, None), ("DISCRIMINATOR", 0, True, None)]
    for thr in range(0, 5):
        for fired in (False, True):
            configs.append(("N_OF_M", thr, fired, None))
    for act in (None, [], [0], [1], [2], [0, 1], [0, 2], [1, 2], [0, 1, 2]):
        configs.append(("OR", 0, False, act))
    ups_lists = [()]
    for n in (1, 2):
        ups_lists += list(itertools.product(range(len(sts)), repeat=n))
    tri = list(itertools.product(range(len(sts)), repeat=3))
    ups_lists += tri if thorough else ctx.rng.sample(tri, 260)
    for n in (4, 5, 6):
        ups_lists += [tuple(ctx.rng.randrange(len(sts)) for _ in range(n)) for _ in range(150 if thorough else 40)]
    cases, raw = [], []
    dist = {}
    for (join, thr, fired, act) in configs:
        for ups in ups_lists:
            for bypass, noise in ([(False, False), (True, False)] if len(ups) <= 1 else [(False, False), (False, True)]):
                stage = StageExecution(id="S", ref_id="s", join_type=JoinType[join], join_threshold=thr)
                if noise:
                    # bookkeeping the handlers keep in the join's context but the verdict must not depend on: the
                    # branch tracking is written in its own commit BEFORE the branch's completion is durable
                    stage.context["_completed_branches"] = [f"u{i}" for i in range(len(ups))]
                    stage.context["_jump_count"] = 1
                if fired:
                    stage.context["_join_fired"] = True
                if act is not None:
                    stage.context["_activated_branches"] = [f"u{i}" for i in act]
                upstream = [StageExecution(id=f"id{i}", ref_id=f"u{i}", status=sts[k]) for i, k in enumerate(ups)]
                r = evaluate_readiness(stage, upstream, jump_bypass=bypass)
                waits = bool(r.active_upstream_ids) and any(u.status in ACTIVE_STATUSES for u in upstream)
                failed = [int(x[2:]) for x in r.failed_upstream_ids]
                active = [int(x[2:]) for x in r.active_upstream_ids]
                cases.append("(%s, %d%%Z, %s, %s, %s, %s, (%s, %s, %s, %s))" % (
                    "J_" + join, thr, cq_bool(fired), cq_opt(act, lambda a: cq_list([f"{x}%nat" for x in a])),
                    cq_list([f"({i}%nat, {sts[k].name})" for i, k in enumerate(ups)]), cq_bool(bypass),
                    PHASES[r.phase.value], cq_list([f"{x}%nat" for x in failed]), cq_list([f"{x}%nat" for x in active]), cq_bool(waits)))
                raw.append({"join": join, "threshold": thr, "fired": fired, "activated": act, "bypass": bypass, "noise": noise,
                            "upstream": [sts[k].name for k in ups], "impl": {"phase": r.phase.value, "failed": failed, "active": active, "waits": waits}})
                dist[join] = dist.get(join, 0) + 1
    return cases, raw, dist


CHECK = ("fun c => match c with (j, thr, fired, act, ups, bypass, (ph, failed, active, waits)) => "
         "let st := {| r_join := j; r_threshold := thr; r_fired := fired; r_activated := act |} in "
         "let r := evaluate_readiness st ups bypass in "
         "phase_eqb (rr_phase r) ph && list_eqb Nat.eqb (rr_failed r) failed && list_eqb Nat.eqb (rr_active r) active "
         "&& Bool.eqb (start_stage_waits r ups) waits end")
TYPE = "join_type * Z * bool * option (list nat) * list (nat * status) * bool * (phase * list nat * list nat * bool)"


def run(ctx) -> RunResult:
    res = RunResult()
    cases, raw, dist = readiness_cases(ctx)
    fail, err = lib.coq_failing_indices("From Stab.model Require Import StatusM Readiness.", CHECK, TYPE, cases, "c03_ready", shard=600)
    if err:
        res.disagreements.append({"what": "Readiness model evaluation failed", "detail": err[:600]})
    for i in fail[:10]:
        res.disagreements.append({"what": "evaluate_readiness differs from coq/model/Readiness.v", "case": raw[i]})
        # a concrete failing input for the property: READY verdict although the join condition is false, or the converse
        if raw[i]["impl"]["phase"] == "READY" and not raw[i]["bypass"]:
            res.violations.append(Violation(
                what=f"evaluate_readiness says READY for a {raw[i]['join']} join with upstream statuses {raw[i]['upstream']} "
                     f"(threshold {raw[i]['threshold']}, fired {raw[i]['fired']}, activated {raw[i]['activated']}) — the model's join condition does not hold",
                signature=f"readiness:READY-early:{raw[i]['join']}", replay={"kind": "readiness", **raw[i]}))
    res.evaluations = len(cases)
    res.distinct_nontrivial = len({c for c in cases})
    res.traces_validated = len(cases)
    res.rule = ("readiness: every upstream status list of length <= 2 (and all / a sample of length 3, random 4..6) x 31 join "
                "configurations (AND, MULTI_MERGE, DISCRIMINATOR fired/not, N_OF_M thresholds 0..4 fired/not, OR with every "
                "activation subset), compared on (phase, failed ids, active ids, StartStage's wait decision); distinct = distinct case terms")
    res.samples = raw[100:103]
    res.distribution = {"readiness_by_join": dist}
    engine_corr.extend(ctx, res, PID)
    return res


def replay(obj) -> bool:
    r = obj["replay"]
    if r.get("kind") == "readiness":
        lib.ensure_repo_on_path()
        from stabilize.dag.readiness import evaluate_readiness
        from stabilize.models.stage import JoinType, StageExecution
        from stabilize.models.status import WorkflowStatus
        stage = StageExecution(id="S", ref_id="s", join_type=JoinType[r["join"]], join_threshold=r["threshold"])
        if r.get("noise"):
            stage.context["_completed_branches"] = [f"u{i}" for i in range(len(r["upstream"]))]
            stage.context["_jump_count"] = 1
        if r["fired"]:
            stage.context["_join_fired"] = True
        if r["activated"] is not None:
            stage.context["_activated_branches"] = [f"u{i}" for i in r["activated"]]
        ups = [StageExecution(id=f"id{i}", ref_id=f"u{i}", status=WorkflowStatus[k]) for i, k in enumerate(r["upstream"])]
        return evaluate_readiness(stage, ups, jump_bypass=r["bypass"]).phase.value != "READY"
    return engine_corr.replay(obj)
