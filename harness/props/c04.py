"""C04 — a stage starts exactly once even when workers race   (shared machinery with C11: harness/props/c11.py)

Proofs: coq/props/C04.v over coq/model/Conc.v (statement-level interleaving model of the StartStage / CompleteStage /
SignalStage handlers and the claims sweep) and coq/proofs/ConcP.v; the source facts the model depends on are regenerated
into coq/gen/Gen_Conc.v by harness/tr/conc.py.

Correspondence (this file): a statement-level scheduler for REAL threads.  `sqlite3.connect` is wrapped so that every
engine connection is a `Connection` subclass; a thread blocks until the controller grants its next step
    R  a store read the handler's decisions depend on (retrieve_stage / get_upstream_stages / retrieve /
       get_downstream_stages, top-level calls; everything the call SELECTs is one snapshot)
    U  the first DML of a write transaction (the thread then runs to its COMMIT / ROLLBACK: a write transaction is atomic;
       a reader between another writer's DML and COMMIT sees the pre-state, which is the same as reading before the DML)
    E  _handle_message's post-handler processed mark (touches nothing else: it commutes with every other step and is
       never a branching point)
and a thread whose next step is DML while another thread's write transaction is open (a failed plain store_stage leaves its
implicit transaction open) is not enabled.  Two or three real threads each run the real QueueProcessor._handle_message
on a real message of a real workflow (driver.Env drives the engine to the point where the messages are pending), or the
real store.cleanup_completed_stage_claims(); all interleavings under a preemption bound are enumerated (stateless DFS),
plus random priority schedules.  The schedule actually executed, the kind of every step and what was committed (stage
status / version / engine flags, claims, pushed messages, processed marks, NOT_STARTED->RUNNING commits) are printed as a
Coq term and recomputed with Conc.run_conc inside Coq.  Monitors evaluate the property directly on the real run, then on
the FIFO drain that follows it.
"""
from __future__ import annotations

import json
import os
import random
import shutil
import sqlite3
import threading
import time
from concurrent.futures import ProcessPoolExecutor
from pathlib import Path

from harness import lib
from harness.lib import RunResult, Violation, cq_Z, cq_bool, cq_list, cq_nat, cq_opt

PID = "C04"
COQ_TARGETS = ["props/C04.vo"]
THEOREMS = [
    "Stab.props.C04.C04_source_shape",
    "Stab.props.C04.C04_snapshots_fresh",
    "Stab.props.C04.C04_one_claim",
    "Stab.props.C04.C04_claim_cas_exclusive",
    "Stab.props.C04.C04_loser_writes_nothing",
    "Stab.props.C04.C04_loser_only_requeues_or_cancels",
    "Stab.props.C04.C04_one_start_task",
    "Stab.props.C04.C04_join_bump_claim_lost",
    "Stab.props.C04.C04_join_bump_then_push",
    "Stab.props.C04.C04_join_bump_safe",
    "Stab.props.C04.C04_structural_reachable",
    "Stab.props.C04.C04_nonclaimant_bump_refuted",
    "Stab.props.C04.C04_plan_lost_to_bump_refuted",
]
TRUSTED_BASE = [
    "SQLite: a write transaction (first DML .. COMMIT) is atomic and excludes other writers; readers see only committed rows; "
    "PRIMARY KEY (execution_id, claim_key) on stage_claims; INSERT OR IGNORE inserts iff the key is absent; AUTOINCREMENT ids "
    "increase in commit order (exercised by the statement scheduler on real threads)",
    "Python sqlite3 (legacy isolation_level ''): implicit BEGIN before DML, none before SELECT; thread-local connections",
    "harness/tr/conc.py: reads the shape of the claim protocol (handler.py, conditions.py, orchestration.py, transaction.py "
    "acquire_claim, operations.py sweep, migrations.py key, complete_stage order, signal_stage buffer) into coq/gen/Gen_Conc.v",
    "coq/model/Conc.v carries its own copy of the record types and of acquire_claim / mutex_blocked / choice_claimed of "
    "coq/model/Engine.v (restricted to the fields the programs touch), validated here against the real threads",
]
ASSUMPTIONS = [
    "every SELECT issued by one store API call is one snapshot (the handler's decisions use one SELECT of each call); thread "
    "scheduling below one SQL statement is not modelled",
    "the model has no write lock: it admits a superset of the schedules SQLite admits (sound for the safety theorems)",
    "synthetic stages, milestone / start-time expiry, the data merged by _plan_stage (C16), task-row versions (C07) and the "
    "poll / ack of the queue (C08) are outside Conc; CancelStage / StartTask handling after the race is checked by the monitors "
    "on the real engine (FIFO drain), not by Conc",
    "C04_join_bump_safe: no SignalStage worker and at most one CompleteStage worker per stage in the run (a persistent "
    "SignalStage breaks it: C04_nonclaimant_bump_refuted, design finding F8, listed in known_findings.d/C04.json)",
]

F8_SIG = "claim-lost-to-nonclaimant-writer"
F8P_SIG = "plan-lost-to-nonclaimant-writer"

# ---------------------------------------------------------------------------------------------------------
# statement scheduler
# ---------------------------------------------------------------------------------------------------------
_tl = threading.local()
_SCHED = None
READ_APIS = ("retrieve_stage", "get_upstream_stages", "retrieve", "get_downstream_stages")


class Abort(BaseException):
    pass


class Skip(BaseException):
    """a late worker whose message never appeared: the thread ends without having handled anything"""


def _conn_class():
    from harness import driver

    class SchedConn(driver.ObservedConnection):
        def execute(self, sql, *a):
            s, idx = _SCHED, getattr(_tl, "idx", None)
            if s is not None and idx is not None and getattr(_tl, "armed", False):
                head = sql.lstrip()[:6].upper()
                if head in ("INSERT", "UPDATE", "DELETE"):
                    if not self.in_transaction:
                        s.point(idx, "E" if getattr(_tl, "epilogue", False) else "U")
                    elif getattr(_tl, "dangling", False):
                        # a failed plain store_stage left its implicit transaction open (no rollback): the next write of this
                        # thread is a new step although no BEGIN is issued; the thread still holds SQLite's write lock
                        _tl.dangling = False
                        s.point(idx, "U")
            return super().execute(sql, *a)
    return SchedConn


_CONN_CLASS = None


def _patched_connect(*a, **kw):
    global _CONN_CLASS
    from harness import driver
    if _CONN_CLASS is None:
        _CONN_CLASS = _conn_class()
    kw["factory"] = _CONN_CLASS
    return driver._real_connect(*a, **kw)


def _wrap_reads(store):
    for name in READ_APIS:
        orig = getattr(store, name)

        def w(*a, _orig=orig, **kw):
            depth = getattr(_tl, "depth", 0)
            s, idx = _SCHED, getattr(_tl, "idx", None)
            if depth == 0 and s is not None and idx is not None and getattr(_tl, "armed", False):
                c = s.conns.get(idx)
                if c is not None and c.in_transaction:
                    _tl.dangling = True
                s.point(idx, "R")
            _tl.depth = depth + 1
            try:
                return _orig(*a, **kw)
            finally:
                _tl.depth = depth
        setattr(store, name, w)


class Scheduler:
    """Controller side: grant one step at a time; worker side: point()."""

    def __init__(self, n: int, chooser):
        self.n = n
        self.cv = threading.Condition()
        self.waiting: dict[int, str] = {}
        self.granted = None
        self.running = None
        self.finished: set[int] = set()
        self.conns: dict[int, sqlite3.Connection] = {}
        self.abort = False
        self.trace: list[tuple[int, str]] = []
        self.cands: list[list[int]] = []
        self.chooser = chooser
        self.error = None
        self.late_ready = None      # callable(idx) -> row id or None: is the late worker's message in the queue?
        self.on_grant_late = None   # callable(idx, row id): make that row the only deliverable one
        self.skipped: set[int] = set()

    def point(self, idx: int, kind: str) -> None:
        with self.cv:
            self.waiting[idx] = kind
            if self.running == idx:
                self.running = None
            self.cv.notify_all()
            while self.granted != idx:
                if self.abort:
                    raise Abort()
                if idx in self.skipped:
                    self.waiting.pop(idx, None)
                    raise Skip()
                self.cv.wait(0.5)
            self.granted = None
            self.waiting.pop(idx, None)
            self.running = idx

    def done(self, idx: int) -> None:
        with self.cv:
            self.finished.add(idx)
            if self.running == idx:
                self.running = None
            self.cv.notify_all()

    def _quiescent(self) -> bool:
        return self.running is None and self.granted is None and len(self.waiting) + len(self.finished) == self.n

    def drive(self, observe=None) -> None:
        while True:
            with self.cv:
                t0 = time.time()
                while not self._quiescent():
                    self.cv.wait(0.5)
                    if time.time() - t0 > 40:
                        self.error = "scheduler timeout: a thread neither reached a scheduling point nor finished"
                        self.abort = True
                        self.cv.notify_all()
                        return
                if observe is not None and self.trace:
                    observe(self.trace[-1])
                if len(self.finished) == self.n:
                    return
                enabled = []
                late_rows = {}
                for i, k in sorted(self.waiting.items()):
                    if k in ("U", "E", "P") and any(j != i and c.in_transaction for j, c in self.conns.items()):
                        continue
                    if k == "P":
                        late_rows[i] = self.late_ready(i) if self.late_ready else None
                        if late_rows[i] is None:
                            continue
                    enabled.append(i)
                if not enabled:
                    if self.waiting and all(k == "P" for k in self.waiting.values()):
                        # the messages the late workers wait for were never pushed: they end without handling anything
                        self.skipped |= set(self.waiting)
                        self.cv.notify_all()
                        continue
                    self.error = "deadlock: every waiting thread needs the write lock held by another thread: %r" % (self.waiting,)
                    self.abort = True
                    self.cv.notify_all()
                    return
                branching = [i for i in enabled if self.waiting[i] != "E"]
                cand = branching or enabled[:1]
                last = self.trace[-1][0] if self.trace else None
                c = self.chooser(cand, len(self.trace), last) if len(cand) > 1 else cand[0]
                self.cands.append(list(cand))
                self.trace.append((c, self.waiting[c]))
                if self.waiting[c] == "P":
                    self.on_grant_late(c, late_rows[c])
                self.granted = c
                self.cv.notify_all()


# ---------------------------------------------------------------------------------------------------------
# families: workflow + which messages race
# ---------------------------------------------------------------------------------------------------------
# A family = spec (driver.Env JSON) + `hold`: predicate on queue rows that are NOT delivered while the engine is driven (FIFO) to
# the racing point + `workers`: the racers, each ("msg", row selector) | ("sweep",) | ("signal", ref)

def _st(ref, reqs=(), **kw):
    d = {"ref": ref, "reqs": list(reqs), "tasks": [["ok"]]}
    d.update(kw)
    return d


def families() -> dict:
    F = {}
    F["diamond2"] = {"spec": {"stages": [_st("A"), _st("B", ["A"]), _st("C", ["A"]), _st("D", ["B", "C"])]},
                     "hold": [("StartStage", "D")], "race": [("StartStage", "D", 0), ("StartStage", "D", 1)], "prop": "C04"}
    F["diamond3"] = {"spec": {"stages": [_st("A"), _st("B", ["A"]), _st("C", ["A"]), _st("E", ["A"]), _st("D", ["B", "C", "E"])]},
                     "hold": [("StartStage", "D")],
                     "race": [("StartStage", "D", 0), ("StartStage", "D", 1), ("StartStage", "D", 2)], "prop": "C04"}
    for nm, join, thr in (("first_of", "DISCRIMINATOR", 0), ("quorum", "N_OF_M", 2)):
        sp = {"stages": [_st("A"), _st("B", ["A"]), _st("C", ["A"]), _st("E", ["A"]),
                         _st("J", ["B", "C", "E"], join=join, threshold=thr), _st("K", ["J"])]}
        # B (and C for the quorum) complete: their StartStage(J) pending; the remaining branches' CompleteStage pending
        if join == "DISCRIMINATOR":
            F[nm + "_sc"] = {"spec": sp, "hold": [("StartStage", "J"), ("CompleteStage", "C"), ("CompleteStage", "E")],
                             "race": [("StartStage", "J", 0), ("CompleteStage", "C", 0)], "prop": "C04"}
            F[nm + "_scc"] = {"spec": sp, "hold": [("StartStage", "J"), ("CompleteStage", "C"), ("CompleteStage", "E")],
                              "race": [("StartStage", "J", 0), ("CompleteStage", "C", 0), ("CompleteStage", "E", 0)], "prop": "C04"}
        else:
            F[nm + "_ssc"] = {"spec": sp, "hold": [("StartStage", "J"), ("CompleteStage", "E")],
                              "race": [("StartStage", "J", 0), ("StartStage", "J", 1), ("CompleteStage", "E", 0)], "prop": "C04"}
            F[nm + "_sc"] = {"spec": sp, "hold": [("StartStage", "J"), ("CompleteStage", "C"), ("CompleteStage", "E")],
                             "race": [("StartStage", "J", 0), ("CompleteStage", "C", 0)], "prop": "C04"}
    # a join that is already RUNNING (claimed, plan commit still to come is not reachable sequentially) and late branches
    F["first_of_late"] = {"spec": {"stages": [_st("A"), _st("B", ["A"]), _st("C", ["A"]), _st("E", ["A"]),
                                              _st("J", ["B", "C", "E"], join="DISCRIMINATOR"), _st("K", ["J"])]},
                          "hold": [("CompleteStage", "C"), ("CompleteStage", "E"), ("StartTask", "J")],
                          "race": [("CompleteStage", "C", 0), ("CompleteStage", "E", 0)], "prop": "C04"}
    # the StartStage pushed BY the racing CompleteStage is picked up by a worker that joins late (as soon as the row exists): the
    # only upstream of the first-of join is C, so nothing else can rescue a lost start
    F["first_of_single"] = {"spec": {"stages": [_st("A"), _st("C", ["A"]), _st("J", ["C"], join="DISCRIMINATOR"), _st("K", ["J"])]},
                            "hold": [("CompleteStage", "C")],
                            "race": [("CompleteStage", "C", 0), ("late", "StartStage", "J")], "prop": "C04"}
    F["quorum_late"] = {"spec": {"stages": [_st("A"), _st("B", ["A"]), _st("C", ["A"]), _st("J", ["B", "C"], join="N_OF_M", threshold=2),
                                            _st("K", ["J"])]},
                        "hold": [("CompleteStage", "C"), ("StartStage", "J")],
                        "race": [("CompleteStage", "C", 0), ("StartStage", "J", 0), ("late", "StartStage", "J")], "prop": "C04"}
    # the join's task is built by its StageDefinitionBuilder at start time (like the built-in wait stage): a second plan of the
    # stage shows as a second task row and a second StartTask.  Not in Conc.v's vocabulary: implementation-side monitors only.
    F["diamond2_built"] = {"spec": {"stages": [_st("A"), _st("B", ["A"]), _st("C", ["A"]), _st("D", ["B", "C"], built=True), _st("Z", ["D"])]},
                           "hold": [("StartStage", "D")], "race": [("StartStage", "D", 0), ("StartStage", "D", 1)], "prop": "C04",
                           "monitor_only": True}
    F["first_of_built"] = {"spec": {"stages": [_st("A"), _st("B", ["A"]), _st("C", ["A"]),
                                               _st("J", ["B", "C"], join="DISCRIMINATOR", built=True), _st("K", ["J"])]},
                           "hold": [("StartStage", "J")], "race": [("StartStage", "J", 0), ("StartStage", "J", 1)], "prop": "C04",
                           "monitor_only": True}
    # a stage without tasks: no task-row CAS behind the stage CAS
    F["diamond2_notasks"] = {"spec": {"stages": [_st("A"), _st("B", ["A"]), _st("C", ["A"]), _st("D", ["B", "C"], tasks=[]), _st("Z", ["D"])]},
                             "hold": [("StartStage", "D")], "race": [("StartStage", "D", 0), ("StartStage", "D", 1)], "prop": "C04"}
    F["signal_f8"] = {"spec": {"stages": [_st("A"), _st("B", ["A"])]},
                      "hold": [("StartStage", "B"), ("SignalStage", "B")], "signal": "B",
                      "race": [("StartStage", "B", 0), ("SignalStage", "B", 0)], "prop": "C04", "expect_known": True}
    F["mutex_pair"] = {"spec": {"stages": [_st("R"), _st("A", ["R"], mutex="m"), _st("B", ["R"], mutex="m")]},
                       "hold": [("StartStage", "A"), ("StartStage", "B")],
                       "race": [("StartStage", "A", 0), ("StartStage", "B", 0)], "prop": "C11"}
    F["mutex_pair_sweep"] = {"spec": F["mutex_pair"]["spec"], "hold": F["mutex_pair"]["hold"],
                             "race": [("StartStage", "A", 0), ("StartStage", "B", 0), ("sweep",)], "prop": "C11"}
    F["mutex_triple"] = {"spec": {"stages": [_st("R"), _st("A", ["R"], mutex="m"), _st("B", ["R"], mutex="m"), _st("C", ["R"], mutex="m")]},
                         "hold": [("StartStage", "A"), ("StartStage", "B"), ("StartStage", "C")],
                         "race": [("StartStage", "A", 0), ("StartStage", "B", 0), ("StartStage", "C", 0)], "prop": "C11"}
    # the previous holder is complete: both successors try to steal the claim
    F["mutex_steal"] = {"spec": {"stages": [_st("R", mutex="m"), _st("A", ["R"], mutex="m"), _st("B", ["R"], mutex="m")]},
                        "hold": [("StartStage", "A"), ("StartStage", "B")],
                        "race": [("StartStage", "A", 0), ("StartStage", "B", 0)], "prop": "C11"}
    F["mutex_dup"] = {"spec": {"stages": [_st("P"), _st("Q"), _st("A", ["P", "Q"], mutex="m"), _st("B", ["P"], mutex="m")]},
                      "hold": [("StartStage", "A"), ("StartStage", "B")],
                      "race": [("StartStage", "A", 0), ("StartStage", "A", 1), ("StartStage", "B", 0)], "prop": "C11"}
    F["choice2_sweep"] = {"spec": {"stages": [_st("R"), _st("A", ["R"], choice="g"), _st("B", ["R"], choice="g")]},
                          "hold": [("StartStage", "A"), ("StartStage", "B")],
                          "race": [("StartStage", "A", 0), ("StartStage", "B", 0), ("sweep",)], "prop": "C11"}
    F["choice3"] = {"spec": {"stages": [_st("R"), _st("A", ["R"], choice="g"), _st("B", ["R"], choice="g"), _st("C", ["R"], choice="g"),
                                        _st("Z", ["A", "B", "C"], join="DISCRIMINATOR")]},
                    "hold": [("StartStage", "A"), ("StartStage", "B"), ("StartStage", "C")],
                    "race": [("StartStage", "A", 0), ("StartStage", "B", 0), ("StartStage", "C", 0)], "prop": "C11"}
    F["mutex_choice"] = {"spec": {"stages": [_st("R"), _st("A", ["R"], mutex="m", choice="g"), _st("B", ["R"], mutex="m", choice="g"),
                                             _st("C", ["R"], mutex="m")]},
                         "hold": [("StartStage", "A"), ("StartStage", "B"), ("StartStage", "C")],
                         "race": [("StartStage", "A", 0), ("StartStage", "B", 0), ("StartStage", "C", 0)], "prop": "C11"}
    return F


QUICK = {"C04": ["diamond2", "diamond2_built", "first_of_built", "diamond2_notasks", "diamond3", "first_of_single", "quorum_late", "first_of_sc", "first_of_scc", "quorum_ssc", "quorum_sc", "first_of_late", "signal_f8"],
         "C11": ["mutex_pair", "mutex_pair_sweep", "mutex_triple", "mutex_steal", "mutex_dup", "choice2_sweep", "choice3", "mutex_choice"]}

# ---------------------------------------------------------------------------------------------------------
# preparing a family: drive the real engine to the racing point, poll the racers' messages, snapshot the file
# ---------------------------------------------------------------------------------------------------------


class Prepared:
    pass


def _held(env, row, hold) -> bool:
    ref = env.id_ref.get(row["payload"].get("stage_id", ""))
    return any(row["type"] == t and ref == r for t, r in hold)


def prepare(name: str, fam: dict, tag: str = "c04") -> Prepared:
    from harness import driver
    os.environ["STABILIZE_SQLITE_BUSY_TIMEOUT_MS"] = "1500"
    env = driver.Env(fam["spec"], tag=tag)
    p = Prepared()
    p.name, p.fam, p.env = name, fam, env
    env.submit()
    steps = 0
    while True:
        rows = [r for r in env.rows() if not _held(env, r, fam["hold"])]
        if not rows or steps > 400:
            break
        env.deliver(rows[0]["id"])
        steps += 1
        if fam.get("signal") and not getattr(p, "signalled", False):
            # push the persistent signal as soon as the target's StartStage is pending
            if any(r["type"] == "StartStage" and env.id_ref.get(r["payload"].get("stage_id")) == fam["signal"] for r in env.rows()):
                env.signal(fam["signal"], "go", persistent=True)
                p.signalled = True
    # a second, COMPLETED execution with a claim of its own: what the sweep may delete
    env.hconn.execute("INSERT INTO pipeline_executions (id, type, application, name, status, context, start_time, end_time, trigger, origin) "
                      "SELECT 'done-exec', type, application, name, 'SUCCEEDED', context, start_time, start_time, trigger, origin "
                      "FROM pipeline_executions WHERE id = ?", (env.wf_id,))
    env.hconn.execute("INSERT INTO stage_claims (execution_id, claim_key, stage_id) VALUES ('done-exec', 'mutex:m', 'zz')")
    # poll the racers' messages (real poll_one: lock + attempts + 1), in race order
    rows = env.rows()
    p.workers = []
    for w in fam["race"]:
        if w[0] == "sweep":
            p.workers.append({"kind": "sweep"})
            continue
        if w[0] == "late":
            p.workers.append({"kind": w[1], "ref": w[2], "late": True, "row": None, "msg": None, "retry": 0})
            continue
        typ, ref, k = w
        cands = [r for r in rows if r["type"] == typ and env.id_ref.get(r["payload"].get("stage_id")) == ref]
        if len(cands) <= k:
            raise RuntimeError(f"family {name}: no pending {typ}({ref}) #{k}; queue = {[(r['id'], r['type']) for r in rows]}")
        r = cands[k]
        env._make_visible(r["id"], False)
        msg = env.queue.poll_one()
        assert msg is not None and int(msg.message_id) == r["id"], (name, r, msg)
        p.workers.append({"kind": typ, "ref": ref, "row": r["id"], "msg": msg, "retry": r["payload"].get("retry_count", 0) or 0})
    far = "2999-01-01T00:00:00+00:00"
    env.hconn.execute("UPDATE queue_messages SET locked_until = ?", (far,))
    p.refs = [s["ref"] for s in fam["spec"]["stages"]]
    p.idx = {r: i for i, r in enumerate(p.refs)}
    p.alpha0 = snapshot_alpha(p)
    p.processed0 = set(env.processed_ids())
    p.audit0 = env.audit_max()
    env.hconn.close()
    env._reset_globals()
    p.snap = env.db + ".snap"
    shutil.copyfile(env.db, p.snap)
    env._open(first=False)
    return p


def snapshot_alpha(p: Prepared) -> dict:
    env = p.env
    a = env.alpha()
    seq = env.hconn.execute("SELECT seq FROM sqlite_sequence WHERE name = 'queue_messages'").fetchone()
    a["next"] = (seq[0] if seq else 0) + 1
    a["all_claims"] = [(r[0], r[1], r[2]) for r in env.hconn.execute(
        "SELECT execution_id, claim_key, stage_id FROM stage_claims ORDER BY execution_id, claim_key")]
    return a


def restore(p: Prepared) -> None:
    env = p.env
    try:
        env.hconn.close()
    except Exception:
        pass
    env._reset_globals()
    for ext in ("-journal", "-wal", "-shm"):
        try:
            os.unlink(env.db + ext)
        except FileNotFoundError:
            pass
    shutil.copyfile(p.snap, env.db)
    env.ledger.clear()
    env.exec_count.clear()
    env.handled.clear()
    env._open(first=False)


# ---------------------------------------------------------------------------------------------------------
# one real run under a schedule
# ---------------------------------------------------------------------------------------------------------

def real_run(p: Prepared, chooser, drain: bool = True) -> dict:
    """Run the racers of the prepared family as real threads under the scheduler, then (drain) ack / FIFO-drain the rest."""
    global _SCHED
    from harness import driver
    env = p.env
    restore(p)
    n = len(p.workers)
    out: dict = {"outcome": [None] * n, "crash": [None] * n}
    sqlite3.connect = _patched_connect
    try:
        _wrap_reads(env.store)
        for h in env.processor._handlers.values():
            orig = h.handle

            def wrapped(message, _orig=orig):
                try:
                    return _orig(message)
                finally:
                    _tl.epilogue = True
            h.handle = wrapped
        sched = Scheduler(n, chooser)
        ready = threading.Barrier(n + 1)

        def worker(i: int, w: dict):
            _tl.idx, _tl.armed, _tl.epilogue, _tl.depth, _tl.dangling = i, False, False, 0, False
            try:
                sched.conns[i] = env.store._get_connection()      # open + PRAGMAs before scheduling starts
                ready.wait()
                _tl.armed = True
                try:
                    if w["kind"] == "sweep":
                        out["outcome"][i] = ("swept", env.store.cleanup_completed_stage_claims())
                    elif w.get("late"):
                        sched.point(i, "P")          # enabled once a new message of that type for that stage is in the queue
                        _tl.armed = False
                        msg = env.queue.poll_one()   # the real poll (lock + attempts + 1): not a step of the model
                        _tl.armed = True
                        out["late"][i] = (int(msg.message_id), msg)
                        env.processor._handle_message(msg)
                        out["outcome"][i] = ("done",)
                    else:
                        env.processor._handle_message(w["msg"])
                        out["outcome"][i] = ("done",)
                except Skip:
                    out["outcome"][i] = ("skipped",)
                except Abort:
                    raise
                except Exception as e:  # what process_and_ack does: the message is rescheduled
                    out["outcome"][i] = ("raised", type(e).__name__)
            except Abort:
                out["crash"][i] = "aborted"
            except BaseException as e:  # noqa
                out["crash"][i] = "worker crashed: " + repr(e)[:300]
            finally:
                _tl.armed = False
                sched.done(i)

        out["late"] = {}

        def late_ready(i):
            w = p.workers[i]
            for r in env.hconn.execute("SELECT id, message_type, payload FROM queue_messages WHERE id >= ? ORDER BY id", (p.alpha0["next"],)):
                if r["message_type"] == w["kind"] and env.id_ref.get(json.loads(r["payload"]).get("stage_id")) == w["ref"] \
                        and r["id"] not in [v[0] for v in out["late"].values()]:
                    return r["id"]
            return None

        def on_grant_late(i, rid):
            from datetime import UTC, datetime, timedelta
            near = (datetime.now(UTC) - timedelta(minutes=1)).isoformat()
            far = (datetime.now(UTC) + timedelta(hours=1)).isoformat()
            env.hconn.execute("UPDATE queue_messages SET deliver_at = ? WHERE id != ?", (far, rid))
            env.hconn.execute("UPDATE queue_messages SET deliver_at = ?, locked_until = NULL WHERE id = ?", (near, rid))

        sched.late_ready, sched.on_grant_late = late_ready, on_grant_late
        _SCHED = sched
        threads = [threading.Thread(target=worker, args=(i, w), daemon=True) for i, w in enumerate(p.workers)]
        for t in threads:
            t.start()
        ready.wait()
        running_log = []     # after every step: per mutex key the RUNNING stages (durable state)

        def observe(ev):
            running_log.append(_running_by_key(p))

        sched.drive(observe)
        for t in threads:
            t.join(5)
        out["trace"] = [[i, k] for i, k in sched.trace]
        out["cands"] = sched.cands
        out["error"] = sched.error
        out["open_txn_left"] = [i for i, c in sched.conns.items() if c.in_transaction]
        for c in sched.conns.values():
            try:
                c.rollback()
                c.close()
            except Exception:
                pass
        out["running_log"] = running_log
        out["alpha"] = snapshot_alpha(p)
        out["audit"] = env.audit(p.audit0)
        out["processed_new"] = sorted(int(x) for x in set(env.processed_ids()) - p.processed0 if str(x).isdigit())
    finally:
        _SCHED = None
        sqlite3.connect = driver._connect
    if drain and not out["error"] and not any(out["crash"]):
        out["drain"] = drain_after(p, out)
    return out


def _running_by_key(p: Prepared) -> dict:
    env = p.env
    res: dict = {}
    for r in env.hconn.execute("SELECT id, status FROM stage_executions WHERE execution_id = ?", (env.wf_id,)):
        ref = env.id_ref.get(r["id"])
        key = next((s.get("mutex") for s in p.fam["spec"]["stages"] if s["ref"] == ref), None)
        if key and r["status"] == "RUNNING":
            res.setdefault(key, []).append(ref)
    return res


def drain_after(p: Prepared, out: dict) -> dict:
    """ack the racers' messages (or leave them when the handler raised), then deliver everything FIFO until the queue is empty"""
    from harness import driver
    env = p.env
    for i, w in enumerate(p.workers):
        if w["kind"] == "sweep":
            continue
        if out["outcome"][i] and out["outcome"][i][0] == "done":
            env.queue.ack(out["late"][i][1] if w.get("late") else w["msg"])
    env.hconn.execute("UPDATE queue_messages SET locked_until = NULL")
    steps = 0
    max_running: dict = {}
    stuck = False
    while steps < 300:
        rows = env.rows()
        if not rows:
            break
        # a mutex loser re-queues itself for as long as the holder runs: deliver other messages first
        fresh = [r for r in rows if not (r["payload"].get("retry_count") or 0) > 0]
        waiting = [r for r in rows if r["type"] == "StartStage" and (r["payload"].get("retry_count") or 0) > 0]
        pick = (fresh or waiting or rows)[0]
        env.deliver(pick["id"], reset_attempts=True)
        for k, v in _running_by_key(p).items():
            if len(v) > len(max_running.get(k, [])):
                max_running[k] = v
        steps += 1
    else:
        stuck = True
    a = env.alpha()
    return {"steps": steps, "stuck": stuck, "wf": a["wf"], "stages": {s["ref"]: s["status"] for s in a["stages"]},
            "queue": [(q["type"], q["stage"]) for q in a["queue"]], "max_running": max_running,
            "ledger": [(e["ref"], e["task"]) for e in env.ledger], "audit": env.audit(p.audit0),
            "pending_flags": {s["ref"]: s["plan_pending"] for s in a["stages"]}}


# ---------------------------------------------------------------------------------------------------------
# Coq terms
# ---------------------------------------------------------------------------------------------------------
STATUS_NAMES = ["NOT_STARTED", "RUNNING", "PAUSED", "SUSPENDED", "SUCCEEDED", "FAILED_CONTINUE", "TERMINAL", "CANCELED", "REDIRECT",
                "STOPPED", "SKIPPED", "BUFFERED"]
MSG_CODE = {"StartWorkflow": 0, "CompleteWorkflow": 1, "CancelWorkflow": 2, "StartStage": 3, "CompleteStage": 4, "SkipStage": 5,
            "CancelStage": 6, "StartTask": 7, "RunTask": 8, "CompleteTask": 9, "JumpToStage": 10, "SignalStage": 11}


def _keys(p: Prepared) -> tuple[dict, dict]:
    mk, ck = {}, {}
    for s in p.fam["spec"]["stages"]:
        if s.get("mutex") is not None:
            mk.setdefault(s["mutex"], len(mk))
        if s.get("choice") is not None:
            ck.setdefault(s["choice"], len(ck))
    return mk, ck


def _cq_stage(p: Prepared, spec_st: dict, a: dict) -> str:
    mk, ck = _keys(p)
    reqs = cq_list(cq_nat(p.idx[r]) for r in sorted(spec_st.get("reqs", []), key=lambda r: p.idx[r]))
    return "(mk_stage %s J_%s %s %s %s %s %s %s %s %s %s %s %s)" % (
        reqs, spec_st.get("join", "AND"), cq_Z(spec_st.get("threshold", 0)),
        cq_opt(mk.get(spec_st.get("mutex")), cq_nat), cq_opt(ck.get(spec_st.get("choice")), cq_nat),
        a["status"], cq_bool(a["started"]), cq_Z(a["version"]), cq_bool(a["fired"]),
        cq_list(cq_nat(p.idx[b]) for b in a["completed_branches"]), cq_list(cq_nat(0) for _ in range(a["buffered"])),
        cq_bool(a["plan_pending"]), cq_list(t[0] for t in a["tasks"]))


def _cq_msg(p: Prepared, q: dict) -> str:
    t, st = q["type"], q.get("stage")
    i = cq_nat(p.idx[st]) if st in p.idx else cq_nat(0)
    if t == "StartStage":
        return f"(MStartStage {i} {cq_Z(q.get('retry_count') or 0)})"
    if t == "CompleteWorkflow":
        return f"(MCompleteWorkflow {cq_Z(q.get('retry_count') or 0)})"
    if t in ("CompleteStage", "SkipStage", "CancelStage"):
        return f"(M{t} {i})"
    if t == "StartTask":
        return f"(MStartTask {i} {cq_nat(q.get('task') or 0)})"
    if t == "SignalStage":
        return f"(MSignalStage {i} {cq_nat(0)} {cq_bool(bool(q.get('persistent')))})"
    return f"(MOther {cq_nat(MSG_CODE[t])} {i} {cq_nat(q.get('task') or 0)})"


def _claims_of(p: Prepared, alpha: dict) -> list[tuple[bool, int, int]]:
    mk, ck = _keys(p)
    out = []
    for ex, key, sid in alpha["all_claims"]:
        if ex != p.env.wf_id:
            continue
        kind, _, name = key.partition(":")
        ref = p.env.id_ref.get(sid)
        out.append((kind == "mutex", (mk if kind == "mutex" else ck)[name], p.idx[ref]))
    return sorted(out)


def _cq_claim(c) -> str:
    return f"({cq_bool(c[0])}, {cq_nat(c[1])}, {cq_nat(c[2])})"


def _cq_sview(p: Prepared, a: dict) -> str:
    return "(%s, %s, %s, %s, %s, %s)" % (a["status"], cq_Z(a["version"]), cq_bool(a["plan_pending"]), cq_bool(a["fired"]),
                                         cq_list(cq_nat(p.idx[b]) for b in a["completed_branches"]), cq_nat(a["buffered"]))


def _cq_qview(p: Prepared, q: dict) -> str:
    st = q.get("stage")
    third = q.get("task") or 0
    return "(%s, (%s, %s, %s, %s))" % (cq_nat(q["id"]), cq_nat(MSG_CODE[q["type"]]), cq_nat(p.idx.get(st, 0)),
                                       cq_nat(third), cq_Z((q.get("retry_count") or 0) if q["type"] in ("StartStage", "CompleteWorkflow") else 0))


def state_term(p: Prepared) -> str:
    a = p.alpha0
    by_ref = {s["ref"]: s for s in a["stages"]}
    stages = cq_list(_cq_stage(p, s, by_ref[s["ref"]]) for s in p.fam["spec"]["stages"])
    queue = cq_list("(%s, %s)" % (cq_nat(q["id"]), _cq_msg(p, q)) for q in a["queue"])
    return "(mk_state %s %s %s %s %s)" % (a["wf"], stages, queue, cq_nat(a["next"]), cq_list(_cq_claim(c) for c in _claims_of(p, a)))


def workers_term(p: Prepared, r: dict | None = None) -> str:
    ws = []
    for i, w in enumerate(p.workers):
        if w.get("late"):
            rid = r["late"][i][0] if r is not None and i in r.get("late", {}) else 4999
            w = dict(w, row=rid)
        if w["kind"] == "sweep":
            ws.append("WSweeper")
        elif w["kind"] == "StartStage":
            ws.append(f"(WStart {cq_nat(w['row'])} {cq_nat(p.idx[w['ref']])} {cq_Z(w['retry'])})")
        elif w["kind"] == "CompleteStage":
            ws.append(f"(WComplete {cq_nat(w['row'])} {cq_nat(p.idx[w['ref']])})")
        elif w["kind"] == "SignalStage":
            ws.append(f"(WSignal {cq_nat(w['row'])} {cq_nat(p.idx[w['ref']])} {cq_nat(0)})")
        else:
            ws.append(f"(WOther {cq_nat(w['row'])})")
    return cq_list(ws)


def observed(p: Prepared, r: dict) -> dict:
    """canonical outcome of one real run (what is compared with Conc)"""
    a = r["alpha"]
    by_ref = {s["ref"]: s for s in a["stages"]}
    starts = []
    for e in r["audit"]:
        if e["kind"] == "stage" and e["old"] == "NOT_STARTED" and e["new"] == "RUNNING":
            starts.append(p.idx[p.env.id_ref[e["ent"]]])
    pcs = []
    for i, w in enumerate(p.workers):
        o = r["outcome"][i]
        pcs.append(0 if o and o[0] in ("done", "swept") else 3 if o and o[0] == "skipped" else 1)
    steps = [(i, k) for i, k in r["trace"] if k != "P"]      # the poll of a late worker is not a step of the model
    return {"kinds": ["KR" if k == "R" else "KT" for _, k in steps], "sched": [i for i, _ in steps],
            "stages": [by_ref[ref] for ref in p.refs], "claims": _claims_of(p, a), "queue": a["queue"],
            "processed": r["processed_new"], "starts": starts, "pcs": pcs}


def case_term(p: Prepared, st_term: str, w_term: str, o: dict) -> str:
    return ("{| cc_state := %s; cc_workers := %s; cc_sched := %s; cc_kinds := %s; cc_stages := %s; cc_claims := %s; "
            "cc_queue := %s; cc_processed := %s; cc_starts := %s; cc_pcs := %s |}") % (
        st_term, w_term, cq_list(cq_nat(i) for i in o["sched"]), cq_list(f"(Some {k})" for k in o["kinds"]),
        cq_list(_cq_sview(p, s) for s in o["stages"]), cq_list(_cq_claim(c) for c in o["claims"]),
        cq_list(_cq_qview(p, q) for q in o["queue"]), cq_list(cq_nat(i) for i in o["processed"]),
        cq_list(cq_nat(i) for i in o["starts"]), cq_list(cq_nat(i) for i in o["pcs"]))


REQ = "From Stab.model Require Import StatusM Conc."


# ---------------------------------------------------------------------------------------------------------
# exploration: stateless DFS under a preemption bound, random priority schedules
# ---------------------------------------------------------------------------------------------------------

def _prefix_chooser(prefix):
    def ch(cand, pos, last):
        if pos < len(prefix) and prefix[pos] in cand:
            return prefix[pos]
        return last if last in cand else cand[0]
    return ch


def _priority_chooser(seed: int, n: int, changes: int, horizon: int = 40):
    """PCT-style: random thread priorities, `changes` random points where the running thread's priority drops"""
    rnd = random.Random(seed)
    prio = list(range(n))
    rnd.shuffle(prio)
    points = sorted(rnd.randrange(horizon) for _ in range(changes))

    def ch(cand, pos, last):
        if points and pos >= points[0]:
            points.pop(0)
            if last is not None:
                prio[last] = min(prio) - 1
        return max(cand, key=lambda i: prio[i])
    return ch


def _preemptions(trace, cands, upto: int) -> int:
    k, last = 0, None
    for t in range(upto):
        c = trace[t][0]
        if last is not None and c != last and last in cands[t]:
            k += 1
        last = c
    return k


def explore(p: Prepared, bound: int, limit: int, n_random: int, seed: int, drain: bool = True, root=None) -> list[dict]:
    """every schedule with at most `bound` preemptions whose first choices are `root` (up to `limit` runs), then n_random
    priority schedules"""
    root = list(root or [])
    runs, seen = [], set()
    stack = [root]
    while stack and len(runs) < limit:
        prefix = stack.pop()
        r = real_run(p, _prefix_chooser(prefix), drain=drain)
        key = tuple(i for i, _ in r["trace"])
        if list(key[:len(root)]) != root or key in seen:
            continue
        seen.add(key)
        r["origin"] = "dfs"
        runs.append(r)
        if r["error"]:
            continue
        T, C = r["trace"], r["cands"]
        for t in range(len(T) - 1, max(len(prefix), len(root)) - 1, -1):
            base = _preemptions(T, C, t)
            last = T[t - 1][0] if t > 0 else None
            for c in C[t]:
                if c == T[t][0]:
                    continue
                k = base + (1 if (last is not None and c != last and last in C[t]) else 0)
                if k <= bound:
                    stack.append([x for x, _ in T[:t]] + [c])
    exhausted = not stack
    for j in range(n_random):
        r = real_run(p, _priority_chooser(seed * 7919 + j, len(p.workers), 1 + j % 4), drain=drain)
        key = tuple(i for i, _ in r["trace"])
        if key in seen:
            continue
        seen.add(key)
        r["origin"] = "random"
        runs.append(r)
    for r in runs:
        r["exhausted"] = exhausted
        r["preemptions"] = _preemptions(r["trace"], r["cands"], len(r["trace"]))
    return runs


# ---------------------------------------------------------------------------------------------------------
# implementation-side monitors: the property evaluated directly on one real run (race + FIFO drain)
# ---------------------------------------------------------------------------------------------------------

def monitors(p: Prepared, r: dict) -> list[tuple[str, str]]:
    """[(signature, what)] for everything on this real run that contradicts C04 / C11"""
    out = []
    env, fam = p.env, p.fam
    spec = {s["ref"]: s for s in fam["spec"]["stages"]}
    d = r.get("drain")
    audit = d["audit"] if d else r["audit"]
    # C04: NOT_STARTED -> RUNNING commits per stage, StartTask / StartStage pushes, task executions
    starts: dict = {}
    pushes: dict = {}
    status = {s["ref"]: s["status"] for s in p.alpha0["stages"]}
    for e in audit:
        if e["kind"] == "stage":
            ref = env.id_ref.get(e["ent"])
            if e["old"] == "NOT_STARTED" and e["new"] == "RUNNING":
                starts[ref] = starts.get(ref, 0) + 1
            status[ref] = e["new"]
            by_key: dict = {}
            for rf, stt in status.items():
                k = spec.get(rf, {}).get("mutex")
                if k and stt == "RUNNING":
                    by_key.setdefault(k, []).append(rf)
            for k, v in by_key.items():
                if len(v) > 1:
                    out.append(("mutex:two-running", f"stages {sorted(v)} share mutex key {k!r} and are RUNNING in the same durable state"))
        elif e["kind"] == "push":
            pl = json.loads(e["extra"] or "{}")
            ref = env.id_ref.get(pl.get("stage_id", ""))
            key = (e["new"], ref, pl.get("task_id"), pl.get("retry_count") or 0)
            pushes[key] = pushes.get(key, 0) + 1
    for ref, n in starts.items():
        if n > 1:
            out.append(("start:twice", f"stage {ref} committed NOT_STARTED->RUNNING {n} times"))
    for a in r["alpha"]["stages"]:
        want = len(spec.get(a["ref"], {}).get("tasks", []))
        if a["ref"] in spec and len(a["tasks"]) > want:
            out.append(("planned:twice", f"stage {a['ref']} has {len(a['tasks'])} task rows after the race, its definition has {want}: it was planned more than once"))
    per_stage: dict = {}
    for (typ, ref, task, retry), n in pushes.items():
        if typ == "StartTask":
            per_stage[ref] = per_stage.get(ref, 0) + n
    for ref, n in per_stage.items():
        # the race ends before any task completes: at most the first task of a stage can have been started
        if n > 1 and not r.get("drain"):
            out.append(("starttask:twice", f"StartTask for stage {ref} pushed {n} times during the race"))
    for (typ, ref, task, retry), n in pushes.items():
        if typ == "StartTask" and n > 1:
            out.append(("starttask:twice", f"StartTask for stage {ref} pushed {n} times"))
    for ref, st in spec.items():
        n = sum(v for (typ, rf, _t, retry), v in pushes.items() if typ == "StartStage" and rf == ref and retry == 0)
        already = sum(1 for q in p.alpha0["queue"] if q["type"] == "StartStage" and q["stage"] == ref)
        if n + already > max(1, len(st.get("reqs", []))):
            out.append(("downstream:twice", f"StartStage for {ref} pushed {n + already} times by {len(st.get('reqs', []))} upstream completions"))
    for k, v in (r.get("running_log") and [(kk, vv) for log in r["running_log"] for kk, vv in log.items()] or []):
        if len(v) > 1:
            out.append(("mutex:two-running", f"stages {sorted(v)} share mutex key {k!r} and are RUNNING after a step of the race"))
    if d:
        led: dict = {}
        for ref, task in d["ledger"]:
            led[(ref, task)] = led.get((ref, task), 0) + 1
        for (ref, task), n in led.items():
            if n > 1:
                out.append(("task:twice", f"task {task} of stage {ref} executed {n} times"))
        for k, v in d["max_running"].items():
            if len(v) > 1:
                out.append(("mutex:two-running", f"stages {sorted(v)} share mutex key {k!r} and are RUNNING together during the drain"))
        # C11: one winner per group, the others CANCELED
        groups: dict = {}
        for ref, st in spec.items():
            if st.get("choice"):
                groups.setdefault(st["choice"], []).append(ref)
        for g, members in groups.items():
            won = [m for m in members if starts.get(m, 0) >= 1]
            if len(won) != 1:
                out.append(("choice:winners", f"deferred choice group {g!r}: {len(won)} stages started ({won})"))
            for m in members:
                if m not in won and d["stages"].get(m) != "CANCELED":
                    out.append(("choice:loser-not-canceled", f"deferred choice group {g!r}: loser {m} ended {d['stages'].get(m)}"))
        # after the drain: nothing left half-started; every stage ran (mutex: the waiting one does run after the holder)
        a_stages = {s["ref"]: s for s in r["alpha"]["stages"]}
        for ref, st in d["stages"].items():
            # a cancelled deferred-choice loser makes the engine finish the workflow CANCELED and cancel what has not run yet
            # (final-status semantics, C05): only in a pure mutex family must the waiting stage run
            if st == "SUCCEEDED" or (st == "CANCELED" and (spec[ref].get("choice") or (groups and d["wf"] == "CANCELED"))):
                if st == "SUCCEEDED" and spec[ref].get("tasks") and led.get((ref, 0), 0) != 1 and not _done_before(p, ref):
                    out.append(("task:count", f"stage {ref} SUCCEEDED with {led.get((ref, 0), 0)} executions of its task after the race"))
                continue
            ra = a_stages.get(ref, {})
            sig, what = "stuck:" + st, f"after the race and a FIFO drain stage {ref} is {st} (workflow {d['wf']}, queue {d['queue']})"
            racers = [w for w in p.workers if w["kind"] == "SignalStage" and w.get("ref") == ref]
            if racers and st == "NOT_STARTED" and ra.get("status") == "NOT_STARTED" and ra.get("buffered", 0) > 0 and not d["queue"]:
                sig = F8_SIG
                what = (f"a persistent SignalStage buffered between StartStage's read of {ref} and its claim bumped the version: the claim lost "
                        f"its CAS, the ConcurrencyError was swallowed as a duplicate claim and nobody starts the stage (queue empty, workflow {d['wf']})")
            elif racers and st == "RUNNING" and d["pending_flags"].get(ref) and not d["queue"]:
                sig = F8P_SIG
                what = (f"a persistent SignalStage buffered between StartStage's claim commit of {ref} and its plan commit bumped the version: the "
                        f"plan commit lost its CAS, the ConcurrencyError was swallowed and the stage stays RUNNING with _plan_pending "
                        f"and no StartTask (queue empty, workflow {d['wf']})")
            out.append((sig, what))
        if d["stuck"]:
            out.append(("drain:not-quiescent", "the FIFO drain after the race did not reach an empty queue in 300 deliveries"))
    return out


def _done_before(p: Prepared, ref: str) -> bool:
    return any(s["ref"] == ref and s["status"] in ("SUCCEEDED",) for s in p.alpha0["stages"]) or \
        any(s["ref"] == ref and any(t[0] != "NOT_STARTED" for t in s["tasks"]) for s in p.alpha0["stages"])


# ---------------------------------------------------------------------------------------------------------
# jobs (one process per family subtree), the check
# ---------------------------------------------------------------------------------------------------------

def _job(args):
    name, root, bound, limit, n_random, seed = args
    t0 = time.time()
    F = families()
    p = None
    try:
        p = prepare(name, F[name], tag="c04")
        runs = explore(p, bound, limit, n_random, seed, root=root)
        st = None if F[name].get("monitor_only") else state_term(p)
        res = []
        for r in runs:
            item = {"family": name, "choices": [i for i, _ in r["trace"]], "origin": r["origin"], "error": r["error"],
                    "crash": [c for c in r["crash"] if c], "preemptions": r.get("preemptions", 0), "exhausted": r["exhausted"],
                    "steps": len(r["trace"]), "outcome": r["outcome"], "open_txn_left": r.get("open_txn_left")}
            if not r["error"] and not item["crash"]:
                o = observed(p, r)
                item["case"] = None if F[name].get("monitor_only") else case_term(p, st, workers_term(p, r), o)
                item["mon"] = monitors(p, r)
                item["summary"] = {"stages": [s["status"] for s in o["stages"]], "claims": o["claims"], "starts": o["starts"],
                                   "new_msgs": [(q["type"], q["stage"], q.get("retry_count")) for q in o["queue"] if q["id"] >= p.alpha0["next"]],
                                   "after_drain": (r.get("drain") or {}).get("stages"), "wf": (r.get("drain") or {}).get("wf")}
            res.append(item)
        return {"name": name, "root": root, "runs": res, "wall": time.time() - t0, "workers": [w["kind"] for w in p.workers]}
    except Exception as e:  # noqa
        import traceback
        return {"name": name, "root": root, "runs": [], "wall": time.time() - t0, "fatal": traceback.format_exc()[-1500:]}
    finally:
        if p is not None:
            try:
                p.env.close()
            except Exception:
                pass


def _roots(n: int, depth: int) -> list:
    rs = [[]]
    for _ in range(depth):
        rs = [r + [i] for r in rs for i in range(n)]
    return rs


def plan_jobs(pid: str, tier: str, seed: int, names=None) -> list:
    F = families()
    jobs = []
    for name in (names or QUICK[pid]):
        n = len(F[name]["race"])
        if tier == "quick":
            bound, limit, nr, depth = (2 if n >= 3 else 3), 110, 6, (2 if n >= 3 else 1)
        else:
            bound, limit, nr, depth = (4 if n >= 3 else 8), 450, 60, (2 if n >= 3 else 1)
        for k, root in enumerate(_roots(n, depth)):
            jobs.append((name, root, bound, limit, nr, seed * 101 + k))
    return jobs


def run_jobs(jobs) -> list:
    if not jobs:
        return []
    with ProcessPoolExecutor(max_workers=min(lib.NPROC, len(jobs))) as ex:
        return list(ex.map(_job, jobs))


def check(ctx, pid: str) -> RunResult:
    res = RunResult(rule="one case = one distinct schedule (sequence of thread choices at statement granularity) of 2-3 real threads "
                         "really executed on the real engine; non-trivial = a schedule with at least one preemption (a thread "
                         "switched out while it still had an enabled step)")
    t0 = time.time()
    jobs = plan_jobs(pid, ctx.tier, ctx.seed)
    outs = run_jobs(jobs)
    cases, meta = [], []
    dist = {"families": {}, "origin": {}, "preemptions": {}, "threads": {}, "steps": {}}
    viol: dict = {}
    mon_only = 0
    for o in outs:
        if o.get("fatal"):
            res.disagreements.append({"what": "harness job crashed", "family": o["name"], "root": o["root"], "detail": o["fatal"]})
            continue
        fam = dist["families"].setdefault(o["name"], {"schedules": 0, "outcomes": {}, "exhausted_subtrees": 0, "subtrees": 0})
        if o["runs"]:
            fam["subtrees"] += 1
            fam["exhausted_subtrees"] += 1 if o["runs"][0]["exhausted"] else 0
        for r in o["runs"]:
            if r["error"] or r["crash"]:
                res.disagreements.append({"what": "scheduler error", "family": o["name"], "choices": r["choices"], "error": r["error"], "crash": r["crash"]})
                continue
            fam["schedules"] += 1
            if r["case"] is None:
                # a monitor-only family: really run and judged by the monitors, not compared with Conc.v
                mon_only += 1
                for sig, what in r["mon"]:
                    viol.setdefault(sig, (what, {"family": o["name"], "choices": r["choices"], "what": what}))
                continue
            cases.append(r["case"])
            meta.append(r)
            k = json.dumps([r["summary"]["stages"], r["summary"]["after_drain"]])
            fam["outcomes"][k] = fam["outcomes"].get(k, 0) + 1
            dist["origin"][r["origin"]] = dist["origin"].get(r["origin"], 0) + 1
            dist["preemptions"][str(r["preemptions"])] = dist["preemptions"].get(str(r["preemptions"]), 0) + 1
            dist["threads"][str(len(o["workers"]))] = dist["threads"].get(str(len(o["workers"])), 0) + 1
            b = str(10 * (r["steps"] // 10))
            dist["steps"][b] = dist["steps"].get(b, 0) + 1
            for sig, what in r["mon"]:
                viol.setdefault(sig, (what, {"family": o["name"], "choices": r["choices"], "what": what}))
    fail, err = lib.coq_failing_indices(REQ, "check_case", "ccase", cases, pid.lower() + "_conc") if cases else ([], "")
    if err:
        res.disagreements.append({"what": "model evaluation failed", "detail": err[:1200]})
    for i in fail[:10]:
        res.disagreements.append({"what": "Conc.run_conc and the real engine differ on this schedule", "family": meta[i]["family"],
                                  "choices": meta[i]["choices"], "observed": meta[i]["summary"]})
        viol.setdefault("model-mismatch:" + meta[i]["family"],
                        ("the real engine's commits differ from Conc on a schedule of family " + meta[i]["family"],
                         {"family": meta[i]["family"], "choices": meta[i]["choices"], "what": "model mismatch", "observed": meta[i]["summary"]}))
    for sig, (what, rep) in viol.items():
        if sig.startswith("model-mismatch:"):
            continue           # a disagreement, not a property violation by itself; search() looks for one
        res.violations.append(Violation(what=what, signature=sig, replay=rep))
    res.evaluations = len(cases) + mon_only
    dist["monitor_only_schedules"] = mon_only
    res.traces_validated = len(cases) - len(fail)
    res.distinct_nontrivial = sum(1 for m in meta if m["preemptions"] >= 1)
    res.samples = [{"family": m["family"], "choices": m["choices"], "observed": m["summary"]} for m in meta[:: max(1, len(meta) // 6)]][:6]
    res.distribution = dist
    res.exhaustive = False
    res.notes.append("tier %s: %d jobs, %d schedules, wall %.1fs; preemption bound %s; every job = one family subtree (fixed first choices)"
                     % (ctx.tier, len(jobs), len(cases), time.time() - t0, sorted({j[2] for j in jobs})))
    return res


def run(ctx) -> RunResult:
    return check(ctx, PID)


def search(ctx, broken) -> list:
    """a proof or the correspondence broke: look harder on the implementation (more schedules, the monitors decide)"""
    found: dict = {}
    jobs = [(n, r, 3, 250, 20, s) for (n, r, _b, _l, _nr, s) in plan_jobs(PID, "quick", ctx.seed + 1)]
    for o in run_jobs(jobs):
        for r in o["runs"]:
            for sig, what in r.get("mon", []):
                found.setdefault(sig, Violation(what=what, signature=sig, replay={"family": o["name"], "choices": r["choices"], "what": what}))
    return list(found.values())


def replay(obj) -> bool:
    rep = obj.get("replay", obj)
    F = families()
    p = prepare(rep["family"], F[rep["family"]], tag="c04r")
    try:
        r = real_run(p, _prefix_chooser(rep["choices"]))
        if r["error"] or any(r["crash"]):
            print("replay: scheduler error", r["error"], r["crash"])
            return False
        mon = monitors(p, r)
        for sig, what in mon:
            print("replay:", sig, "-", what)
        return not mon
    finally:
        p.env.close()
