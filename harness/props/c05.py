"""C05 — when the engine goes quiet every workflow is finished or explicitly waiting: theorems about
determine_status / _determine_final_status (tied to the code by exhaustive differentials) and engine runs."""
import itertools

from harness import engine_corr, lib
from harness.lib import RunResult, cq_bool, cq_list

PID = "C05"
COQ_TARGETS = ["props/C05.vo"]
THEOREMS = []   # default: every Theorem of coq/props/C05.v
TRUSTED_BASE = ["SQLite: a write transaction is atomic and isolated; a crash before COMMIT leaves no trace; AUTOINCREMENT ids increase",
                "task behaviour is a function of (stage, task, n-th execution) (scripted oracle mirrored by a scripted Python Task)",
                "OCaml extraction of coq/model/Engine.v (ExtrOcamlBasic only) + hand-written I/O driver ocaml/oracle.ml"]
ASSUMPTIONS = ["one handler runs at a time (sequential engine model); races are the subject of C04/C07/C11/C18",
               "delayed messages are delivered only when no undelayed message is pending (wall-clock realism of the schedule generator)"]


def status_cases(ctx):
    """determine_status on real StageExecution objects with real synthetic children"""
    lib.ensure_repo_on_path()
    from stabilize.models.stage import StageExecution, SyntheticStageOwner
    from stabilize.models.status import WorkflowStatus
    from stabilize.models.task import TaskExecution
    from stabilize.models.workflow import Workflow
    sts = list(WorkflowStatus)
    thorough = ctx.tier == "thorough"
    rng = ctx.rng
    shapes = []
    for nb, nt, na in itertools.product(range(0, 3), range(0, 4), range(0, 3)):
        n = nb + nt + na
        if n == 0:
            shapes.append((nb, nt, na, ()))
            continue
        if n <= (3 if thorough else 2):
            for combo in itertools.product(range(len(sts)), repeat=n):
                shapes.append((nb, nt, na, combo))
        else:
            for _ in range(60 if thorough else 12):
                shapes.append((nb, nt, na, tuple(rng.randrange(len(sts)) for _ in range(n))))
    cases, raw = [], []
    for (nb, nt, na, combo) in shapes:
        for self_st in (WorkflowStatus.RUNNING, WorkflowStatus.NOT_STARTED):
            for cof, fp in ((False, True), (True, True), (False, False)):
                ctxd = {}
                if cof:
                    ctxd["continuePipelineOnFailure"] = True
                if not fp:
                    ctxd["failPipeline"] = False
                parent = StageExecution(ref_id="p", status=self_st, context=ctxd,
                                        tasks=[TaskExecution(name=f"t{i}", status=sts[combo[nb + i]]) for i in range(nt)])
                kids = []
                for i in range(nb):
                    kids.append(StageExecution(ref_id=f"b{i}", status=sts[combo[i]], parent_stage_id=parent.id,
                                               synthetic_stage_owner=SyntheticStageOwner.STAGE_BEFORE))
                for i in range(na):
                    kids.append(StageExecution(ref_id=f"a{i}", status=sts[combo[nb + nt + i]], parent_stage_id=parent.id,
                                               synthetic_stage_owner=SyntheticStageOwner.STAGE_AFTER))
                wf = Workflow(application="v", name="v", stages=[parent] + kids)
                for s in wf.stages:
                    s.set_execution_strong(wf)
                got = parent.determine_status()
                b = [sts[k].name for k in combo[:nb]]
                t = [sts[k].name for k in combo[nb:nb + nt]]
                a = [sts[k].name for k in combo[nb + nt:]]
                cases.append("(%s, %s, %s, %s, %s, %s, %s)" % (self_st.name, cq_bool(cof), cq_bool(fp), cq_list(b), cq_list(t), cq_list(a), got.name))
                raw.append({"self": self_st.name, "cof": cof, "fp": fp, "before": b, "tasks": t, "after": a, "impl": got.name})
    return cases, raw


def final_cases(ctx):
    lib.ensure_repo_on_path()
    import logging
    logging.disable(logging.CRITICAL)
    from stabilize.handlers.complete_workflow import CompleteWorkflowHandler
    from stabilize.models.stage import StageExecution
    from stabilize.models.status import WorkflowStatus
    from stabilize.models.workflow import Workflow
    from stabilize.queue.messages import CompleteWorkflow
    sts = list(WorkflowStatus)
    thorough = ctx.tier == "thorough"
    rng = ctx.rng

    class Q:
        def __init__(self):
            self.pushed = []

        def push(self, m, delay=None):
            self.pushed.append(m)
    lists = [()]
    for n in (1, 2):
        lists += list(itertools.product(range(len(sts)), repeat=n))
    tri = list(itertools.product(range(len(sts)), repeat=3))
    lists += tri if thorough else rng.sample(tri, 300)
    lists += [tuple(rng.randrange(len(sts)) for _ in range(rng.randint(4, 6))) for _ in range(300 if thorough else 80)]
    cases, raw = [], []
    for combo in lists:
        for chain in (False, True):          # chain: each stage depends on the previous one (upstream-complete flag varies)
            for override in (False, True):
                for rc, mx in ((0, 240), (240, 240), (5, 3)):
                    stages = []
                    for i, k in enumerate(combo):
                        ctxd = {"completeOtherBranchesThenFail": True} if (override and sts[k] == WorkflowStatus.STOPPED) else {}
                        stages.append(StageExecution(ref_id=f"s{i}", status=sts[k], context=ctxd,
                                                     requisite_stage_ref_ids=({f"s{i-1}"} if (chain and i > 0) else set())))
                    wf = Workflow(application="v", name="v", stages=stages)
                    for s in wf.stages:
                        s.set_execution_strong(wf)
                    q = Q()
                    h = CompleteWorkflowHandler(q, None)
                    import dataclasses
                    h.handler_config = dataclasses.replace(h.handler_config, max_stage_wait_retries=mx)
                    got = h._determine_final_status(wf, CompleteWorkflow(execution_type="PIPELINE", execution_id=wf.id, retry_count=rc))
                    ov = override and any(sts[k] == WorkflowStatus.STOPPED for k in combo)
                    view = []
                    for i, k in enumerate(combo):
                        upc = True if not (chain and i > 0) else (sts[combo[i - 1]].name in ("SUCCEEDED", "FAILED_CONTINUE", "SKIPPED", "REDIRECT"))
                        view.append(f"({sts[k].name}, {cq_bool(upc)})")
                    exp = "Requeue" if got is None else f"(Final {got.name})"
                    if got is None and not (len(q.pushed) == 1 and q.pushed[0].retry_count == rc + 1):
                        exp = "(Final NOT_STARTED)"   # impossible marker: a None result must re-queue with retry_count + 1
                    cases.append("(%s, %s, %d%%Z, %d%%Z, %s)" % (cq_list(view), cq_bool(ov), rc, mx, exp))
                    raw.append({"stages": [sts[k].name for k in combo], "chain": chain, "override": ov, "retry": rc, "max": mx,
                                "impl": None if got is None else got.name})
    return cases, raw


def run(ctx) -> RunResult:
    res = RunResult()
    c1, r1 = status_cases(ctx)
    f1, e1 = lib.coq_failing_indices(
        "From Stab.model Require Import StatusM StageStat.",
        "fun c => match c with (self, cof, fp, b, t, a, got) => status_eqb (determine_status self cof fp b t a) got end",
        "status * bool * bool * list status * list status * list status * status", c1, "c05_ds", shard=1500)
    c2, r2 = final_cases(ctx)
    f2, e2 = lib.coq_failing_indices(
        "From Stab.model Require Import StatusM StageStat.",
        "fun c => match c with (view, ov, rc, mx, exp) => match determine_final_status view ov rc mx, exp with "
        "| Requeue, Requeue => true | Final x, Final y => status_eqb x y | _, _ => false end end",
        "list (status * bool) * bool * Z * Z * final_decision", c2, "c05_fs", shard=1500)
    if e1 or e2:
        res.disagreements.append({"what": "StageStat model evaluation failed", "detail": (e1 + e2)[:600]})
    for i in f1[:5]:
        res.disagreements.append({"what": "determine_status differs from coq/model/StageStat.v", "case": r1[i]})
    for i in f2[:5]:
        res.disagreements.append({"what": "_determine_final_status differs from coq/model/StageStat.v", "case": r2[i]})
    res.evaluations = len(c1) + len(c2)
    res.distinct_nontrivial = len(set(c1)) + len(set(c2))
    res.traces_validated = res.evaluations
    res.rule = ("determine_status: every status combination of <= 2 (thorough 3) before-stages + tasks + after-stages (random beyond) x self "
                "status x failure flags on real StageExecution objects; _determine_final_status: every top-level status list of length "
                "<= 2 (all / sample of 3, random 4..6) x dependency shape x override x retry budget; distinct = distinct case terms")
    res.samples = [r1[len(r1) // 2], r2[len(r2) // 2]]
    res.distribution = {"determine_status_cases": len(c1), "final_status_cases": len(c2)}
    engine_corr.extend(ctx, res, PID)
    return res


def replay(obj) -> bool:
    return engine_corr.replay(obj)
