"""C06 — completed is final; every durable status change is a legal transition.

Part A (this file, always): the regenerated table Gen_Status.v is compared exhaustively (12 x 12 pairs,
every set membership) with what stabilize.models.status computes — this validates the translator — and
the table theorems of coq/props/C06.v are re-checked against it.
Part B: engine commits (status audit triggers vs. the Engine model), see harness/engine_corr.py.
"""
from __future__ import annotations

from harness import lib
from harness.lib import RunResult, Violation, cq_bool

PID = "C06"
COQ_TARGETS = ["props/C06.vo"]
THEOREMS_OLD = [
    "Stab.props.C06.C06_table_completed_no_exit",
    "Stab.props.C06.C06_table_completed_final",
    "Stab.props.C06.C06_table_total",
    "Stab.props.C06.C06_table_no_rearm",
]
THEOREMS = []
TRUSTED_BASE = ["SQLite AFTER UPDATE triggers report exactly the durable status changes (engine part)"]
ASSUMPTIONS = ["status changes are observed at commit granularity (rows of a rolled-back transaction vanish)"]


def table_cases():
    lib.ensure_repo_on_path()
    import stabilize.models.status as S
    W = S.WorkflowStatus
    members = list(W)
    pair_cases, samples = [], []
    for a in members:
        for b in members:
            ct = S.can_transition(a, b)
            try:
                S.validate_transition(a, b)
                ok = True
            except S.InvalidStateTransitionError:
                ok = False
            pair_cases.append(f"({a.name}, {b.name}, {cq_bool(ct)}, {cq_bool(ok)})")
            if len(samples) < 4 and ct and a != b:
                samples.append({"from": a.name, "to": b.name, "can_transition": ct, "validate_ok": ok})
    flag_cases = []
    for a in members:
        flag_cases.append("(%s, [%s])" % (a.name, "; ".join(cq_bool(x) for x in (
            a.is_complete, a.is_halt, a in S.COMPLETED_STATUSES, a.is_successful, a.is_failure,
            a in S.CONTINUABLE_STATUSES, a in S.HALT_STATUSES, a in S.ACTIVE_STATUSES))))
    return members, pair_cases, flag_cases, samples


def run(ctx) -> RunResult:
    res = RunResult(rule="exhaustive: every ordered pair of the 12 statuses (can_transition, validate_transition) "
                         "and every status against the 8 flag/set predicates; non-trivial = pair with a != b")
    members, pair_cases, flag_cases, samples = table_cases()
    req = "From Stab.model Require Import StatusM."
    fail1, err1 = lib.coq_failing_indices(
        req, "fun c => match c with (a, b, ct, ok) => Bool.eqb (can_transition a b) ct && Bool.eqb (validate_transition_ok a b) ok end",
        "status * status * bool * bool", pair_cases, "c06_pairs")
    fail2, err2 = lib.coq_failing_indices(
        req, "fun c => match c with (a, fl) => list_eqb Bool.eqb [is_complete a; is_halt a; in_completed a; is_successful a; "
             "is_failure a; in_continuable a; in_halt a; in_active a] fl end",
        "status * list bool", flag_cases, "c06_flags")
    if err1 or err2:
        res.disagreements.append({"what": "model evaluation failed", "detail": (err1 + err2)[:800]})
    for i in fail1:
        res.disagreements.append({"what": "can_transition differs", "case": pair_cases[i]})
    for i in fail2:
        res.disagreements.append({"what": "status flags differ", "case": flag_cases[i]})
    res.evaluations = len(pair_cases) + len(flag_cases)
    res.distinct_nontrivial = len(members) * (len(members) - 1)
    res.traces_validated = res.evaluations
    res.exhaustive = True
    res.samples = samples
    res.distribution = {"statuses": len(members), "pairs": len(pair_cases), "flag_rows": len(flag_cases)}

    # implementation-side monitor for the table half of the property: a completed status must have no
    # outgoing transition in the *implementation's* table (this is what a failing input looks like)
    import stabilize.models.status as S
    for a in members:
        for b in members:
            if a != b and a.is_complete and S.can_transition(a, b):
                res.violations.append(Violation(
                    what=f"published table lets completed status {a.name} change to {b.name}",
                    signature=f"table:{a.name}->{b.name}",
                    replay={"kind": "table", "from": a.name, "to": b.name,
                            "how": "stabilize.models.status.can_transition(from, to) is True"}))
    try:
        from harness import engine_corr
        engine_corr.extend(ctx, res, PID)
    except ImportError:
        res.notes.append("engine part not built yet")
    return res


def replay(obj) -> bool:
    lib.ensure_repo_on_path()
    import stabilize.models.status as S
    r = obj["replay"]
    if r.get("kind") == "table":
        return not S.can_transition(S.WorkflowStatus[r["from"]], S.WorkflowStatus[r["to"]])
    from harness import engine_corr
    return engine_corr.replay(obj)
