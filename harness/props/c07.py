"""C07 — concurrent writers never silently overwrite each other.

Proofs: coq/props/C07.v over coq/model/Occ.v (the CAS of store_stage / upsert_task parameterised by the
statement shapes regenerated into coq/gen/Gen_Occ.v by harness/tr/occ.py).

Correspondence (this file): a statement-level scheduler for REAL threads.  `sqlite3.connect` is wrapped so that
every engine connection is a `Connection` subclass whose execute()/commit() block at the model-relevant
statements until the controller grants the step:
    S  SELECT * FROM stage_executions WHERE id = :id        (retrieve_stage: the stage row)
    T  SELECT * FROM task_executions WHERE stage_id = …     (retrieve_stage: its tasks — a separate snapshot)
    U  UPDATE stage_executions …  (first DML of store_stage; the task upserts follow without a break)
    C  COMMIT of an open write transaction
    E  the thread's next committing operation (store.mark_message_processed: INSERT OR IGNORE + COMMIT)
A thread whose next step is DML while another thread's write transaction is open is not enabled (it would
block on SQLite's lock).  Two or three real threads run retrieve_stage + modify + store_stage through the
public SqliteWorkflowStore API (plain / inside store.transaction(), with / without expected_phase, 1..k
attempts in a re-read/retry loop like _update_join_tracking), under every interleaving (2 writers) or random
schedules (3 writers).  The schedule actually executed, each writer's per-attempt outcome and the final row
(version, status, context log, task statuses and versions) are printed as a Coq term and re-computed with
Occ.run inside Coq (vm_compute); implementation-side monitors evaluate the property directly on the real trace.
"""
from __future__ import annotations

import json
import os
import shutil
import sqlite3
import threading
import time
from concurrent.futures import ProcessPoolExecutor
from pathlib import Path

from harness import lib
from harness.lib import RunResult, Violation, cq_Z, cq_list, cq_nat

PID = "C07"
COQ_TARGETS = ["props/C07.vo"]
THEOREMS = [
    "Stab.props.C07.C07_cas_exclusive",
    "Stab.props.C07.C07_failed_write_changes_nothing",
    "Stab.props.C07.C07_phase_guard",
    "Stab.props.C07.C07_frame",
    "Stab.props.C07.C07_task_cas",
    "Stab.props.C07.C07_linearizable",
    "Stab.props.C07.C07_one_success_per_version",
    "Stab.props.C07.C07_open_txn_is_empty",
    "Stab.props.C07.C07_retry_fresh",
    "Stab.props.C07.C07_versions_monotone",
    "Stab.props.C07.C07_bounded_retry",
    "Stab.props.C07.C07_not_guaranteed_plain_store_is_not_atomic_on_failure",
    "Stab.props.C07.C07_not_guaranteed_progress",
]
TRUSTED_BASE = [
    "SQLite: a write transaction (first DML .. COMMIT) is atomic and excludes other writers; readers see only committed "
    "rows; PRIMARY KEY on stage_executions.id / task_executions.id (sampled by the statement scheduler on real threads)",
    "Python sqlite3 (legacy isolation_level ''): implicit BEGIN before DML, none before SELECT; thread-local connection "
    "shared by store and queue",
    "harness/tr/occ.py: reads the WHERE/SET shape of the four UPDATE stage_executions statements, of upsert_task and the "
    "commit/rollback placement from the AST into coq/gen/Gen_Occ.v (fail-closed)",
    "resilient_circuit.RetryWithBackoffPolicy calls the function max_retries + 1 times (checked on every run)",
    "ULID task ids are unique across stages (Occ theorems at run level: the tasks table holds the contended stage's tasks)",
]
ASSUMPTIONS = [
    "every reader loads the stage row before its task rows (retrieve_stage, retrieve, load_tasks_for_stages do)",
    "stage and task rows are written only through store_stage / AtomicTransaction.store_stage / insert_stage",
    "a write transaction is atomic at statement-scheduling granularity; thread scheduling below one SQL statement is not modelled",
    "run-level theorems: all contending workers target one stage row; modifications keep ids and versions (the code never edits them)",
    "not guaranteed (stated in coq/props/C07.v): progress under unbounded contention (after p_tries attempts the "
    "ConcurrencyError reaches the caller and the message is rescheduled); rollback of a failed PLAIN store_stage — its "
    "implicit transaction stays open (holding SQLite's write lock) until the thread's next commit, and is empty only "
    "because of the two assumptions above; concurrent first INSERTs of the same new stage id raise IntegrityError, not "
    "ConcurrencyError",
]

STATUSES = None  # list of WorkflowStatus names in enum order (status code = index)

# ---------------------------------------------------------------------------------------------------------
# statement scheduler
# ---------------------------------------------------------------------------------------------------------
_tl = threading.local()
_SCHED = None          # the active Scheduler (one per process at a time)
_ORIG_CONNECT = sqlite3.connect


class Abort(BaseException):
    pass


def _classify(sql: str, in_txn: bool = True) -> str | None:
    s = " ".join(sql.split())
    if s.startswith("SELECT * FROM stage_executions WHERE id = :id"):
        return "S"
    if s.startswith("SELECT * FROM task_executions WHERE stage_id = :stage_id"):
        return "T"
    if s.startswith("UPDATE stage_executions") or s.startswith("INSERT INTO stage_executions"):
        return "U"
    if s.startswith("INSERT OR IGNORE INTO processed_messages") and getattr(_tl, "epilogue", False):
        return "E"
    if not in_txn and s[:6].upper() in ("INSERT", "UPDATE", "DELETE"):
        return "D"      # any other DML that opens a write transaction (needs SQLite's write lock); not an Occ event
    return None


class SchedConn(sqlite3.Connection):
    def execute(self, sql, *a):
        s, idx = _SCHED, getattr(_tl, "idx", None)
        if s is not None and idx is not None and getattr(_tl, "armed", False):
            k = _classify(sql, self.in_transaction)
            if k is not None:
                s.point(idx, k)
        return super().execute(sql, *a)

    def commit(self):
        s, idx = _SCHED, getattr(_tl, "idx", None)
        if s is not None and idx is not None and getattr(_tl, "armed", False) and self.in_transaction \
                and not getattr(_tl, "epilogue", False):
            s.point(idx, "C")
        return super().commit()


def _patched_connect(*a, **kw):
    kw.setdefault("factory", SchedConn)
    return _ORIG_CONNECT(*a, **kw)


class Scheduler:
    """Controller side: grant one step at a time; worker side: point()."""

    def __init__(self, n: int, chooser):
        self.n = n
        self.cv = threading.Condition()
        self.waiting: dict[int, str] = {}
        self.granted: int | None = None
        self.running: int | None = None
        self.finished: set[int] = set()
        self.conns: dict[int, sqlite3.Connection] = {}
        self.abort = False
        self.trace: list[tuple[int, str]] = []
        self.enabled_log: list[list[int]] = []
        self.chooser = chooser
        self.error: str | None = None

    # ---- worker side
    def point(self, idx: int, kind: str) -> None:
        with self.cv:
            self.waiting[idx] = kind
            if self.running == idx:
                self.running = None
            self.cv.notify_all()
            while self.granted != idx:
                if self.abort:
                    raise Abort()
                self.cv.wait(0.5)
            self.granted = None
            self.waiting.pop(idx, None)
            self.running = idx

    def done(self, idx: int) -> None:
        with self.cv:
            self.finished.add(idx)
            if self.running == idx:
                self.running = None
            self.cv.notify_all()

    # ---- controller side
    def _quiescent(self) -> bool:
        return self.running is None and self.granted is None and len(self.waiting) + len(self.finished) == self.n

    def drive(self, observe=None) -> None:
        while True:
            with self.cv:
                t0 = time.time()
                while not self._quiescent():
                    self.cv.wait(0.5)
                    if time.time() - t0 > 40:
                        self.error = "scheduler timeout: a thread neither reached a scheduling point nor finished"
                        self.abort = True
                        self.cv.notify_all()
                        return
                if observe is not None and self.trace:
                    observe(self.trace[-1])
                if len(self.finished) == self.n:
                    return
                enabled = []
                for i, k in sorted(self.waiting.items()):
                    if k in ("U", "E", "D"):
                        if any(j != i and c.in_transaction for j, c in self.conns.items()):
                            continue
                    enabled.append(i)
                if not enabled:
                    self.error = "deadlock: every waiting thread needs the write lock held by a finished/blocked thread: %r" % (self.waiting,)
                    self.abort = True
                    self.cv.notify_all()
                    return
                # an E of a thread without an open transaction touches no stage/task row: it commutes with every
                # other step, so it is never a branching point (run last, lowest priority)
                branching = [i for i in enabled if not (self.waiting[i] == "E" and not self.conns[i].in_transaction)]
                cand = branching or enabled[:1]
                c = self.chooser(cand, len(self.trace)) if len(cand) > 1 else cand[0]
                self.enabled_log.append(list(cand))
                self.trace.append((c, self.waiting[c]))
                self.granted = c
                self.cv.notify_all()


# ---------------------------------------------------------------------------------------------------------
# one real run
# ---------------------------------------------------------------------------------------------------------

def _statuses():
    global STATUSES
    if STATUSES is None:
        lib.ensure_repo_on_path()
        from stabilize.models.status import WorkflowStatus
        STATUSES = [s.name for s in WorkflowStatus]
    return STATUSES


def _tid(i: int) -> str:
    return "t%06d" % i


_TEMPLATES: dict[str, tuple[Path, str, str]] = {}


def _reset_manager():
    from stabilize.persistence.connection import ConnectionManager
    try:
        from stabilize.persistence.connection import SingletonMeta
        SingletonMeta.reset(ConnectionManager)
    except Exception:
        pass


REF_TAG = {"a": 101, "b": 202, "c": 303}


def _template(spec_key: str, tasks: list, status0: int, base: Path, join: str | None = None):
    """A database file holding one workflow with the contended stage and bystander stages.
    join=None: contended stage 'a' + bystander 'b'.  join='DISCRIMINATOR'|'N_OF_M': the contended stage is a join
    stage 'j' with upstreams a, b, c (what _update_join_tracking works on)."""
    if spec_key in _TEMPLATES:
        return _TEMPLATES[spec_key]
    lib.ensure_repo_on_path()
    from stabilize.models.stage import JoinType, StageExecution
    from stabilize.models.status import WorkflowStatus
    from stabilize.models.task import TaskExecution
    from stabilize.models.workflow import Workflow
    from stabilize.persistence.sqlite.store import SqliteWorkflowStore
    path = base / f"tpl-{len(_TEMPLATES)}.db"
    store = SqliteWorkflowStore(f"sqlite:///{path}", create_tables=True)
    wf = Workflow.create("c07", "c07", [])
    if join is None:
        st = StageExecution.create("stage-a", "A", "a")
    else:
        st = StageExecution.create("stage-j", "J", "j", requisite_stage_ref_ids={"a", "b", "c"})
        st.join_type = JoinType[join]
        st.join_threshold = 2
    st.execution = wf
    st.status = WorkflowStatus[_statuses()[status0]]
    st.context = {"log": []}
    ts = []
    for tid, code in tasks:
        t = TaskExecution.create("T%d" % tid, "shell")
        t.id = _tid(tid)
        t.status = WorkflowStatus[_statuses()[code]]
        ts.append(t)
    st.tasks = ts
    others = []
    for ref in (["b"] if join is None else ["a", "b", "c"]):
        o = StageExecution.create("stage-" + ref, ref.upper(), ref)
        o.execution = wf
        o.context = {"log": []}
        if ref == "b":
            ot = TaskExecution.create("TB", "shell")
            ot.id = _tid(900000)
            o.tasks = [ot]
        others.append(o)
    wf.stages = [st] + others
    store.store(wf)
    store.close()
    _TEMPLATES[spec_key] = (path, st.id, {o.ref_id: o.id for o in others})
    return _TEMPLATES[spec_key]


def _apply_mod(stage, mod):
    from stabilize.models.status import WorkflowStatus
    from stabilize.models.task import TaskExecution
    names = _statuses()
    if mod["status"] is not None:
        stage.status = WorkflowStatus[names[mod["status"]]]
    if mod["tag"] is not None:
        stage.context.setdefault("log", []).append(mod["tag"])
    setm = {}
    for tid, code in mod["set"]:
        setm.setdefault(_tid(tid), code)            # first binding wins (assocZ)
    for t in stage.tasks:
        if t.id in setm:
            t.status = WorkflowStatus[names[setm[t.id]]]
    for tid, code in mod["new"]:
        if not any(t.id == _tid(tid) for t in stage.tasks):
            t = TaskExecution.create("N%d" % tid, "shell")
            t.id = _tid(tid)
            t.status = WorkflowStatus[names[code]]
            t.stage = stage
            stage.tasks.append(t)


def _read_row(conn, sid):
    r = conn.execute("SELECT version, status, context FROM stage_executions WHERE id = ?", (sid,)).fetchone()
    ts = conn.execute("SELECT id, version, status FROM task_executions WHERE stage_id = ? ORDER BY id", (sid,)).fetchall()
    if r is None:
        return None
    names = _statuses()
    ctx = json.loads(r[2])
    log = list(ctx.get("log", [])) + [REF_TAG[x] for x in ctx.get("_completed_branches", [])] \
        + [int(d["signal_name"]) for d in ctx.get("_buffered_signals", [])]
    row = {"ver": r[0], "status": names.index(r[1]), "log": log,
           "tasks": [[int(t[0][1:]), t[1], names.index(t[2])] for t in ts]}
    if "_signal_name" in ctx:
        row["sig"] = ctx["_signal_name"]
    return row


def _read_msgs(conn) -> list:
    return sorted(r[0] for r in conn.execute("SELECT message_type FROM queue_messages").fetchall())


class RecTxn:
    """observes AtomicTransaction.store_stage of a real handler (delegates everything)"""

    def __init__(self, txn, i, sid, out):
        self._t, self._i, self.stored, self._sid, self._out = txn, i, False, sid, out

    def __getattr__(self, name):
        return getattr(self._t, name)

    def store_stage(self, stage, expected_phase=None):
        if stage.id == self._sid:
            self._out["bases"][self._i].append(stage.version)
            self.stored = True
        return self._t.store_stage(stage, expected_phase=expected_phase)

class RecRepo:
    """observes the store calls of a real handler: per-attempt base version and outcome"""

    def __init__(self, store, sid, out, i):
        self._store, self._sid, self._out, self._i = store, sid, out, i

    def __getattr__(self, name):
        return getattr(self._store, name)

    def store_stage(self, stage, expected_phase=None):
        from stabilize.errors import ConcurrencyError
        mine = stage.id == self._sid
        if mine:
            self._out["bases"][self._i].append(stage.version)
        try:
            self._store.store_stage(stage, expected_phase=expected_phase)
        except ConcurrencyError:
            if mine:
                self._out["results"][self._i].append("conc")
            raise
        if mine:
            self._out["results"][self._i].append("ok")

    def transaction(self, queue=None):
        import contextlib
        from stabilize.errors import ConcurrencyError
        rec_i, store, sid, out = self._i, self._store, self._sid, self._out

        @contextlib.contextmanager
        def cm():
            rec = None
            try:
                with store.transaction(queue) as txn:
                    rec = RecTxn(txn, rec_i, sid, out)
                    yield rec
            except ConcurrencyError:
                if rec is not None and rec.stored:
                    out["results"][rec_i].append("conc")
                raise
            if rec is not None and rec.stored:
                out["results"][rec_i].append("ok")
        return cm()

def engine_call(store, sid, out, i: int, w: dict):
    """run the REAL handler code for worker i (its own retry loop included)"""
    import logging
    import resilient_circuit.retry as rr
    rr.sleep = lambda s_: None                               # backoff delays are irrelevant under the scheduler
    logging.getLogger("stabilize").setLevel(logging.CRITICAL + 1)
    eng = w["engine"]
    repo = RecRepo(store, sid, out, i)
    if eng["kind"] == "join":
        from stabilize.handlers.complete_stage.handler import CompleteStageHandler
        h = CompleteStageHandler(queue=None, repository=repo)
        return lambda: h._update_join_tracking(eng["_up"], [eng["_down"]])
    from stabilize.queue.messages import CancelStage, SignalStage
    wf_id = eng["_down"].execution.id
    if eng["kind"] == "signal":
        from stabilize.handlers.signal_stage import SignalStageHandler
        h = SignalStageHandler(queue=None, repository=repo)
        m = SignalStage(execution_type="PIPELINE", execution_id=wf_id, stage_id=sid,
                        signal_name=str(eng["name"]), signal_data={"n": eng["name"]}, persistent=True)
        m.message_id = "sig-%d" % i
        return lambda: h.handle(m)
    if eng["kind"] == "suspend":       # RunTaskHandler._process_result_safely with a SUSPENDED task result
        from stabilize.handlers.run_task.handler import RunTaskHandler
        from stabilize.queue.messages import RunTask
        from stabilize.tasks.registry import TaskRegistry
        from stabilize.tasks.result import TaskResult
        h = RunTaskHandler(queue=None, repository=repo, task_registry=TaskRegistry())
        m = RunTask(execution_type="PIPELINE", execution_id=wf_id, stage_id=sid, task_id=_tid(eng["task"]), task_type="shell")
        m.message_id = "run-%d" % i
        return lambda: h._process_result_safely(sid, _tid(eng["task"]), TaskResult.suspend(), m)
    if eng["kind"] == "complete_task":
        from stabilize.handlers.complete_task import CompleteTaskHandler
        from stabilize.models.status import WorkflowStatus
        from stabilize.queue.messages import CompleteTask
        h = CompleteTaskHandler(queue=None, repository=repo)
        m = CompleteTask(execution_type="PIPELINE", execution_id=wf_id, stage_id=sid, task_id=_tid(eng["task"]),
                         status=WorkflowStatus.SUCCEEDED)
        m.message_id = "ct-%d" % i
        return lambda: h.handle(m)
    from stabilize.handlers.cancel_stage import CancelStageHandler
    h = CancelStageHandler(queue=None, repository=repo)
    m = CancelStage(execution_type="PIPELINE", execution_id=wf_id, stage_id=sid)
    m.message_id = "can-%d" % i
    return lambda: h.handle(m)



def real_run(spec: dict, chooser, base: Path) -> dict:
    """Run the workers of `spec` as real threads under the scheduler.  Returns trace, outcomes, final rows, history."""
    global _SCHED
    lib.ensure_repo_on_path()
    os.environ["STABILIZE_SQLITE_BUSY_TIMEOUT_MS"] = "1500"
    from stabilize.errors import ConcurrencyError
    from stabilize.persistence.sqlite.store import SqliteWorkflowStore
    key = json.dumps([spec["tasks"], spec["status0"], spec.get("join")])
    tpl, sid, other_ids = _template(key, spec["tasks"], spec["status0"], base, spec.get("join"))
    other_sid = other_ids["b"]
    path = base / ("run-%d-%d.db" % (os.getpid(), real_run.counter))
    real_run.counter += 1
    shutil.copyfile(tpl, path)
    sqlite3.connect = _patched_connect
    names = _statuses()
    n = len(spec["workers"])
    out: dict = {"results": [[] for _ in range(n)], "bases": [[] for _ in range(n)], "crash": [None] * n}
    try:
        store = SqliteWorkflowStore(f"sqlite:///{path}")
        sched = Scheduler(n, chooser)
        ready = threading.Barrier(n + 1)

        def worker(i: int, w: dict):
            _tl.idx, _tl.armed, _tl.epilogue = i, False, False
            try:
                sched.conns[i] = store._get_connection()     # open + PRAGMAs before scheduling starts
                call = None
                if w.get("engine"):
                    w["engine"]["_down"] = store.retrieve_stage(sid)
                    if w["engine"]["kind"] == "join":
                        w["engine"]["_up"] = store.retrieve_stage(other_ids[w["engine"]["ref"]])
                    call = engine_call(store, sid, out, i, w)
                ready.wait()
                _tl.armed = True
                if call is not None:
                    try:
                        call()
                    except ConcurrencyError:
                        pass                                  # budget exhausted: what the queue processor would reschedule
                    except (sqlite3.Error, ValueError) as e:
                        out["results"][i].append("other")
                        out["crash"][i] = repr(e)[:200]
                for _attempt in range(0 if call is not None else w["tries"]):
                    try:
                        stage = store.retrieve_stage(sid)
                        out["bases"][i].append(stage.version)
                        ph = w["phase"]
                        phase = None if ph[0] == "none" else (stage.status.name if ph[0] == "snap" else names[ph[1]])
                        _apply_mod(stage, w["mod"])
                        if w.get("poison") and stage.tasks:
                            stage.tasks[0].version += 5      # a snapshot retrieve_stage can not produce (Occ.corrupt)
                        if w["variant"] == "plain":
                            store.store_stage(stage, expected_phase=phase)
                        else:
                            with store.transaction(None) as txn:
                                txn.store_stage(stage, expected_phase=phase)
                        out["results"][i].append("ok")
                        break
                    except ConcurrencyError:
                        out["results"][i].append("conc")
                    except (sqlite3.Error, ValueError) as e:
                        out["results"][i].append("other")
                        out["crash"][i] = repr(e)[:200]
                        break
                _tl.epilogue = True
                store.mark_message_processed("ep-%d" % i)
            except Abort:
                out["crash"][i] = "aborted"
            except BaseException as e:  # noqa
                out["crash"][i] = "worker crashed: " + repr(e)[:300]
            finally:
                _tl.armed = False
                try:
                    c = sched.conns.get(i)
                    if c is not None and out["crash"][i] == "aborted":
                        c.rollback()
                except Exception:
                    pass
                if w.get("engine"):
                    w["engine"].pop("_down", None)
                    w["engine"].pop("_up", None)
                sched.done(i)

        _SCHED = sched
        threads = [threading.Thread(target=worker, args=(i, w), daemon=True) for i, w in enumerate(spec["workers"])]
        for t in threads:
            t.start()
        ready.wait()
        obs_conn = _ORIG_CONNECT(str(path), timeout=2)
        history = [_read_row(obs_conn, sid)]
        other0 = _read_row(obs_conn, other_sid)

        def observe(ev):
            history.append(_read_row(obs_conn, sid))

        sched.drive(observe)
        for t in threads:
            t.join(5)
        out["trace"] = [[i, k] for i, k in sched.trace]
        out["enabled"] = sched.enabled_log
        out["error"] = sched.error
        out["history"] = history            # committed row before the first step and after every step
        out["final"] = _read_row(obs_conn, sid)
        out["msgs"] = _read_msgs(obs_conn)
        out["other_unchanged"] = (_read_row(obs_conn, other_sid) == other0)
        out["open_txn_left"] = [i for i, c in sched.conns.items() if c.in_transaction]
        obs_conn.close()
        for c in sched.conns.values():
            try:
                c.close()
            except Exception:
                pass
        store.close()
    finally:
        _SCHED = None
        sqlite3.connect = _ORIG_CONNECT
        for ext in ("", "-journal", "-wal", "-shm"):
            try:
                os.unlink(str(path) + ext)
            except FileNotFoundError:
                pass
    return out


real_run.counter = 0


def serial_run(spec: dict, order: list[int], base: Path) -> dict:
    """The same REAL handler calls, one after the other in `order`, on a fresh copy: the sequential specification."""
    lib.ensure_repo_on_path()
    from stabilize.errors import ConcurrencyError
    from stabilize.persistence.sqlite.store import SqliteWorkflowStore
    key = json.dumps([spec["tasks"], spec["status0"], spec.get("join")])
    tpl, sid, other_ids = _template(key, spec["tasks"], spec["status0"], base, spec.get("join"))
    path = base / ("ser-%d-%d.db" % (os.getpid(), real_run.counter))
    real_run.counter += 1
    shutil.copyfile(tpl, path)
    n = len(spec["workers"])
    out: dict = {"results": [[] for _ in range(n)], "bases": [[] for _ in range(n)], "crash": [None] * n}
    store = SqliteWorkflowStore(f"sqlite:///{path}")
    try:
        for i in order:
            w = json.loads(json.dumps(spec["workers"][i]))
            w["engine"]["_down"] = store.retrieve_stage(sid)
            if w["engine"]["kind"] == "join":
                w["engine"]["_up"] = store.retrieve_stage(other_ids[w["engine"]["ref"]])
            try:
                engine_call(store, sid, out, i, w)()
            except ConcurrencyError:
                pass
        conn = store._get_connection()
        return {"final": _read_row(conn, sid), "msgs": _read_msgs(conn)}
    finally:
        store.close()
        for ext in ("", "-journal", "-wal", "-shm"):
            try:
                os.unlink(str(path) + ext)
            except FileNotFoundError:
                pass


def serial_monitor(spec: dict, r: dict, base: Path, cache: dict) -> list[tuple[str, str]]:
    """Monitor for pairs of real handlers whose writes depend on what they read (no fixed Occ program): the outcome
    of the concurrent run must be the outcome of running the same handlers one after the other, in an order that
    agrees with the order in which their saves were committed (no lost update, no half-applied update)."""
    import itertools
    bad = [b for b in monitors(spec, r) if b[0] in ("scheduler-error", "worker-crash", "double-success", "failed-write-visible",
                                                     "version-decreased", "version-not-bumped", "open-transaction-left",
                                                     "bystander-changed")]
    if bad and bad[0][0] in ("scheduler-error", "worker-crash"):
        return bad
    n = len(spec["workers"])
    commit_order = r.get("commit_order", [])
    got = {"final": r["final"], "msgs": r["msgs"]}
    cands = []
    for perm in itertools.permutations(range(n)):
        if [i for i in perm if i in commit_order] != commit_order:
            continue
        if perm not in cache:
            cache[perm] = serial_run(spec, list(perm), base)
        cands.append((perm, cache[perm]))
        if cache[perm] == got:
            return bad
    bad.append(("not-serializable", "the concurrent run ended in %s; committed order %s; the serial executions consistent with it "
                                    "end in %s" % (got, commit_order, [(p_, c) for p_, c in cands][:3])))
    return bad


# ---------------------------------------------------------------------------------------------------------
# exploring schedules
# ---------------------------------------------------------------------------------------------------------

def _replay_chooser(choices):
    def ch(cand, pos):
        if pos < len(choices) and choices[pos] in cand:
            return choices[pos]
        return cand[0]
    return ch


def explore_all(spec: dict, base: Path, limit: int, root=None, branch_from: int = 0, branch_until: int | None = None):
    """Stateless DFS over every maximal schedule of the real threads (each run re-executes from scratch).
    `root` fixes the first choices; alternatives are explored at positions branch_from <= pos < branch_until."""
    runs, stack, complete = [], [list(root or [])], True
    while stack:
        if len(runs) >= limit:
            complete = False
            break
        prefix = stack.pop()
        r = real_run(spec, _replay_chooser(prefix), base)
        runs.append(r)
        choices = [t[0] for t in r["trace"]]
        hi = len(r["enabled"]) if branch_until is None else min(branch_until, len(r["enabled"]))
        for pos in range(max(len(prefix), branch_from), hi):
            for alt in r["enabled"][pos]:
                if alt != choices[pos]:
                    stack.append(choices[:pos] + [alt])
    return runs, complete


def explore_random(spec: dict, base: Path, count: int, seed: int) -> list[dict]:
    import random
    rng = random.Random(seed)
    runs = []
    for k in range(count):
        mode = k % 3
        if mode == 0:
            ch = lambda cand, pos: rng.choice(cand)                         # uniform
        elif mode == 1:
            order = list(range(len(spec["workers"])))
            rng.shuffle(order)
            sticky = {"cur": order[0]}

            def ch(cand, pos, sticky=sticky):                                 # few preemptions: stay on a thread, switch rarely
                if sticky["cur"] not in cand or rng.random() < 0.25:
                    sticky["cur"] = rng.choice(cand)
                return sticky["cur"]
        else:
            ch = lambda cand, pos: cand[pos % len(cand)]                     # round robin: maximal interleaving of reads before writes
        runs.append(real_run(spec, ch, base))
    return runs


SPLIT_DEPTH = 6


def _job(args):
    kind, spec, limit, seed = args[:4]
    base = lib.scratch_dir("c07")
    try:
        if kind == "all":
            runs, complete = explore_all(spec, base, limit)
        elif kind == "roots":        # first stage of a split exhaustive exploration: all distinct prefixes of length SPLIT_DEPTH
            runs, complete = explore_all(spec, base, limit, branch_until=SPLIT_DEPTH)
        elif kind == "subtree":      # second stage: everything below one prefix
            runs, complete = explore_all(spec, base, limit, root=args[4], branch_from=SPLIT_DEPTH)
        else:
            runs, complete = explore_random(spec, base, limit, seed), False
        if spec.get("monitor_only"):
            cache: dict = {}
            for r in runs:
                r["serial_bad"] = serial_monitor(spec, r, base, cache)
        return spec, runs, complete
    finally:
        global _TEMPLATES
        _TEMPLATES = {}
        lib.rm_rf(base)


def run_jobs(jobs) -> list:
    """jobs: (kind, spec, limit, seed, family).  'split' jobs are explored exhaustively in two parallel stages.
    Returns [(family, kind, spec, runs, complete)]."""
    out = []
    with ProcessPoolExecutor(max_workers=min(lib.NPROC, 16)) as ex:
        plain = [j for j in jobs if j[0] != "split"]
        split = [j for j in jobs if j[0] == "split"]
        f_plain = [ex.submit(_job, (j[0], j[1], j[2], j[3])) for j in plain]
        f_roots = [ex.submit(_job, ("roots", j[1], 5000, 0)) for j in split]
        subs = []
        for j, f in zip(split, f_roots):
            spec, runs, _ = f.result()
            roots = sorted({tuple(t[0] for t in r["trace"][:SPLIT_DEPTH]) for r in runs})
            subs.append((j, [ex.submit(_job, ("subtree", j[1], j[2], 0, list(rt))) for rt in roots]))
        for j, f in zip(plain, f_plain):
            spec, runs, complete = f.result()
            out.append((j[4], j[0], spec, runs, complete))
        for j, fs in subs:
            runs, complete = [], True
            for f in fs:
                _, rs, c = f.result()
                runs += rs
                complete = complete and c
            out.append((j[4], "all", j[1], runs, complete))
    return out


# ---------------------------------------------------------------------------------------------------------
# implementation-side monitors: the property evaluated on the real trace
# ---------------------------------------------------------------------------------------------------------

def _expected_view(spec: dict, order: list[int]) -> dict:
    status = spec["status0"]
    log: list[int] = []
    tasks = [[tid, code] for tid, code in spec["tasks"]]
    for i in order:
        m = spec["workers"][i]["mod"]
        if m["status"] is not None:
            status = m["status"]
        if m["tag"] is not None:
            log = log + [m["tag"]]
        setm = {}
        for tid, code in m["set"]:
            setm.setdefault(tid, code)
        tasks = [[tid, setm.get(tid, code)] for tid, code in tasks]
        for tid, code in m["new"]:
            if not any(t[0] == tid for t in tasks):
                tasks.append([tid, code])
    return {"status": status, "log": log, "tasks": sorted(tasks)}


def monitors(spec: dict, r: dict) -> list[tuple[str, str]]:
    """(signature, description) for every way the real run contradicts the property."""
    bad: list[tuple[str, str]] = []
    if r.get("error"):
        bad.append(("scheduler-error", r["error"]))
        return bad
    for i, c in enumerate(r["crash"]):
        if c is not None and r["results"][i][-1:] != ["other"]:
            bad.append(("worker-crash", f"worker {i}: {c}"))
    if bad:
        return bad
    trace, hist, res, bases = r["trace"], r["history"], r["results"], r["bases"]
    n = len(spec["workers"])
    # M1: of the saves based on one version at most one succeeds
    by_ver: dict[int, list[int]] = {}
    for i in range(n):
        for a, out in enumerate(res[i]):
            if out == "ok" and a < len(bases[i]):
                by_ver.setdefault(bases[i][a], []).append(i)
    for v, ws in by_ver.items():
        if len(ws) > 1:
            bad.append(("double-success", f"writers {ws} all saved successfully on top of version {v}"))
    # M3/M4: the committed row changes only at the COMMIT of an attempt that then reports success, by exactly one version
    attempt_no = [0] * n
    commit_order: list[int] = []
    for k, (i, kind) in enumerate(trace):
        before, after = hist[k], hist[k + 1]
        if kind == "S":
            a = attempt_no[i]
            if a < len(bases[i]) and bases[i][a] != before["ver"]:
                bad.append(("stale-retry", f"writer {i} attempt {a} works on version {bases[i][a]} but the committed "
                                           f"version at its read was {before['ver']}"))
        if after != before:
            if after["ver"] < before["ver"] or any(
                    ta[1] < tb[1] for ta in after["tasks"] for tb in before["tasks"] if ta[0] == tb[0]):
                bad.append(("version-decreased", f"step {k} {kind} of writer {i}: version went backwards"))
            a = attempt_no[i]
            ok_attempt = a < len(res[i]) and res[i][a] == "ok"
            if kind != "C" or not ok_attempt:
                bad.append(("failed-write-visible", f"step {k} ({kind}) of writer {i} changed the committed row although "
                                                    f"that save did not report success: {before} -> {after}"))
            elif after["ver"] != before["ver"] + 1:
                bad.append(("version-not-bumped", f"commit of writer {i} moved the version {before['ver']} -> {after['ver']}"))
            if kind == "C" and after["ver"] != before["ver"]:
                commit_order.append(i)
        elif kind == "C" and attempt_no[i] < len(res[i]) and res[i][attempt_no[i]] == "ok":
            bad.append(("success-not-committed", f"writer {i} reported success but its commit changed nothing"))
        if kind == "U" and attempt_no[i] < len(res[i]) and res[i][attempt_no[i]] != "ok":
            attempt_no[i] += 1
        if kind == "C":
            attempt_no[i] += 1
    # M2: no lost update — the final row is the composition of the successful modifications in commit order
    succeeded = [i for i in range(n) if "ok" in res[i]]
    final = r["final"]
    if sorted(commit_order) != sorted(succeeded):
        bad.append(("success-set-mismatch", f"writers reporting success {succeeded}, writers whose commit changed the row {commit_order}"))
    exp = _expected_view(spec, commit_order)
    got = {"status": final["status"], "log": final["log"], "tasks": sorted([t[0], t[2]] for t in final["tasks"])}
    if got != exp:
        lost = [spec["workers"][i]["mod"]["tag"] for i in succeeded
                if spec["workers"][i]["mod"]["tag"] is not None and spec["workers"][i]["mod"]["tag"] not in final["log"]]
        sig = "lost-update" if lost or got["tasks"] != exp["tasks"] or got["status"] != exp["status"] else "phantom-update"
        bad.append((sig, f"final row {got} differs from the successful modifications applied in commit order "
                         f"{commit_order}: {exp} (lost tags {lost})"))
    if final["ver"] != len(commit_order):
        bad.append(("version-count", f"final version {final['ver']} after {len(commit_order)} successful saves"))
    for i in range(n):
        if not res[i] or (res[i][-1] == "conc" and len(res[i]) < spec["workers"][i]["tries"]):
            bad.append(("retry-budget", f"writer {i} stopped after {res[i]} with {spec['workers'][i]['tries']} attempts allowed"))
    if r["open_txn_left"]:
        bad.append(("open-transaction-left", f"connections of writers {r['open_txn_left']} still in a transaction"))
    if not r["other_unchanged"]:
        bad.append(("bystander-changed", "another stage's row or task changed"))
    r["commit_order"] = commit_order
    return bad


# ---------------------------------------------------------------------------------------------------------
# printing a real run as an Occ.case
# ---------------------------------------------------------------------------------------------------------
_RES = {"ok": "Ok", "conc": "ConcErr", "other": "OtherErr"}
_PC = {"S": "AtS", "T": "AtT", "U": "AtU", "C": "AtC", "E": "AtE"}


def _cq_pairs(ps):
    return cq_list("(%s, %s)" % (cq_Z(a), cq_Z(b)) for a, b in ps)


def case_term(spec: dict, r: dict) -> str:
    stages = "[mk_srow 1 0 %s []; mk_srow 2 0 0 []]" % cq_Z(spec["status0"])
    tasks = cq_list(["mk_trow %s 1 0 %s" % (cq_Z(t), cq_Z(c)) for t, c in spec["tasks"]] + ["mk_trow 900000 2 0 0"])
    progs = []
    for w in spec["workers"]:
        ph = w["phase"]
        phs = "NoPhase" if ph[0] == "none" else ("PhaseSnap" if ph[0] == "snap" else "(PhaseFixed %s)" % cq_Z(ph[1]))
        m = w["mod"]
        mod = "(mk_mod %s %s %s %s)" % ("None" if m["status"] is None else "(Some %s)" % cq_Z(m["status"]),
                                        "None" if m["tag"] is None else "(Some %s)" % cq_Z(m["tag"]),
                                        _cq_pairs(m["set"]), _cq_pairs(m["new"]))
        progs.append("mk_prog %s %s %s %s %s" % ("Plain" if w["variant"] == "plain" else "Txn", phs, mod, cq_nat(w["tries"]),
                                                 "true" if w.get("poison") else "false"))
    sched = cq_list("(%s, %s)" % (cq_nat(i), _PC[k]) for i, k in r["trace"])
    f = r["final"]
    obs = "(mk_obs %s %s %s %s %s %s)" % (
        cq_list(cq_list(_RES[x] for x in rs) for rs in r["results"]), cq_Z(f["ver"]), cq_Z(f["status"]),
        cq_list(cq_Z(x) for x in f["log"]), cq_list("mk_tsnap %s %s %s" % (cq_Z(a), cq_Z(b), cq_Z(c)) for a, b, c in f["tasks"]),
        cq_list(cq_nat(i) for i in r.get("commit_order", [])))
    return "mk_case 1 (mk_db %s %s) %s %s %s" % (stages, tasks, cq_list(progs), sched, obs)


# ---------------------------------------------------------------------------------------------------------
# generator
# ---------------------------------------------------------------------------------------------------------
API = [("plain", ["none"]), ("plain", ["snap"]), ("txn", ["none"]), ("txn", ["snap"])]


def _mod(rng, i: int, tasks, rich: bool) -> dict:
    ids = [t for t, _ in tasks]
    m = {"status": None, "tag": 100 * (i + 1) + rng.randrange(10), "set": [], "new": []}
    if rich:
        if rng.random() < 0.5:
            m["status"] = rng.choice([1, 2, 3, 5, 6])
        for t in ids:
            if rng.random() < 0.5:
                m["set"].append([t, rng.randrange(0, 8)])
        if rng.random() < 0.2 and ids:
            m["set"].append([rng.choice(ids), rng.randrange(0, 8)])          # duplicate binding: first wins
        if rng.random() < 0.5:
            m["new"].append([50 + (rng.randrange(3) if rng.random() < 0.4 else 10 * (i + 1)), rng.randrange(0, 8)])
    return m


def _gen_budgets() -> tuple[int, int]:
    """(attempts of retry_on_concurrency_error, attempts of _update_join_tracking) as the translator read them"""
    import re
    a = re.search(r"concurrency_max_retries : Z := (\d+)%Z", (lib.COQ / "gen" / "Gen_Config.v").read_text())
    b = re.search(r"join_tracking_max_tries : Z := (\d+)%Z", (lib.COQ / "gen" / "Gen_Occ.v").read_text())
    return (int(a.group(1)) + 1 if a else 4), (int(b.group(1)) if b else 5)


def engine_worker(kind: str, tasks, arg=None) -> dict:
    """A worker that runs REAL handler code, with its description as an Occ program."""
    names = _statuses()
    h_tries, j_tries = _gen_budgets()
    if kind == "join":      # CompleteStageHandler._update_join_tracking(upstream `arg`, [join stage])
        return {"variant": "plain", "phase": ["snap"], "mod": {"status": None, "tag": REF_TAG[arg], "set": [], "new": []},
                "tries": j_tries, "engine": {"kind": "join", "ref": arg}}
    if kind == "signal":    # SignalStageHandler.handle(persistent signal `arg`) on a stage that is not SUSPENDED: buffers it
        return {"variant": "txn", "phase": ["none"], "mod": {"status": None, "tag": arg, "set": [], "new": []},
                "tries": h_tries, "engine": {"kind": "signal", "name": arg}}
    can = names.index("CANCELED")   # CancelStageHandler.handle
    live = (names.index("NOT_STARTED"), names.index("RUNNING"))
    return {"variant": "txn", "phase": ["none"],
            "mod": {"status": can, "tag": None, "set": [[t, can] for t, c in tasks if c in live], "new": []},
            "tries": h_tries, "engine": {"kind": "cancel"}}


def gen_engine_specs(ctx) -> list:
    rng = ctx.rng
    thorough = ctx.tier == "thorough"
    names = _statuses()
    run_, ns = names.index("RUNNING"), names.index("NOT_STARTED")
    tasks = [[1, run_], [2, ns]]
    jobs = []
    for join in ("DISCRIMINATOR", "N_OF_M"):
        spec = {"tasks": tasks, "status0": ns, "join": join,
                "workers": [engine_worker("join", tasks, "a"), engine_worker("join", tasks, "b")]}
        jobs.append(("all", spec, 5000, 0, "engine:join-tracking-2"))
        spec = {"tasks": tasks, "status0": ns, "join": join,
                "workers": [engine_worker("join", tasks, r) for r in ("a", "b", "c")]}
        if thorough:
            jobs.append(("split", spec, 100000, 0, "engine:join-tracking-3-all"))
        else:
            jobs.append(("random", spec, 60, rng.randrange(1 << 30), "engine:join-tracking-3"))
    pairs = [("signal", 111), ("signal", 222)], [("signal", 111), ("cancel", None)], [("cancel", None), ("signal", 222)]
    for pr in pairs:
        spec = {"tasks": tasks, "status0": run_, "workers": [engine_worker(k, tasks, a) for k, a in pr]}
        jobs.append(("all", spec, 5000, 0, "engine:" + "-vs-".join(k for k, _ in pr)))
    spec = {"tasks": tasks, "status0": run_,
            "workers": [engine_worker("signal", tasks, 111), engine_worker("cancel", tasks), engine_worker("signal", tasks, 222)]}
    # (all interleavings of these three 4-attempt handlers are ~160 000 runs: sampled instead)
    jobs.append(("random", spec, 900 if thorough else 90, rng.randrange(1 << 30), "engine:signal-cancel-signal"))
    # pairs whose writes depend on what they read (conditional handlers): checked against serial execution of the
    # same real handlers instead of an Occ program
    def mo(kind, **kw):
        return {"variant": "txn", "phase": ["none"], "mod": {"status": None, "tag": None, "set": [], "new": []}, "tries": 1,
                "engine": dict(kind=kind, **kw)}
    sus = names.index("SUSPENDED")
    for fam, status0, tks, ws in (
            ("engine:signal-vs-suspending-result", run_, tasks, [mo("signal", name=111), mo("suspend", task=1)]),
            ("engine:signal-vs-suspending-result-2sig", run_, tasks, [mo("signal", name=111), mo("suspend", task=1), mo("signal", name=222)]),
            ("engine:cancel-vs-complete-task", run_, tasks, [mo("cancel"), mo("complete_task", task=1)]),
            ("engine:cancel-vs-complete-task-vs-signal", run_, tasks, [mo("cancel"), mo("complete_task", task=1), mo("signal", name=111)]),
            ("engine:signal-on-suspended-vs-cancel", sus, [[1, sus], [2, ns]], [mo("signal", name=111), mo("cancel")])):
        spec = {"tasks": tks, "status0": status0, "monitor_only": True, "workers": ws}
        if len(ws) == 2:
            jobs.append(("all", spec, 5000, 0, fam))
        else:
            jobs.append(("random", spec, 200 if thorough else 60, rng.randrange(1 << 30), fam))
    return jobs


def gen_specs(ctx) -> list[tuple[str, dict, int, int, str]]:
    """(kind, spec, limit, seed, family)"""
    rng = ctx.rng
    thorough = ctx.tier == "thorough"
    jobs = gen_engine_specs(ctx)
    base_tasks = [[1, 0], [2, 1]]
    # family A: every ordered pair of the 4 public API variants, 2 writers, one attempt each — ALL interleavings
    for a in API:
        for b in API:
            spec = {"tasks": base_tasks, "status0": 1, "workers": [
                {"variant": a[0], "phase": a[1], "mod": _mod(rng, 0, base_tasks, True), "tries": 1},
                {"variant": b[0], "phase": b[1], "mod": _mod(rng, 1, base_tasks, True), "tries": 1}]}
            jobs.append(("all", spec, 4000, 0, "pair-1try-all"))
    # family B: the loser retries on fresh data (2 attempts; 3 and the engine's real budgets in thorough) — ALL interleavings
    combos = [(a, b) for a in API for b in API]
    pick = combos if thorough else [combos[k] for k in (0, 3, 6, 9, 10, 15)] + [rng.choice(combos) for _ in range(2)]
    for a, b in pick:
        spec = {"tasks": base_tasks, "status0": 1, "workers": [
            {"variant": a[0], "phase": a[1], "mod": _mod(rng, 0, base_tasks, True), "tries": 2},
            {"variant": b[0], "phase": b[1], "mod": _mod(rng, 1, base_tasks, True), "tries": 2}]}
        jobs.append(("all", spec, 20000 if thorough else 6000, 0, "pair-2tries-all"))
    # named corner cases
    corner = [
        ("phase-mismatch", {"tasks": base_tasks, "status0": 1, "workers": [
            {"variant": "plain", "phase": ["fixed", 4], "mod": _mod(rng, 0, base_tasks, False), "tries": 2},
            {"variant": "txn", "phase": ["fixed", 1], "mod": _mod(rng, 1, base_tasks, False), "tries": 2}]}),
        ("status-flip-vs-phase", {"tasks": base_tasks, "status0": 1, "workers": [
            {"variant": "txn", "phase": ["none"], "mod": {"status": 4, "tag": 101, "set": [], "new": []}, "tries": 1},
            {"variant": "plain", "phase": ["fixed", 1], "mod": {"status": None, "tag": 202, "set": [[1, 3]], "new": []}, "tries": 2}]}),
        ("same-new-task", {"tasks": base_tasks, "status0": 1, "workers": [
            {"variant": "plain", "phase": ["none"], "mod": {"status": None, "tag": 101, "set": [], "new": [[60, 1]]}, "tries": 2},
            {"variant": "txn", "phase": ["none"], "mod": {"status": None, "tag": 202, "set": [[60, 5]], "new": [[60, 2]]}, "tries": 2}]}),
        ("no-tasks", {"tasks": [], "status0": 0, "workers": [
            {"variant": "plain", "phase": ["snap"], "mod": {"status": 1, "tag": 101, "set": [], "new": [[70, 0]]}, "tries": 2},
            {"variant": "plain", "phase": ["snap"], "mod": {"status": 1, "tag": 202, "set": [], "new": [[71, 0]]}, "tries": 2}]}),
        ("join-tracking-budget", {"tasks": base_tasks, "status0": 0, "workers": [
            {"variant": "plain", "phase": ["snap"], "mod": {"status": None, "tag": 101, "set": [], "new": []}, "tries": 5},
            {"variant": "plain", "phase": ["snap"], "mod": {"status": None, "tag": 202, "set": [], "new": []}, "tries": 5}]}),
    ]
    for name, spec in corner:
        jobs.append(("all", spec, 20000 if thorough else 3000, 0, "corner:" + name))
    # poisoned snapshots (current stage version, stale task version — not obtainable from retrieve_stage):
    #  inside store.transaction() the task conflict must roll the whole save back (monitors on);
    #  the plain store_stage leaves the stage UPDATE pending (non-guarantee C1; correspondence only, monitors off)
    for variant, fam in (("txn", "poison-txn"), ("plain", "nonguarantee:poison-plain")):
        for other in (API[0], API[3]):
            spec = {"tasks": base_tasks, "status0": 1, "workers": [
                {"variant": variant, "phase": ["none"], "mod": _mod(rng, 0, base_tasks, False) | {"status": 3},
                 "tries": 2 if variant == "txn" else 1, "poison": True},
                {"variant": other[0], "phase": other[1], "mod": _mod(rng, 1, base_tasks, True), "tries": 2}]}
            jobs.append(("all", spec, 3000, 0, fam))
    # family C: three writers
    n3 = 40 if thorough else 12
    for k in range(n3):
        tasks = [[t + 1, rng.randrange(0, 4)] for t in range(rng.randrange(0, 4))]
        ws = []
        for i in range(3):
            a = rng.choice(API)
            ph = a[1] if rng.random() < 0.85 else ["fixed", rng.choice([1, 2])]
            ws.append({"variant": a[0], "phase": ph, "mod": _mod(rng, i, tasks, True),
                       "tries": rng.choice([1, 2, 2, 3, 4])})
        spec = {"tasks": tasks, "status0": rng.choice([0, 1, 2]), "workers": ws}
        jobs.append(("random", spec, 120 if thorough else 30, rng.randrange(1 << 30), "three-random"))
    # family D: three writers, ALL interleavings (split over the process pool)
    triples = [(API[0], API[3], API[1])] + ([(API[2], API[2], API[0])] + [tuple(rng.choice(API) for _ in range(3)) for _ in range(2)] if thorough else [])
    for tr in triples:
        spec = {"tasks": base_tasks, "status0": 1, "workers": [
            {"variant": v[0], "phase": v[1], "mod": _mod(rng, i, base_tasks, True), "tries": 1} for i, v in enumerate(tr)]}
        jobs.append(("split", spec, 100000, 0, "three-1try-all"))
    if thorough:
        for tr in triples[:2]:
            spec = {"tasks": base_tasks, "status0": 1, "workers": [
                {"variant": v[0], "phase": v[1], "mod": _mod(rng, i, base_tasks, True), "tries": 2} for i, v in enumerate(tr)]}
            jobs.append(("split", spec, 100000, 0, "three-2tries-all"))
    return jobs


# ---------------------------------------------------------------------------------------------------------
# run / search / replay
# ---------------------------------------------------------------------------------------------------------
REQ = "From Stab.model Require Import Occ."


def _retry_policy_calls() -> tuple[int, int]:
    """How many times retry_on_concurrency_error really calls a body that always conflicts (vs. Occ.handler_tries)."""
    lib.ensure_repo_on_path()
    import resilient_circuit.retry as rr
    from stabilize.errors import ConcurrencyError
    from stabilize.handlers.base import StabilizeHandler
    from stabilize.resilience.config import HandlerConfig

    class H(StabilizeHandler):
        message_type = None

        def handle(self, message):
            pass

    cfg = HandlerConfig()
    h = H(queue=None, repository=None, handler_config=cfg)
    calls = {"n": 0}

    def body():
        calls["n"] += 1
        raise ConcurrencyError("always")

    import logging
    lg = logging.getLogger("stabilize.handlers.base")
    lvl = lg.level
    lg.setLevel(logging.CRITICAL)
    saved = rr.sleep
    rr.sleep = lambda s: None
    try:
        try:
            h.retry_on_concurrency_error(body, "c07 probe")
            raised = False
        except ConcurrencyError:
            raised = True
    finally:
        rr.sleep = saved
        lg.setLevel(lvl)
    return calls["n"] if raised else -calls["n"], cfg.concurrency_max_retries


def _violation(spec, r, sig, what) -> Violation:
    return Violation(what=what, signature=sig,
                     replay={"kind": "schedule", "spec": spec, "choices": [t[0] for t in r.get("trace", [])],
                             "trace": r.get("trace"), "results": r.get("results"), "final": r.get("final"),
                             "how": "harness.props.c07.replay: real threads under the statement scheduler follow `choices`"})


class _Fault(Exception):
    pass


def rollback_reuse_histories() -> tuple[int, list[tuple[str, str, dict]]]:
    """Sequential histories around a ROLLED-BACK transaction whose stage object is used again (what TransactionHelper's
    retry does): writer A saves inside store.transaction and a fault rolls it back; optionally writer B commits a change;
    A saves the SAME object again.  With B in between A must get a ConcurrencyError and B's change must survive; without B
    A must succeed.  Monitor-only (not in Occ.v's vocabulary).  Returns (histories run, violations)."""
    lib.ensure_repo_on_path()
    from stabilize.errors import ConcurrencyError
    from stabilize.persistence.sqlite.store import SqliteWorkflowStore
    base = lib.scratch_dir("c07h")
    tasks = [[1, 1], [2, 0]]
    tpl, sid, _ = _template(json.dumps([tasks, 1, None]), tasks, 1, base)
    out, n = [], 0
    for b_kind in (None, "plain", "txn"):
        for a_second in ("txn", "plain"):
            for with_tasks in (False, True):
                n += 1
                path = base / ("h-%d-%d.db" % (os.getpid(), n))
                shutil.copyfile(tpl, path)
                _reset_manager()
                store = SqliteWorkflowStore(f"sqlite:///{path}")
                desc = {"b": b_kind, "a_second": a_second, "task_change": with_tasks}
                try:
                    a = store.retrieve_stage(sid)
                    _apply_mod(a, {"status": None, "tag": 101, "set": ([[1, 3]] if with_tasks else []), "new": []})
                    try:
                        with store.transaction(None) as txn:
                            txn.store_stage(a)
                            raise _Fault()
                    except _Fault:
                        pass
                    if b_kind:
                        b = store.retrieve_stage(sid)
                        _apply_mod(b, {"status": None, "tag": 202, "set": [], "new": []})
                        if b_kind == "plain":
                            store.store_stage(b)
                        else:
                            with store.transaction(None) as txn:
                                txn.store_stage(b)
                    try:
                        if a_second == "plain":
                            store.store_stage(a)
                        else:
                            with store.transaction(None) as txn:
                                txn.store_stage(a)
                        res2 = "ok"
                    except ConcurrencyError:
                        res2 = "conc"
                    row = _read_row(store._get_connection(), sid)
                    if b_kind and (res2 == "ok" or 202 not in row["log"]):
                        out.append(("lost-update:rollback-reuse",
                                    f"writer A's transaction was rolled back after store_stage, writer B then committed tag 202, and A's "
                                    f"second save of the SAME object returned {res2!r}: the row's log is {row['log']} - B's committed change "
                                    f"was overwritten without a ConcurrencyError (the rollback did not restore the object's version)", desc))
                    if not b_kind and res2 != "ok":
                        out.append(("spurious-conflict:rollback-reuse",
                                    f"after a rolled-back transaction the same object could not be saved again ({res2}) although nobody else wrote", desc))
                    if not b_kind and res2 == "ok" and 101 not in row["log"]:
                        out.append(("lost-own-write:rollback-reuse", f"the retried save reported ok but the row's log is {row['log']}", desc))
                finally:
                    store.close()
                    for ext in ("", "-journal", "-wal", "-shm"):
                        try:
                            os.unlink(str(path) + ext)
                        except FileNotFoundError:
                            pass
    return n, out


def run(ctx) -> RunResult:
    res = RunResult(rule="a run is non-trivial when at least one save failed with ConcurrencyError (a real conflict was "
                         "exercised); distinct = distinct (spec, executed schedule) pairs")
    nh = 0
    try:
        nh, hv = rollback_reuse_histories()
        res.evaluations += nh
        res.distinct_nontrivial += nh
        res.traces_validated += nh
        for sig, what, desc in hv:
            res.violations.append(Violation(what=what, signature=sig, replay={"kind": "rollback_reuse", "history": desc}))
        res.notes.append(f"{nh} rollback-then-reuse histories (monitor-only)")
    except Exception as e:  # noqa
        res.disagreements.append({"what": "rollback-reuse histories crashed", "detail": repr(e)[:400]})
    jobs = gen_specs(ctx)
    t0 = time.time()
    results = run_jobs(jobs)
    t_real = time.time() - t0
    cases, owners = [], []
    dist: dict = {"families": {}, "schedule_len": {}, "outcomes": {}, "variants": {}, "exhaustive_specs": 0, "truncated_specs": 0}
    seen = set()
    nontrivial = 0
    c1_seen = 0
    monitor_only_runs = 0
    for fam, kind, spec, runs, complete in results:
        dist["families"][fam] = dist["families"].get(fam, 0) + len(runs)
        if kind == "all":
            dist["exhaustive_specs" if complete else "truncated_specs"] += 1
        for w in spec["workers"]:
            key = w["variant"] + "/" + w["phase"][0]
            dist["variants"][key] = dist["variants"].get(key, 0) + len(runs)
        for r in runs:
            if spec.get("monitor_only"):
                for sig, what in r.get("serial_bad", []):
                    res.violations.append(_violation(spec, r, sig, what))
                monitor_only_runs += 1
                if any("conc" in x for x in r["results"]):
                    nontrivial += 1
                continue
            bad = monitors(spec, r)
            if fam.startswith("nonguarantee:"):
                # documented non-guarantee (coq/props/C07.v, Part C1): only scheduler/crash problems count here
                if any(sig == "failed-write-visible" for sig, _ in bad):
                    c1_seen += 1
                bad = [b for b in bad if b[0] in ("scheduler-error", "worker-crash")]
            for sig, what in bad:
                res.violations.append(_violation(spec, r, sig, what))
            if any(sig in ("scheduler-error", "worker-crash") for sig, _ in bad):
                res.disagreements.append({"what": "real run could not be driven", "detail": bad[0][1][:300], "spec": spec})
                continue
            key = json.dumps([spec, r["trace"]], sort_keys=True)
            if key in seen:
                continue
            seen.add(key)
            L = len(r["trace"])
            dist["schedule_len"][L] = dist["schedule_len"].get(L, 0) + 1
            oc = "/".join(sorted(",".join(x) for x in r["results"]))
            dist["outcomes"][oc] = dist["outcomes"].get(oc, 0) + 1
            if any("conc" in x for x in r["results"]):
                nontrivial += 1
            cases.append(case_term(spec, r))
            owners.append((spec, r))
            if len(res.samples) < 4 and any("conc" in x for x in r["results"]):
                res.samples.append({"workers": [[w["variant"], w["phase"], w["tries"]] for w in spec["workers"]],
                                    "schedule": "".join("%d%s " % (i, k) for i, k in r["trace"]).strip(),
                                    "results": r["results"], "final": r["final"]})
    t1 = time.time()
    failing, err = lib.coq_failing_indices(REQ, "check_case", "case", cases, "c07_cases", shard=150 if len(cases) < 4000 else 500, timeout=900)
    if err:
        res.disagreements.append({"what": "model evaluation failed", "detail": err[:800]})
    for i in failing[:10]:
        spec, r = owners[i]
        res.disagreements.append({"what": "Occ.run and the real threads differ on the same schedule", "spec": spec,
                                  "schedule": r["trace"], "real_results": r["results"], "real_final": r["final"]})
    # the retry budget of retry_on_concurrency_error vs. Occ.handler_tries, and the model's two constants
    calls, mr = _retry_policy_calls()
    rc, out = lib.coq_run(REQ + "\nEval vm_compute in (handler_tries, join_tracking_tries).\n", "c07_tries")
    import re as _re
    m = _re.search(r"=\s*\((\d+)%?n?a?t?,\s*(\d+)", out)
    if rc != 0 or not m:
        res.disagreements.append({"what": "could not evaluate Occ.handler_tries", "detail": out[-300:]})
    elif int(m.group(1)) != calls:
        res.disagreements.append({"what": "retry_on_concurrency_error attempts differ from the model",
                                  "real_calls": calls, "config_max_retries": mr, "model": int(m.group(1))})
        if calls <= 0:
            res.violations.append(Violation(
                what="retry_on_concurrency_error does not raise ConcurrencyError after its budget is exhausted",
                signature="retry-swallows", replay={"kind": "retry-probe", "calls": calls}))
    res.extra["engine_pairs_checked_against_serial_execution"] = monitor_only_runs
    res.evaluations = len(cases) + 1 + monitor_only_runs + nh
    res.traces_validated = len(cases)
    res.distinct_nontrivial = nontrivial
    res.exhaustive = dist["truncated_specs"] == 0
    dist["schedule_len"] = dict(sorted(dist["schedule_len"].items()))
    res.distribution = dist
    res.notes.append("real runs %d in %.1fs (16 processes), Coq re-computation of %d cases in %.1fs; "
                     "retry_on_concurrency_error calls=%d (max_retries=%d)" % (
                         sum(len(x[3]) for x in results), t_real, len(cases), time.time() - t1, calls, mr))
    res.extra["non_guarantee_C1_reproduced_on_real_code"] = c1_seen
    res.notes.append("non-guarantee C1 (plain store_stage with a corrupted in-memory task version publishes its stage UPDATE at the "
                     "thread's next commit) reproduced on the real code in %d runs; model and code agree on all of them" % c1_seen)
    if dist["truncated_specs"]:
        res.notes.append("%d exhaustive explorations were cut at their run limit" % dist["truncated_specs"])
    return res


def search(ctx, broken) -> list:
    """Proof or correspondence broke without a monitor firing: look harder (more schedules, more specs)."""
    found: list = []
    import random
    rng = random.Random(ctx.seed * 7919 + 7)

    class C:
        pass
    c2 = C()
    c2.rng, c2.tier, c2.seed = rng, "thorough", ctx.seed
    jobs = [j for j in gen_specs(c2) if j[0] != "split"][:80]
    for fam, kind, spec, runs, _ in run_jobs([(j[0], j[1], min(j[2], 3000), j[3], j[4]) for j in jobs]):
        for r in runs:
            for sig, what in (r.get("serial_bad", []) if spec.get("monitor_only") else monitors(spec, r)):
                found.append(_violation(spec, r, sig, what))
                if len(found) >= 5:
                    return found
    return found


def _replay_rollback_reuse(obj) -> bool:
    _, hv = rollback_reuse_histories()
    return not any(sig == obj.get("signature") for sig, _, _ in hv)


def replay(obj) -> bool:
    if (obj.get("replay") or {}).get("kind") == "rollback_reuse":
        return _replay_rollback_reuse(obj)
    r = obj["replay"]
    if r.get("kind") == "retry-probe":
        calls, _ = _retry_policy_calls()
        return calls > 0
    base = lib.scratch_dir("c07r")
    try:
        out = real_run(r["spec"], _replay_chooser(r["choices"]), base)
        bad = serial_monitor(r["spec"], out, base, {}) if r["spec"].get("monitor_only") else monitors(r["spec"], out)
        for sig, what in bad:
            print("  ", sig, ":", what[:300])
        return not bad
    finally:
        lib.rm_rf(base)
