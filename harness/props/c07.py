"""C07 — concurrent writers never silently overwrite each other.

Proofs: coq/props/C07.v over coq/model/Occ.v (the CAS of store_stage / upsert_task parameterised by the
statement shapes regenerated into coq/gen/Gen_Occ.v by harness/tr/occ.py).

Correspondence (this file): a statement-level scheduler for REAL threads.  `sqlite3.connect` is wrapped so that
every engine connection is a `Connection` subclass whose execute()/commit() block at the model-relevant
statements until the controller grants the step:
    S  SELECT * FROM stage_executions WHERE id = :id        (retrieve_stage: the stage row)
    T  SELECT * FROM task_executions WHERE stage_id = …     (retrieve_stage: its tasks — a separate snapshot)
    U  UPDATE stage_executions …  (first DML of store_stage; the task upserts follow without a break)
    C  COMMIT of an open write transaction
    E  the thread's next committing operation (store.mark_message_processed: INSERT OR IGNORE + COMMIT)
A thread whose next step is DML while another thread's write transaction is open is not enabled (it would
block on SQLite's lock).  Two or three real threads run retrieve_stage + modify + store_stage through the
public SqliteWorkflowStore API (plain / inside store.transaction(), with / without expected_phase, 1..k
attempts in a re-read/retry loop like _update_join_tracking), under every interleaving (2 writers) or random
schedules (3 writers).  The schedule actually executed, each writer's per-attempt outcome and the final row
(version, status, context log, task statuses and versions) are printed as a Coq term and re-computed with
Occ.run inside Coq (vm_compute); implementation-side monitors evaluate the property directly on the real trace.
"""
from __future__ import annotations

import json
import os
import shutil
import sqlite3
import threading
import time
from concurrent.futures import ProcessPoolExecutor
from pathlib import Path

from harness import lib
from harness.lib import RunResult, Violation, cq_Z, cq_list, cq_nat

PID = "C07"
COQ_TARGETS = ["props/C07.vo"]
THEOREMS = [
    "Stab.props.C07.C07_cas_exclusive",
    "Stab.props.C07.C07_failed_write_changes_nothing",
    "Stab.props.C07.C07_phase_guard",
    "Stab.props.C07.C07_frame",
    "Stab.props.C07.C07_linearizable",
    "Stab.props.C07.C07_one_success_per_version",
    "Stab.props.C07.C07_open_txn_is_empty",
    "Stab.props.C07.C07_retry_fresh",
    "Stab.props.C07.C07_versions_monotone",
    "Stab.props.C07.C07_bounded_retry",
]
TRUSTED_BASE = [
    "SQLite: a write transaction (first DML .. COMMIT) is atomic and excludes other writers; readers see only committed "
    "rows; PRIMARY KEY on stage_executions.id / task_executions.id (sampled by the statement scheduler on real threads)",
    "Python sqlite3 (legacy isolation_level ''): implicit BEGIN before DML, none before SELECT; thread-local connection "
    "shared by store and queue",
    "harness/tr/occ.py: reads the WHERE/SET shape of the four UPDATE stage_executions statements, of upsert_task and the "
    "commit/rollback placement from the AST into coq/gen/Gen_Occ.v (fail-closed)",
    "resilient_circuit.RetryWithBackoffPolicy calls the function max_retries + 1 times (checked on every run)",
    "ULID task ids are unique across stages (Occ theorems at run level: the tasks table holds the contended stage's tasks)",
]
ASSUMPTIONS = [
    "every reader loads the stage row before its task rows (retrieve_stage, retrieve, load_tasks_for_stages do)",
    "stage and task rows are written only through store_stage / AtomicTransaction.store_stage / insert_stage",
    "a write transaction is atomic at statement-scheduling granularity; thread scheduling below one SQL statement is not modelled",
    "run-level theorems: all contending workers target one stage row; modifications keep ids and versions (the code never edits them)",
    "not guaranteed (stated in coq/props/C07.v): progress under unbounded contention (after p_tries attempts the "
    "ConcurrencyError reaches the caller and the message is rescheduled); rollback of a failed PLAIN store_stage — its "
    "implicit transaction stays open (holding SQLite's write lock) until the thread's next commit, and is empty only "
    "because of the two assumptions above; concurrent first INSERTs of the same new stage id raise IntegrityError, not "
    "ConcurrencyError",
]

STATUSES = None  # list of WorkflowStatus names in enum order (status code = index)

# ---------------------------------------------------------------------------------------------------------
# statement scheduler
# ---------------------------------------------------------------------------------------------------------
_tl = threading.local()
_SCHED = None          # the active Scheduler (one per process at a time)
_ORIG_CONNECT = sqlite3.connect


class Abort(BaseException):
    pass


def _classify(sql: str) -> str | None:
    s = " ".join(sql.split())
    if s.startswith("SELECT * FROM stage_executions WHERE id = :id"):
        return "S"
    if s.startswith("SELECT * FROM task_executions WHERE stage_id = :stage_id"):
        return "T"
    if s.startswith("UPDATE stage_executions") or s.startswith("INSERT INTO stage_executions"):
        return "U"
    if s.startswith("INSERT OR IGNORE INTO processed_messages") and getattr(_tl, "epilogue", False):
        return "E"
    return None


class SchedConn(sqlite3.Connection):
    def execute(self, sql, *a):
        s, idx = _SCHED, getattr(_tl, "idx", None)
        if s is not None and idx is not None and getattr(_tl, "armed", False):
            k = _classify(sql)
            if k is not None:
                s.point(idx, k)
        return super().execute(sql, *a)

    def commit(self):
        s, idx = _SCHED, getattr(_tl, "idx", None)
        if s is not None and idx is not None and getattr(_tl, "armed", False) and self.in_transaction \
                and not getattr(_tl, "epilogue", False):
            s.point(idx, "C")
        return super().commit()


def _patched_connect(*a, **kw):
    kw.setdefault("factory", SchedConn)
    return _ORIG_CONNECT(*a, **kw)


class Scheduler:
    """Controller side: grant one step at a time; worker side: point()."""

    def __init__(self, n: int, chooser):
        self.n = n
        self.cv = threading.Condition()
        self.waiting: dict[int, str] = {}
        self.granted: int | None = None
        self.running: int | None = None
        self.finished: set[int] = set()
        self.conns: dict[int, sqlite3.Connection] = {}
        self.abort = False
        self.trace: list[tuple[int, str]] = []
        self.enabled_log: list[list[int]] = []
        self.chooser = chooser
        self.error: str | None = None

    # ---- worker side
    def point(self, idx: int, kind: str) -> None:
        with self.cv:
            self.waiting[idx] = kind
            if self.running == idx:
                self.running = None
            self.cv.notify_all()
            while self.granted != idx:
                if self.abort:
                    raise Abort()
                self.cv.wait(0.5)
            self.granted = None
            self.waiting.pop(idx, None)
            self.running = idx

    def done(self, idx: int) -> None:
        with self.cv:
            self.finished.add(idx)
            if self.running == idx:
                self.running = None
            self.cv.notify_all()

    # ---- controller side
    def _quiescent(self) -> bool:
        return self.running is None and self.granted is None and len(self.waiting) + len(self.finished) == self.n

    def drive(self, observe=None) -> None:
        while True:
            with self.cv:
                t0 = time.time()
                while not self._quiescent():
                    self.cv.wait(0.5)
                    if time.time() - t0 > 40:
                        self.error = "scheduler timeout: a thread neither reached a scheduling point nor finished"
                        self.abort = True
                        self.cv.notify_all()
                        return
                if observe is not None and self.trace:
                    observe(self.trace[-1])
                if len(self.finished) == self.n:
                    return
                enabled = []
                for i, k in sorted(self.waiting.items()):
                    if k in ("U", "E"):
                        if any(j != i and c.in_transaction for j, c in self.conns.items()):
                            continue
                    enabled.append(i)
                if not enabled:
                    self.error = "deadlock: every waiting thread needs the write lock held by a finished/blocked thread: %r" % (self.waiting,)
                    self.abort = True
                    self.cv.notify_all()
                    return
                # an E of a thread without an open transaction touches no stage/task row: it commutes with every
                # other step, so it is never a branching point (run last, lowest priority)
                branching = [i for i in enabled if not (self.waiting[i] == "E" and not self.conns[i].in_transaction)]
                cand = branching or enabled[:1]
                c = self.chooser(cand, len(self.trace)) if len(cand) > 1 else cand[0]
                self.enabled_log.append(list(cand))
                self.trace.append((c, self.waiting[c]))
                self.granted = c
                self.cv.notify_all()


# ---------------------------------------------------------------------------------------------------------
# one real run
# ---------------------------------------------------------------------------------------------------------

def _statuses():
    global STATUSES
    if STATUSES is None:
        lib.ensure_repo_on_path()
        from stabilize.models.status import WorkflowStatus
        STATUSES = [s.name for s in WorkflowStatus]
    return STATUSES


def _tid(i: int) -> str:
    return "t%06d" % i


_TEMPLATES: dict[str, tuple[Path, str, str]] = {}


def _reset_manager():
    from stabilize.persistence.connection import ConnectionManager
    try:
        from stabilize.persistence.connection import SingletonMeta
        SingletonMeta.reset(ConnectionManager)
    except Exception:
        pass


def _template(spec_key: str, tasks: list, status0: int, base: Path):
    """A database file holding one workflow with the contended stage (and a bystander stage)."""
    if spec_key in _TEMPLATES:
        return _TEMPLATES[spec_key]
    lib.ensure_repo_on_path()
    from stabilize.models.stage import StageExecution
    from stabilize.models.status import WorkflowStatus
    from stabilize.models.task import TaskExecution
    from stabilize.models.workflow import Workflow
    from stabilize.persistence.sqlite.store import SqliteWorkflowStore
    path = base / f"tpl-{len(_TEMPLATES)}.db"
    store = SqliteWorkflowStore(f"sqlite:///{path}", create_tables=True)
    wf = Workflow.create("c07", "c07", [])
    st = StageExecution.create("stage-a", "A", "a")
    st.execution = wf
    st.status = WorkflowStatus[_statuses()[status0]]
    st.context = {"log": []}
    ts = []
    for tid, code in tasks:
        t = TaskExecution.create("T%d" % tid, "shell")
        t.id = _tid(tid)
        t.status = WorkflowStatus[_statuses()[code]]
        ts.append(t)
    st.tasks = ts
    other = StageExecution.create("stage-b", "B", "b")
    other.execution = wf
    other.context = {"log": []}
    ot = TaskExecution.create("TB", "shell")
    ot.id = _tid(900000)
    other.tasks = [ot]
    wf.stages = [st, other]
    store.store(wf)
    store.close()
    _TEMPLATES[spec_key] = (path, st.id, other.id)
    return _TEMPLATES[spec_key]


def _apply_mod(stage, mod):
    from stabilize.models.status import WorkflowStatus
    from stabilize.models.task import TaskExecution
    names = _statuses()
    if mod["status"] is not None:
        stage.status = WorkflowStatus[names[mod["status"]]]
    stage.context.setdefault("log", []).append(mod["tag"])
    setm = {}
    for tid, code in mod["set"]:
        setm.setdefault(_tid(tid), code)            # first binding wins (assocZ)
    for t in stage.tasks:
        if t.id in setm:
            t.status = WorkflowStatus[names[setm[t.id]]]
    for tid, code in mod["new"]:
        if not any(t.id == _tid(tid) for t in stage.tasks):
            t = TaskExecution.create("N%d" % tid, "shell")
            t.id = _tid(tid)
            t.status = WorkflowStatus[names[code]]
            t.stage = stage
            stage.tasks.append(t)


def _read_row(conn, sid):
    r = conn.execute("SELECT version, status, context FROM stage_executions WHERE id = ?", (sid,)).fetchone()
    ts = conn.execute("SELECT id, version, status FROM task_executions WHERE stage_id = ? ORDER BY id", (sid,)).fetchall()
    if r is None:
        return None
    names = _statuses()
    return {"ver": r[0], "status": names.index(r[1]), "log": json.loads(r[2]).get("log", []),
            "tasks": [[int(t[0][1:]), t[1], names.index(t[2])] for t in ts]}


def real_run(spec: dict, chooser, base: Path) -> dict:
    """Run the workers of `spec` as real threads under the scheduler.  Returns trace, outcomes, final rows, history."""
    global _SCHED
    lib.ensure_repo_on_path()
    os.environ["STABILIZE_SQLITE_BUSY_TIMEOUT_MS"] = "1500"
    from stabilize.errors import ConcurrencyError
    from stabilize.persistence.sqlite.store import SqliteWorkflowStore
    key = json.dumps([spec["tasks"], spec["status0"]])
    tpl, sid, other_sid = _template(key, spec["tasks"], spec["status0"], base)
    path = base / ("run-%d-%d.db" % (os.getpid(), real_run.counter))
    real_run.counter += 1
    shutil.copyfile(tpl, path)
    sqlite3.connect = _patched_connect
    names = _statuses()
    n = len(spec["workers"])
    out: dict = {"results": [[] for _ in range(n)], "bases": [[] for _ in range(n)], "crash": [None] * n}
    try:
        store = SqliteWorkflowStore(f"sqlite:///{path}")
        sched = Scheduler(n, chooser)
        ready = threading.Barrier(n + 1)

        def worker(i: int, w: dict):
            _tl.idx, _tl.armed, _tl.epilogue = i, False, False
            try:
                sched.conns[i] = store._get_connection()     # open + PRAGMAs before scheduling starts
                ready.wait()
                _tl.armed = True
                for _attempt in range(w["tries"]):
                    try:
                        stage = store.retrieve_stage(sid)
                        out["bases"][i].append(stage.version)
                        ph = w["phase"]
                        phase = None if ph[0] == "none" else (stage.status.name if ph[0] == "snap" else names[ph[1]])
                        _apply_mod(stage, w["mod"])
                        if w["variant"] == "plain":
                            store.store_stage(stage, expected_phase=phase)
                        else:
                            with store.transaction(None) as txn:
                                txn.store_stage(stage, expected_phase=phase)
                        out["results"][i].append("ok")
                        break
                    except ConcurrencyError:
                        out["results"][i].append("conc")
                    except (sqlite3.Error, ValueError) as e:
                        out["results"][i].append("other")
                        out["crash"][i] = repr(e)[:200]
                        break
                _tl.epilogue = True
                store.mark_message_processed("ep-%d" % i)
            except Abort:
                out["crash"][i] = "aborted"
            except BaseException as e:  # noqa
                out["crash"][i] = "worker crashed: " + repr(e)[:300]
            finally:
                _tl.armed = False
                try:
                    c = sched.conns.get(i)
                    if c is not None and out["crash"][i] == "aborted":
                        c.rollback()
                except Exception:
                    pass
                sched.done(i)

        _SCHED = sched
        threads = [threading.Thread(target=worker, args=(i, w), daemon=True) for i, w in enumerate(spec["workers"])]
        for t in threads:
            t.start()
        ready.wait()
        obs_conn = _ORIG_CONNECT(str(path), timeout=2)
        history = [_read_row(obs_conn, sid)]
        other0 = _read_row(obs_conn, other_sid)

        def observe(ev):
            history.append(_read_row(obs_conn, sid))

        sched.drive(observe)
        for t in threads:
            t.join(5)
        out["trace"] = [[i, k] for i, k in sched.trace]
        out["enabled"] = sched.enabled_log
        out["error"] = sched.error
        out["history"] = history            # committed row before the first step and after every step
        out["final"] = _read_row(obs_conn, sid)
        out["other_unchanged"] = (_read_row(obs_conn, other_sid) == other0)
        out["open_txn_left"] = [i for i, c in sched.conns.items() if c.in_transaction]
        obs_conn.close()
        for c in sched.conns.values():
            try:
                c.close()
            except Exception:
                pass
        store.close()
    finally:
        _SCHED = None
        sqlite3.connect = _ORIG_CONNECT
        for ext in ("", "-journal", "-wal", "-shm"):
            try:
                os.unlink(str(path) + ext)
            except FileNotFoundError:
                pass
    return out


real_run.counter = 0
